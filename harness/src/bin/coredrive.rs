//! Correspondence ("differential") harness for the string/bytes family.
//!
//! `coredrive --tier quick|thorough --seed N [--lean <core_driver>] --out stats.json
//!            [--replay file.json|file.ops] [--save-corpus dir]`
//!
//! Runs the same operation sequences on (a) the real crate, in process, under a tracking
//! allocator, (b) a plain-std oracle pool (`Vec<u8>`), (c) the compiled Lean model + spec
//! (`core_driver`), and compares: implementation vs model (`impl-vs-model`), implementation vs
//! oracle (`impl-vs-oracle`), Lean spec vs oracle (`spec-vs-std`), plus allocator/heap monitors
//! on the implementation alone (`monitor`).
//!
//! A sequence is a list of lines: `type <byt|str|os|path>` (harness only), then
//! `cfg <arc|rc|unique> <debug|release> <ceil> 23 <slots>`, `src <hex>` lines, one op per line
//! (syntax of `Driver/Core.lean`).

use std::borrow::Cow;
use std::collections::{BTreeMap, BTreeSet, HashMap};
use std::ffi::{OsStr, OsString};
use std::ops::Bound;
use std::os::unix::ffi::{OsStrExt, OsStringExt};
use std::panic::{catch_unwind, AssertUnwindSafe};
use std::path::{Path, PathBuf};

use hipstr::bytes::HipByt;
use hipstr::os_string::HipOsStr;
use hipstr::path::HipPath;
use hipstr::string::HipStr;
use hipstr::{Arc, Backend, Rc, Unique};
use hipverif_harness::alloc;
use hipverif_harness::util::{hex, parse_cli, unhex, Rng};

#[global_allocator]
static GLOBAL: alloc::Tracking = alloc::Tracking;

const SLOTS: usize = 6;
const ICAP: usize = 23;
const REAL_CEIL: u64 = u64::MAX - 1;
/// `rel` announced to the model for a probe in unrelated memory
const FOREIGN_REL: usize = 1 << 40;

/// The Lean line-protocol driver as a child process.  Same protocol as
/// `hipverif_harness::util::LeanDriver` (one line in, one line out) but PIPELINED: a whole
/// sequence is written, then all the answers are read (one context switch per sequence instead
/// of one per line).  A batch must stay below the pipe capacity (64 KiB): sequences are ~10 KiB.
struct LeanDriver {
    /// the header (cfg + src lines) the driver is currently configured with: a sequence with
    /// the same header only needs `reset`
    header: Vec<String>,
    child: std::process::Child,
    stdin: std::process::ChildStdin,
    stdout: std::io::BufReader<std::process::ChildStdout>,
}

impl LeanDriver {
    fn spawn(path: &str) -> std::io::Result<Self> {
        use std::process::{Command, Stdio};
        let mut child = Command::new(path).stdin(Stdio::piped()).stdout(Stdio::piped()).stderr(Stdio::inherit()).spawn()?;
        let stdin = child.stdin.take().unwrap();
        let stdout = std::io::BufReader::new(child.stdout.take().unwrap());
        Ok(LeanDriver { header: vec![], child, stdin, stdout })
    }
    fn batch(&mut self, lines: &[String]) -> std::io::Result<Vec<String>> {
        use std::io::{BufRead, Write};
        let mut out = Vec::with_capacity(lines.len());
        for chunk in lines.chunks(48) {
            let text = chunk.join("\n") + "\n";
            assert!(text.len() < 60_000, "batch larger than the pipe capacity");
            self.stdin.write_all(text.as_bytes())?;
            self.stdin.flush()?;
            for _ in chunk {
                let mut l = String::new();
                if self.stdout.read_line(&mut l)? == 0 {
                    return Err(std::io::Error::new(std::io::ErrorKind::UnexpectedEof, "lean driver closed its output"));
                }
                while l.ends_with('\n') || l.ends_with('\r') {
                    l.pop();
                }
                out.push(l);
            }
        }
        Ok(out)
    }
}

impl Drop for LeanDriver {
    fn drop(&mut self) {
        let _ = self.child.kill();
        let _ = self.child.wait();
    }
}

fn profile() -> &'static str {
    if cfg!(debug_assertions) {
        "debug"
    } else {
        "release"
    }
}

// ---------------------------------------------------------------------------------------------
// operations
// ---------------------------------------------------------------------------------------------

#[derive(Clone, Copy, Debug, PartialEq, Eq)]
enum Bd {
    I(usize),
    X(usize),
    U,
}

impl Bd {
    fn show(&self) -> String {
        match self {
            Bd::I(n) => format!("i{n}"),
            Bd::X(n) => format!("x{n}"),
            Bd::U => "u".into(),
        }
    }
    fn parse(s: &str) -> Option<Bd> {
        if s == "u" {
            Some(Bd::U)
        } else if let Some(r) = s.strip_prefix('i') {
            r.parse().ok().map(Bd::I)
        } else if let Some(r) = s.strip_prefix('x') {
            r.parse().ok().map(Bd::X)
        } else {
            None
        }
    }
    fn bound(&self) -> Bound<usize> {
        match *self {
            Bd::I(n) => Bound::Included(n),
            Bd::X(n) => Bound::Excluded(n),
            Bd::U => Bound::Unbounded,
        }
    }
}

#[derive(Clone, Debug, PartialEq, Eq)]
enum VOp {
    Push(u8),
    Ext(Vec<u8>),
    Trunc(usize),
    Clear,
}

fn show_script(s: &[VOp]) -> String {
    if s.is_empty() {
        return "-".into();
    }
    s.iter()
        .map(|o| match o {
            VOp::Push(b) => format!("p{b:02x}"),
            VOp::Ext(bs) => format!("e{}", hex(bs)),
            VOp::Trunc(n) => format!("t{n}"),
            VOp::Clear => "c".into(),
        })
        .collect::<Vec<_>>()
        .join(",")
}

fn parse_script(s: &str) -> Option<Vec<VOp>> {
    if s == "-" {
        return Some(vec![]);
    }
    s.split(',')
        .map(|t| {
            if t == "c" {
                Some(VOp::Clear)
            } else if let Some(r) = t.strip_prefix('t') {
                r.parse().ok().map(VOp::Trunc)
            } else if let Some(r) = t.strip_prefix('e') {
                unhex(r).map(VOp::Ext)
            } else if let Some(r) = t.strip_prefix('p') {
                match unhex(r) {
                    Some(v) if v.len() == 1 => Some(VOp::Push(v[0])),
                    _ => None,
                }
            } else {
                None
            }
        })
        .collect()
}

#[derive(Clone, Debug, PartialEq, Eq)]
enum Op {
    New { d: usize },
    FromSlice { d: usize, bs: Vec<u8> },
    FromVec { d: usize, bs: Vec<u8>, cap: usize },
    Borrowed { d: usize, src: usize, off: usize, len: usize },
    WithCap { d: usize, n: usize },
    Inline { d: usize, bs: Vec<u8> },
    TryInline { d: usize, bs: Vec<u8> },
    Clone { h: usize, d: usize },
    Slice { h: usize, d: usize, sb: Bd, eb: Bd, try_: bool },
    SliceRef { h: usize, d: usize, neg: bool, rel: usize, plen: usize, try_: bool },
    Adopt { h: usize, d: usize, off: usize, len: usize },
    Push { h: usize, bs: Vec<u8> },
    Pop { h: usize },
    Truncate { h: usize, n: usize },
    Clear { h: usize },
    ShrinkTo { h: usize, n: usize },
    ShrinkFit { h: usize },
    AsMut { h: usize, i: usize, b: u8 },
    ToMut { h: usize, i: usize, b: u8 },
    Lower { h: usize },
    Upper { h: usize },
    ToLower { h: usize, d: usize },
    ToUpper { h: usize, d: usize },
    Mutate { h: usize, script: Vec<VOp>, leak: bool },
    IntoOwned { h: usize, d: usize },
    IntoVec { h: usize },
    ToVec { h: usize },
    IntoBorrowed { h: usize },
    Repeat { h: usize, d: usize, n: usize },
    Spare { h: usize },
    Drop { h: usize },
    // the `HipStr` API proper (model: `HipVerif.Str.strStep`); arguments are NOT restricted to
    // char boundaries / well-formed bytes
    SPushStr { h: usize, bs: Vec<u8> },
    SPushChar { h: usize, c: u32 },
    SPop { h: usize },
    STruncate { h: usize, n: usize },
    SSlice { h: usize, d: usize, sb: Bd, eb: Bd, try_: bool },
    SFromUtf8 { d: usize, bs: Vec<u8> },
    // implementation-only probes (no persistent effect, not sent to the model):
    /// move the value through the other wrapper types and back (pointer identity, no allocation)
    WrapTrip { h: usize },
    /// `slice`/`try_slice` with an IMPURE `RangeBounds` whose k-th reading is `readings[k]`
    /// (`s` = the `HipStr`-level call); the result is checked and dropped within the step
    Flip { h: usize, readings: Vec<(Bd, Bd)>, try_: bool, s: bool },
}

impl Op {
    fn name(&self) -> &'static str {
        match self {
            Op::New { .. } => "new",
            Op::FromSlice { .. } => "from_slice",
            Op::FromVec { .. } => "from_vec",
            Op::Borrowed { .. } => "borrowed",
            Op::WithCap { .. } => "with_cap",
            Op::Inline { .. } => "inline",
            Op::TryInline { .. } => "try_inline",
            Op::Clone { .. } => "clone",
            Op::Slice { try_: false, .. } => "slice",
            Op::Slice { try_: true, .. } => "try_slice",
            Op::SliceRef { try_: false, .. } => "slice_ref",
            Op::SliceRef { try_: true, .. } => "try_slice_ref",
            Op::Adopt { .. } => "adopt",
            Op::Push { .. } => "push",
            Op::Pop { .. } => "pop",
            Op::Truncate { .. } => "truncate",
            Op::Clear { .. } => "clear",
            Op::ShrinkTo { .. } => "shrink_to",
            Op::ShrinkFit { .. } => "shrink_fit",
            Op::AsMut { .. } => "as_mut",
            Op::ToMut { .. } => "to_mut",
            Op::Lower { .. } => "lower",
            Op::Upper { .. } => "upper",
            Op::ToLower { .. } => "to_lower",
            Op::ToUpper { .. } => "to_upper",
            Op::Mutate { leak: false, .. } => "mutate",
            Op::Mutate { leak: true, .. } => "mutate_leak",
            Op::IntoOwned { .. } => "into_owned",
            Op::IntoVec { .. } => "into_vec",
            Op::ToVec { .. } => "to_vec",
            Op::IntoBorrowed { .. } => "into_borrowed",
            Op::Repeat { .. } => "repeat",
            Op::Spare { .. } => "spare",
            Op::Drop { .. } => "drop",
            Op::SPushStr { .. } => "s_push_str",
            Op::SPushChar { .. } => "s_push_char",
            Op::SPop { .. } => "s_pop",
            Op::STruncate { .. } => "s_truncate",
            Op::SSlice { try_: false, .. } => "s_slice",
            Op::SSlice { try_: true, .. } => "s_try_slice",
            Op::SFromUtf8 { .. } => "s_from_utf8",
            Op::WrapTrip { .. } => "wrap_trip",
            Op::Flip { try_: false, s: false, .. } => "slice_flip",
            Op::Flip { try_: true, s: false, .. } => "try_slice_flip",
            Op::Flip { try_: false, s: true, .. } => "s_slice_flip",
            Op::Flip { try_: true, s: true, .. } => "s_try_slice_flip",
        }
    }

    /// probes run on the implementation only: the model is not told, the state does not change
    fn impl_only(&self) -> bool {
        matches!(self, Op::WrapTrip { .. } | Op::Flip { .. })
    }

    fn is_str_level(&self) -> bool {
        self.name().starts_with("s_")
    }

    fn line(&self) -> String {
        let n = self.name();
        match self {
            Op::New { d } => format!("{n} {d}"),
            Op::FromSlice { d, bs } | Op::Inline { d, bs } | Op::TryInline { d, bs } => format!("{n} {d} {}", hex(bs)),
            Op::FromVec { d, bs, cap } => format!("{n} {d} {} {cap}", hex(bs)),
            Op::Borrowed { d, src, off, len } => format!("{n} {d} {src} {off} {len}"),
            Op::WithCap { d, n: c } => format!("{n} {d} {c}"),
            Op::Clone { h, d } | Op::ToLower { h, d } | Op::ToUpper { h, d } | Op::IntoOwned { h, d } => {
                format!("{n} {h} {d}")
            }
            Op::Slice { h, d, sb, eb, .. } => format!("{n} {h} {d} {} {}", sb.show(), eb.show()),
            Op::SliceRef { h, d, neg, rel, plen, .. } => {
                format!("{n} {h} {d} {} {rel} {plen}", if *neg { "n" } else { "p" })
            }
            Op::Adopt { h, d, off, len } => format!("{n} {h} {d} {off} {len}"),
            Op::Push { h, bs } => format!("{n} {h} {}", hex(bs)),
            Op::Pop { h }
            | Op::Clear { h }
            | Op::ShrinkFit { h }
            | Op::Lower { h }
            | Op::Upper { h }
            | Op::IntoVec { h }
            | Op::ToVec { h }
            | Op::IntoBorrowed { h }
            | Op::Spare { h }
            | Op::Drop { h } => format!("{n} {h}"),
            Op::Truncate { h, n: k } | Op::ShrinkTo { h, n: k } => format!("{n} {h} {k}"),
            Op::AsMut { h, i, b } | Op::ToMut { h, i, b } => format!("{n} {h} {i} {b:02x}"),
            Op::Mutate { h, script, .. } => format!("{n} {h} {}", show_script(script)),
            Op::Repeat { h, d, n: k } => format!("{n} {h} {d} {k}"),
            Op::SPushStr { h, bs } => format!("{n} {h} {}", hex(bs)),
            Op::SPushChar { h, c } => format!("{n} {h} {c}"),
            Op::SPop { h } => format!("{n} {h}"),
            Op::STruncate { h, n: k } => format!("{n} {h} {k}"),
            Op::SSlice { h, d, sb, eb, .. } => format!("{n} {h} {d} {} {}", sb.show(), eb.show()),
            Op::SFromUtf8 { d, bs } => format!("{n} {d} {}", hex(bs)),
            Op::WrapTrip { h } => format!("{n} {h}"),
            Op::Flip { h, readings, .. } => {
                format!("{n} {h} {}", readings.iter().map(|(a, b)| format!("{}:{}", a.show(), b.show())).collect::<Vec<_>>().join(","))
            }
        }
    }

    fn parse(line: &str) -> Option<Op> {
        let t: Vec<&str> = line.split_whitespace().collect();
        let u = |s: &str| s.parse::<usize>().ok();
        let byte = |s: &str| unhex(s).filter(|v| v.len() == 1).map(|v| v[0]);
        Some(match t.as_slice() {
            ["new", d] => Op::New { d: u(d)? },
            ["from_slice", d, x] => Op::FromSlice { d: u(d)?, bs: unhex(x)? },
            ["from_vec", d, x, c] => Op::FromVec { d: u(d)?, bs: unhex(x)?, cap: u(c)? },
            ["borrowed", d, s, o, l] => Op::Borrowed { d: u(d)?, src: u(s)?, off: u(o)?, len: u(l)? },
            ["with_cap", d, n] => Op::WithCap { d: u(d)?, n: u(n)? },
            ["inline", d, x] => Op::Inline { d: u(d)?, bs: unhex(x)? },
            ["try_inline", d, x] => Op::TryInline { d: u(d)?, bs: unhex(x)? },
            ["clone", h, d] => Op::Clone { h: u(h)?, d: u(d)? },
            ["slice", h, d, a, b] => Op::Slice { h: u(h)?, d: u(d)?, sb: Bd::parse(a)?, eb: Bd::parse(b)?, try_: false },
            ["try_slice", h, d, a, b] => {
                Op::Slice { h: u(h)?, d: u(d)?, sb: Bd::parse(a)?, eb: Bd::parse(b)?, try_: true }
            }
            ["slice_ref", h, d, sg, r, l] => {
                Op::SliceRef { h: u(h)?, d: u(d)?, neg: *sg == "n", rel: u(r)?, plen: u(l)?, try_: false }
            }
            ["try_slice_ref", h, d, sg, r, l] => {
                Op::SliceRef { h: u(h)?, d: u(d)?, neg: *sg == "n", rel: u(r)?, plen: u(l)?, try_: true }
            }
            ["adopt", h, d, o, l] => Op::Adopt { h: u(h)?, d: u(d)?, off: u(o)?, len: u(l)? },
            ["push", h, x] => Op::Push { h: u(h)?, bs: unhex(x)? },
            ["pop", h] => Op::Pop { h: u(h)? },
            ["truncate", h, n] => Op::Truncate { h: u(h)?, n: u(n)? },
            ["clear", h] => Op::Clear { h: u(h)? },
            ["shrink_to", h, n] => Op::ShrinkTo { h: u(h)?, n: u(n)? },
            ["shrink_fit", h] => Op::ShrinkFit { h: u(h)? },
            ["as_mut", h, i, x] => Op::AsMut { h: u(h)?, i: u(i)?, b: byte(x)? },
            ["to_mut", h, i, x] => Op::ToMut { h: u(h)?, i: u(i)?, b: byte(x)? },
            ["lower", h] => Op::Lower { h: u(h)? },
            ["upper", h] => Op::Upper { h: u(h)? },
            ["to_lower", h, d] => Op::ToLower { h: u(h)?, d: u(d)? },
            ["to_upper", h, d] => Op::ToUpper { h: u(h)?, d: u(d)? },
            ["mutate", h, s] => Op::Mutate { h: u(h)?, script: parse_script(s)?, leak: false },
            ["mutate_leak", h, s] => Op::Mutate { h: u(h)?, script: parse_script(s)?, leak: true },
            ["into_owned", h, d] => Op::IntoOwned { h: u(h)?, d: u(d)? },
            ["into_vec", h] => Op::IntoVec { h: u(h)? },
            ["to_vec", h] => Op::ToVec { h: u(h)? },
            ["into_borrowed", h] => Op::IntoBorrowed { h: u(h)? },
            ["repeat", h, d, n] => Op::Repeat { h: u(h)?, d: u(d)?, n: u(n)? },
            ["spare", h] => Op::Spare { h: u(h)? },
            ["drop", h] => Op::Drop { h: u(h)? },
            ["s_push_str", h, x] => Op::SPushStr { h: u(h)?, bs: unhex(x)? },
            ["s_push_char", h, c] => Op::SPushChar { h: u(h)?, c: c.parse().ok()? },
            ["s_pop", h] => Op::SPop { h: u(h)? },
            ["s_truncate", h, n] => Op::STruncate { h: u(h)?, n: u(n)? },
            ["s_slice", h, d, a, b] => Op::SSlice { h: u(h)?, d: u(d)?, sb: Bd::parse(a)?, eb: Bd::parse(b)?, try_: false },
            ["s_try_slice", h, d, a, b] => Op::SSlice { h: u(h)?, d: u(d)?, sb: Bd::parse(a)?, eb: Bd::parse(b)?, try_: true },
            ["s_from_utf8", d, x] => Op::SFromUtf8 { d: u(d)?, bs: unhex(x)? },
            ["wrap_trip", h] => Op::WrapTrip { h: u(h)? },
            ["slice_flip", h, r] => Op::parse_flip("slice_flip", h, r)?,
            ["try_slice_flip", h, r] => Op::parse_flip("try_slice_flip", h, r)?,
            ["s_slice_flip", h, r] => Op::parse_flip("s_slice_flip", h, r)?,
            ["s_try_slice_flip", h, r] => Op::parse_flip("s_try_slice_flip", h, r)?,
            _ => return None,
        })
    }

    fn parse_flip(n: &str, h: &str, r: &str) -> Option<Op> {
        let u = |x: &str| x.parse::<usize>().ok();
        let readings: Option<Vec<(Bd, Bd)>> = r
            .split(',')
            .map(|p| {
                let (a, b) = p.split_once(':')?;
                Some((Bd::parse(a)?, Bd::parse(b)?))
            })
            .collect();
        let readings = readings?;
        if readings.is_empty() {
            return None;
        }
        Some(Op::Flip { h: u(h)?, readings, try_: n.contains("try_"), s: n.starts_with("s_") })
    }

    /// (target handle, destination slot)
    fn slots(&self) -> (Option<usize>, Option<usize>) {
        match *self {
            Op::New { d }
            | Op::FromSlice { d, .. }
            | Op::FromVec { d, .. }
            | Op::Borrowed { d, .. }
            | Op::WithCap { d, .. }
            | Op::Inline { d, .. }
            | Op::TryInline { d, .. }
            | Op::SFromUtf8 { d, .. } => (None, Some(d)),
            Op::Clone { h, d }
            | Op::Slice { h, d, .. }
            | Op::SliceRef { h, d, .. }
            | Op::Adopt { h, d, .. }
            | Op::ToLower { h, d }
            | Op::ToUpper { h, d }
            | Op::IntoOwned { h, d }
            | Op::SSlice { h, d, .. }
            | Op::Repeat { h, d, .. } => (Some(h), Some(d)),
            Op::Push { h, .. }
            | Op::Pop { h }
            | Op::Truncate { h, .. }
            | Op::Clear { h }
            | Op::ShrinkTo { h, .. }
            | Op::ShrinkFit { h }
            | Op::AsMut { h, .. }
            | Op::ToMut { h, .. }
            | Op::Lower { h }
            | Op::Upper { h }
            | Op::Mutate { h, .. }
            | Op::IntoVec { h }
            | Op::ToVec { h }
            | Op::IntoBorrowed { h }
            | Op::Spare { h }
            | Op::SPushStr { h, .. }
            | Op::SPushChar { h, .. }
            | Op::SPop { h }
            | Op::STruncate { h, .. }
            | Op::WrapTrip { h }
            | Op::Flip { h, .. }
            | Op::Drop { h } => (Some(h), None),
        }
    }

    /// a deterministic "variant" selector (which of several equivalent API routes is taken)
    fn variant(&self) -> u64 {
        let mut h: u64 = 0xcbf2_9ce4_8422_2325;
        for b in self.line().bytes() {
            h = (h ^ b as u64).wrapping_mul(0x1000_0000_01b3);
        }
        h >> 7
    }
}

// ---------------------------------------------------------------------------------------------
// the four subject types behind one adapter trait
// ---------------------------------------------------------------------------------------------

/// `Err` of `try_slice`: requested start, end, kind name
type SliceErr = (usize, usize, &'static str);
type Range2 = (Bound<usize>, Bound<usize>);

/// Adapter over `HipByt`/`HipStr`/`HipOsStr`/`HipPath`.  Methods are called INSIDE the counted
/// region: they must not allocate on behalf of the harness.  Byte arguments are valid for the
/// type (checked by `Session::applicable`).  Unsupported operations are never called.
#[allow(unused_variables)]
trait Subject: Sized + 'static {
    type B: Backend;
    const TY: &'static str;
    fn hb(&self) -> &HipByt<'static, Self::B>;
    fn supports(op: &Op) -> bool;
    fn text() -> bool {
        false
    }

    fn new() -> Self;
    fn from_slice(bs: &[u8]) -> Self;
    fn from_owned(v: Vec<u8>, var: u64) -> Self;
    fn borrowed(s: &'static [u8], var: u64) -> Self;
    fn with_capacity(n: usize) -> Self {
        unimplemented!()
    }
    fn inline(bs: &[u8]) -> Self {
        unimplemented!()
    }
    fn try_inline(bs: &[u8]) -> Option<Self> {
        unimplemented!()
    }
    fn clone_(&self) -> Self;
    fn slice(&self, r: Range2) -> Self {
        unimplemented!()
    }
    fn try_slice(&self, r: Range2) -> Result<Self, SliceErr> {
        unimplemented!()
    }
    fn try_slice_ref(&self, p: &[u8]) -> Option<Self> {
        unimplemented!()
    }
    fn slice_ref(&self, p: &[u8]) -> Self {
        unimplemented!()
    }
    unsafe fn adopt(&self, p: &[u8]) -> Self {
        unimplemented!()
    }
    fn push(&mut self, bs: &[u8], var: u64) {
        unimplemented!()
    }
    fn pop(&mut self) -> Option<u8> {
        unimplemented!()
    }
    fn truncate(&mut self, n: usize) {
        unimplemented!()
    }
    fn clear(&mut self) {
        unimplemented!()
    }
    fn shrink_to(&mut self, n: usize);
    fn shrink_to_fit(&mut self);
    fn as_mut_write(&mut self, i: usize, b: u8) -> bool {
        unimplemented!()
    }
    fn to_mut_write(&mut self, i: usize, b: u8) {
        unimplemented!()
    }
    fn make_lower(&mut self) {
        unimplemented!()
    }
    fn make_upper(&mut self) {
        unimplemented!()
    }
    fn to_lower(&self) -> Self {
        unimplemented!()
    }
    fn to_upper(&self) -> Self {
        unimplemented!()
    }
    /// runs the script on the guard; returns the address of the guard's buffer as taken from the
    /// value (before the script) and, if `leak` (the guard is forgotten), (buffer address, capacity)
    fn mutate(&mut self, script: &[VOp], leak: bool) -> (usize, Option<(usize, usize)>);
    fn into_owned(self) -> Self;
    /// the fallible conversions into the std owner (`Err(self)` when the buffer cannot be taken)
    const INTO_VEC_ROUTES: &'static [&'static str];
    /// the infallible consuming conversions into a std owner
    const TO_VEC_ROUTES: &'static [&'static str];
    const MUTATE_NAME: &'static str;
    fn into_vec(self, route: usize) -> Result<Vec<u8>, Self>;
    fn to_vec(self, route: usize) -> Vec<u8>;
    /// moves the value through the other wrapper types and back (every hop is recorded)
    fn wrap_trip(self, var: u64, hops: &mut Hops) -> Self;
    fn slice_flip(&self, r: FlipRange) -> Self {
        unimplemented!()
    }
    fn try_slice_flip(&self, r: FlipRange) -> Result<Self, SliceErr> {
        unimplemented!()
    }
    fn into_borrowed(self) -> Result<&'static [u8], Self>;
    fn repeat(&self, n: usize) -> Self {
        unimplemented!()
    }
    fn spare(&mut self) -> usize {
        unimplemented!()
    }
    /// `HipStr::pop`
    fn s_pop(&mut self) -> Option<char> {
        unimplemented!()
    }
    /// `from_utf8(HipByt)` / `TryFrom<&[u8]>` / `TryFrom<Vec<u8>>`; `Err(valid_up_to)`.
    /// `owned` = the bytes as an owned value prepared by the caller (route 1: a `HipByt`,
    /// route 2: a `Vec`), `None` = build it here (inside the counted region).
    /// On error the owned bytes come back so that they are dropped outside the counted region.
    fn s_from_utf8(bs: &[u8], route: u64, owned: Option<Owned<Self::B>>) -> Result<Self, (usize, Option<Owned<Self::B>>)> {
        unimplemented!()
    }
    /// `as_mut_slice().is_some()` (or its equivalent)
    fn uniq(&mut self) -> bool;
    /// formatting compared with std's: `Some((expected, observed))` on a difference
    fn fmt_check(&self, oracle: &[u8]) -> Option<(String, String)>;
}

/// An impure `RangeBounds<usize>`: the k-th call of `start_bound()` (resp. `end_bound()`) answers
/// with the k-th scripted reading (the last one from then on).  Safe code may pass such a range.
/// (No heap storage: the range is built and dropped inside the counted region.)
struct FlipRange {
    script: [(Bound<usize>, Bound<usize>); FLIP_MAX],
    n: usize,
    s: std::cell::Cell<usize>,
    e: std::cell::Cell<usize>,
}

const FLIP_MAX: usize = 6;

impl FlipRange {
    fn new(readings: &[(Bd, Bd)]) -> Self {
        let mut script = [(Bound::Unbounded, Bound::Unbounded); FLIP_MAX];
        let n = readings.len().min(FLIP_MAX);
        for k in 0..n {
            script[k] = (readings[k].0.bound(), readings[k].1.bound());
        }
        FlipRange { script, n, s: Default::default(), e: Default::default() }
    }
}

impl std::ops::RangeBounds<usize> for FlipRange {
    fn start_bound(&self) -> Bound<&usize> {
        let k = self.s.get();
        self.s.set(k + 1);
        self.script[k.min(self.n - 1)].0.as_ref()
    }
    fn end_bound(&self) -> Bound<&usize> {
        let k = self.e.get();
        self.e.set(k + 1);
        self.script[k.min(self.n - 1)].1.as_ref()
    }
}

/// The hops of a wrapper-to-wrapper round trip: each must keep the bytes where they are
/// (same pointer, length, representation).  Fixed storage: filled inside the counted region.
struct Hops {
    base: (usize, usize, u8),
    names: [&'static str; 8],
    n: usize,
    moved: Option<&'static str>,
}

fn repr_id<B: Backend>(hb: &HipByt<'static, B>) -> (usize, usize, u8) {
    // an inline value lives inside the handle: its address legitimately moves with it
    let tag = if hb.is_inline() { 1 } else if hb.is_borrowed() { 2 } else { 3 };
    (if tag == 1 { 0 } else { hb.as_ptr() as usize }, hb.len(), tag)
}

impl Hops {
    fn new<B: Backend>(hb: &HipByt<'static, B>) -> Self {
        Hops { base: repr_id(hb), names: [""; 8], n: 0, moved: None }
    }
    fn hop<B: Backend>(&mut self, name: &'static str, hb: &HipByt<'static, B>) {
        if self.n < 8 {
            self.names[self.n] = name;
            self.n += 1;
        }
        if repr_id(hb) != self.base && self.moved.is_none() {
            self.moved = Some(name);
        }
    }
}

enum Owned<B: Backend> {
    Byt(HipByt<'static, B>),
    Vec(Vec<u8>),
}

fn bkind_name(k: hipstr::bytes::SliceErrorKind) -> &'static str {
    use hipstr::bytes::SliceErrorKind as K;
    match k {
        K::StartGreaterThanEnd => "StartGreaterThanEnd",
        K::StartOutOfBounds => "StartOutOfBounds",
        K::EndOutOfBounds => "EndOutOfBounds",
    }
}

fn skind_name(k: hipstr::string::SliceErrorKind) -> &'static str {
    use hipstr::string::SliceErrorKind as K;
    match k {
        K::StartGreaterThanEnd => "StartGreaterThanEnd",
        K::StartOutOfBounds => "StartOutOfBounds",
        K::EndOutOfBounds => "EndOutOfBounds",
        K::StartNotACharBoundary => "StartNotACharBoundary",
        K::EndNotACharBoundary => "EndNotACharBoundary",
    }
}

fn heap_uniq<B: Backend>(hb: &HipByt<'static, B>) -> bool {
    if hb.is_inline() {
        true
    } else if hb.is_borrowed() {
        false
    } else {
        hb.verif_owner_info().map(|i| i.4 == 1).unwrap_or(false)
    }
}

fn apply_vec(v: &mut Vec<u8>, script: &[VOp]) {
    for o in script {
        match o {
            VOp::Push(b) => v.push(*b),
            VOp::Ext(bs) => v.extend_from_slice(bs),
            VOp::Trunc(n) => v.truncate(*n),
            VOp::Clear => v.clear(),
        }
    }
}

unsafe fn st(bs: &[u8]) -> &str {
    std::str::from_utf8_unchecked(bs)
}

impl<B: Backend> Subject for HipByt<'static, B> {
    type B = B;
    const TY: &'static str = "byt";
    fn hb(&self) -> &HipByt<'static, B> {
        self
    }
    fn supports(op: &Op) -> bool {
        !op.is_str_level()
    }
    fn new() -> Self {
        HipByt::new()
    }
    fn from_slice(bs: &[u8]) -> Self {
        HipByt::from(bs)
    }
    fn from_owned(v: Vec<u8>, var: u64) -> Self {
        match var % 3 {
            1 if v.len() == v.capacity() => HipByt::from(v.into_boxed_slice()),
            2 => HipByt::from(Cow::<'static, [u8]>::Owned(v)),
            _ => HipByt::from(v),
        }
    }
    fn borrowed(s: &'static [u8], var: u64) -> Self {
        match var % 3 {
            1 => HipByt::from(Cow::Borrowed(s)),
            2 => HipByt::from_static(s),
            _ => HipByt::borrowed(s),
        }
    }
    fn with_capacity(n: usize) -> Self {
        HipByt::with_capacity(n)
    }
    fn inline(bs: &[u8]) -> Self {
        HipByt::inline(bs)
    }
    fn try_inline(bs: &[u8]) -> Option<Self> {
        HipByt::try_inline(bs)
    }
    fn clone_(&self) -> Self {
        self.clone()
    }
    fn slice(&self, r: Range2) -> Self {
        HipByt::slice(self, r)
    }
    fn try_slice(&self, r: Range2) -> Result<Self, SliceErr> {
        HipByt::try_slice(self, r).map_err(|e| (e.start(), e.end(), bkind_name(e.kind())))
    }
    fn try_slice_ref(&self, p: &[u8]) -> Option<Self> {
        HipByt::try_slice_ref(self, p)
    }
    fn slice_ref(&self, p: &[u8]) -> Self {
        HipByt::slice_ref(self, p)
    }
    unsafe fn adopt(&self, p: &[u8]) -> Self {
        self.slice_ref_unchecked(p)
    }
    fn push(&mut self, bs: &[u8], var: u64) {
        if bs.len() == 1 && var % 2 == 1 {
            HipByt::push(self, bs[0])
        } else {
            self.push_slice(bs)
        }
    }
    fn pop(&mut self) -> Option<u8> {
        HipByt::pop(self)
    }
    fn truncate(&mut self, n: usize) {
        HipByt::truncate(self, n)
    }
    fn clear(&mut self) {
        HipByt::clear(self)
    }
    fn shrink_to(&mut self, n: usize) {
        HipByt::shrink_to(self, n)
    }
    fn shrink_to_fit(&mut self) {
        HipByt::shrink_to_fit(self)
    }
    fn as_mut_write(&mut self, i: usize, b: u8) -> bool {
        match self.as_mut_slice() {
            Some(s) => {
                if i < s.len() {
                    s[i] = b;
                }
                true
            }
            None => false,
        }
    }
    fn to_mut_write(&mut self, i: usize, b: u8) {
        let s = self.to_mut_slice();
        if i < s.len() {
            s[i] = b;
        }
    }
    fn make_lower(&mut self) {
        self.make_ascii_lowercase()
    }
    fn make_upper(&mut self) {
        self.make_ascii_uppercase()
    }
    fn to_lower(&self) -> Self {
        self.to_ascii_lowercase()
    }
    fn to_upper(&self) -> Self {
        self.to_ascii_uppercase()
    }
    fn mutate(&mut self, script: &[VOp], leak: bool) -> (usize, Option<(usize, usize)>) {
        let mut g = HipByt::mutate(self);
        let v: &mut Vec<u8> = &mut **g;
        let taken = v.as_ptr() as usize;
        apply_vec(v, script);
        if leak {
            let r = (v.as_ptr() as usize, v.capacity());
            std::mem::forget(g);
            (taken, Some(r))
        } else {
            (taken, None)
        }
    }
    fn into_owned(self) -> Self {
        HipByt::into_owned(self)
    }
    const INTO_VEC_ROUTES: &'static [&'static str] = &["HipByt::into_vec"];
    const TO_VEC_ROUTES: &'static [&'static str] = &["Vec<u8>::from(HipByt)", "BString::from(HipByt)", "Cow<[u8]>::from(HipByt)"];
    const MUTATE_NAME: &'static str = "HipByt::mutate (guard takes the Vec)";
    fn into_vec(self, _: usize) -> Result<Vec<u8>, Self> {
        HipByt::into_vec(self)
    }
    fn to_vec(self, route: usize) -> Vec<u8> {
        match route {
            1 => Vec::<u8>::from(bstr::BString::from(self)),
            2 => Cow::<'static, [u8]>::from(self).into_owned(),
            _ => Vec::<u8>::from(self),
        }
    }
    fn wrap_trip(self, var: u64, hops: &mut Hops) -> Self {
        match HipStr::from_utf8(self) {
            Ok(s) => {
                hops.hop("HipStr::from_utf8(HipByt) Ok", s.verif_bytes());
                match var % 3 {
                    0 => {
                        let b = HipStr::into_bytes(s);
                        hops.hop("HipStr::into_bytes", &b);
                        b
                    }
                    1 => {
                        let b = HipByt::from(s);
                        hops.hop("HipByt::from(HipStr)", &b);
                        b
                    }
                    _ => {
                        let o = HipOsStr::from(s);
                        hops.hop("HipOsStr::from(HipStr)", o.verif_bytes());
                        let p = HipPath::from(o);
                        hops.hop("HipPath::from(HipOsStr)", p.verif_bytes());
                        let o = HipPath::into_os_str(p);
                        hops.hop("HipPath::into_os_str", o.verif_bytes());
                        let b = if var % 2 == 0 { HipOsStr::into_bytes(o) } else { HipByt::from(o) };
                        hops.hop(if var % 2 == 0 { "HipOsStr::into_bytes" } else { "HipByt::from(HipOsStr)" }, &b);
                        b
                    }
                }
            }
            Err(e) => {
                let b = e.into_bytes();
                hops.hop("HipStr::from_utf8(HipByt) Err -> FromUtf8Error::into_bytes", &b);
                b
            }
        }
    }
    fn slice_flip(&self, r: FlipRange) -> Self {
        HipByt::slice(self, r)
    }
    fn try_slice_flip(&self, r: FlipRange) -> Result<Self, SliceErr> {
        HipByt::try_slice(self, r).map_err(|e| (e.start(), e.end(), bkind_name(e.kind())))
    }
    fn into_borrowed(self) -> Result<&'static [u8], Self> {
        HipByt::into_borrowed(self)
    }
    fn repeat(&self, n: usize) -> Self {
        HipByt::repeat(self, n)
    }
    fn spare(&mut self) -> usize {
        self.spare_capacity_mut().len()
    }
    fn uniq(&mut self) -> bool {
        self.as_mut_slice().is_some()
    }
    fn fmt_check(&self, oracle: &[u8]) -> Option<(String, String)> {
        let (e, o) = (format!("{:?}", oracle), format!("{:?}", self));
        (e != o).then_some((e, o))
    }
}

impl<B: Backend> Subject for HipStr<'static, B> {
    type B = B;
    const TY: &'static str = "str";
    fn hb(&self) -> &HipByt<'static, B> {
        self.verif_bytes()
    }
    fn text() -> bool {
        true
    }
    fn supports(op: &Op) -> bool {
        !matches!(op, Op::Inline { .. } | Op::TryInline { .. } | Op::Spare { .. } | Op::Flip { s: false, .. })
    }
    fn new() -> Self {
        HipStr::new()
    }
    fn from_slice(bs: &[u8]) -> Self {
        HipStr::from(unsafe { st(bs) })
    }
    fn from_owned(v: Vec<u8>, var: u64) -> Self {
        let s = unsafe { String::from_utf8_unchecked(v) };
        match var % 3 {
            1 if s.len() == s.capacity() => HipStr::from(s.into_boxed_str()),
            2 => HipStr::from(Cow::<'static, str>::Owned(s)),
            _ => HipStr::from(s),
        }
    }
    fn borrowed(s: &'static [u8], var: u64) -> Self {
        let s: &'static str = unsafe { st(s) };
        match var % 3 {
            1 => HipStr::from(Cow::Borrowed(s)),
            2 => HipStr::from_static(s),
            _ => HipStr::borrowed(s),
        }
    }
    fn with_capacity(n: usize) -> Self {
        HipStr::with_capacity(n)
    }
    fn clone_(&self) -> Self {
        self.clone()
    }
    fn slice(&self, r: Range2) -> Self {
        HipStr::slice(self, r)
    }
    fn try_slice(&self, r: Range2) -> Result<Self, SliceErr> {
        HipStr::try_slice(self, r).map_err(|e| (e.start(), e.end(), skind_name(e.kind())))
    }
    fn try_slice_ref(&self, p: &[u8]) -> Option<Self> {
        HipStr::try_slice_ref(self, unsafe { st(p) })
    }
    fn slice_ref(&self, p: &[u8]) -> Self {
        HipStr::slice_ref(self, unsafe { st(p) })
    }
    unsafe fn adopt(&self, p: &[u8]) -> Self {
        self.slice_ref_unchecked(st(p))
    }
    fn push(&mut self, bs: &[u8], var: u64) {
        let s = unsafe { st(bs) };
        let mut cs = s.chars();
        match (cs.next(), cs.next()) {
            (Some(c), None) if var % 2 == 1 => HipStr::push(self, c),
            _ => self.push_str(s),
        }
    }
    fn pop(&mut self) -> Option<u8> {
        HipStr::pop(self).map(|c| c as u32 as u8)
    }
    fn truncate(&mut self, n: usize) {
        HipStr::truncate(self, n)
    }
    fn clear(&mut self) {
        HipStr::clear(self)
    }
    fn shrink_to(&mut self, n: usize) {
        HipStr::shrink_to(self, n)
    }
    fn shrink_to_fit(&mut self) {
        HipStr::shrink_to_fit(self)
    }
    fn as_mut_write(&mut self, i: usize, b: u8) -> bool {
        match self.as_mut_str() {
            Some(s) => {
                let s = unsafe { s.as_bytes_mut() };
                if i < s.len() {
                    s[i] = b;
                }
                true
            }
            None => false,
        }
    }
    fn to_mut_write(&mut self, i: usize, b: u8) {
        let s = unsafe { self.to_mut_str().as_bytes_mut() };
        if i < s.len() {
            s[i] = b;
        }
    }
    fn make_lower(&mut self) {
        self.make_ascii_lowercase()
    }
    fn make_upper(&mut self) {
        self.make_ascii_uppercase()
    }
    fn to_lower(&self) -> Self {
        self.to_ascii_lowercase()
    }
    fn to_upper(&self) -> Self {
        self.to_ascii_uppercase()
    }
    fn mutate(&mut self, script: &[VOp], leak: bool) -> (usize, Option<(usize, usize)>) {
        let mut g = HipStr::mutate(self);
        let s: &mut String = &mut *g;
        let taken = s.as_ptr() as usize;
        for o in script {
            match o {
                VOp::Push(b) => s.push(*b as char),
                VOp::Ext(bs) => s.push_str(unsafe { st(bs) }),
                VOp::Trunc(n) => s.truncate(*n),
                VOp::Clear => s.clear(),
            }
        }
        if leak {
            let r = (s.as_ptr() as usize, s.capacity());
            std::mem::forget(g);
            (taken, Some(r))
        } else {
            (taken, None)
        }
    }
    fn into_owned(self) -> Self {
        HipStr::into_owned(self)
    }
    const INTO_VEC_ROUTES: &'static [&'static str] = &["HipStr::into_string"];
    const TO_VEC_ROUTES: &'static [&'static str] = &["String::from(HipStr)", "Vec<u8>::from(HipStr)", "OsString::from(HipStr)", "Cow<str>::from(HipStr)"];
    const MUTATE_NAME: &'static str = "HipStr::mutate (guard takes the String)";
    fn into_vec(self, _: usize) -> Result<Vec<u8>, Self> {
        HipStr::into_string(self).map(String::into_bytes)
    }
    fn to_vec(self, route: usize) -> Vec<u8> {
        match route {
            1 => Vec::<u8>::from(self),
            2 => OsString::from(self).into_vec(),
            3 => Cow::<'static, str>::from(self).into_owned().into_bytes(),
            _ => String::from(self).into_bytes(),
        }
    }
    fn wrap_trip(self, var: u64, hops: &mut Hops) -> Self {
        match var % 4 {
            0 => {
                let o = HipOsStr::from(self);
                hops.hop("HipOsStr::from(HipStr)", o.verif_bytes());
                match HipOsStr::into_str(o) {
                    Ok(s) => {
                        hops.hop("HipOsStr::into_str Ok", s.verif_bytes());
                        s
                    }
                    Err(o) => {
                        hops.moved = Some("HipOsStr::into_str refused well-formed text");
                        unsafe { HipStr::from_utf8_unchecked(HipOsStr::into_bytes(o)) }
                    }
                }
            }
            1 => {
                let p = HipPath::from(self);
                hops.hop("HipPath::from(HipStr)", p.verif_bytes());
                match HipPath::into_str(p) {
                    Ok(s) => {
                        hops.hop("HipPath::into_str Ok", s.verif_bytes());
                        s
                    }
                    Err(p) => {
                        hops.moved = Some("HipPath::into_str refused well-formed text");
                        unsafe { HipStr::from_utf8_unchecked(HipOsStr::into_bytes(HipPath::into_os_str(p))) }
                    }
                }
            }
            2 => {
                let b = HipStr::into_bytes(self);
                hops.hop("HipStr::into_bytes", &b);
                match HipStr::try_from(b) {
                    Ok(s) => {
                        hops.hop("HipStr::try_from(HipByt) Ok", s.verif_bytes());
                        s
                    }
                    Err(e) => {
                        hops.moved = Some("HipStr::try_from(HipByt) refused well-formed text");
                        unsafe { HipStr::from_utf8_unchecked(e.into_bytes()) }
                    }
                }
            }
            _ => {
                let b = HipByt::from(self);
                hops.hop("HipByt::from(HipStr)", &b);
                let s = unsafe { HipStr::from_utf8_unchecked(b) };
                hops.hop("HipStr::from_utf8_unchecked", s.verif_bytes());
                s
            }
        }
    }
    fn slice_flip(&self, r: FlipRange) -> Self {
        HipStr::slice(self, r)
    }
    fn try_slice_flip(&self, r: FlipRange) -> Result<Self, SliceErr> {
        HipStr::try_slice(self, r).map_err(|e| (e.start(), e.end(), skind_name(e.kind())))
    }
    fn into_borrowed(self) -> Result<&'static [u8], Self> {
        HipStr::into_borrowed(self).map(str::as_bytes)
    }
    fn repeat(&self, n: usize) -> Self {
        HipStr::repeat(self, n)
    }
    fn s_pop(&mut self) -> Option<char> {
        HipStr::pop(self)
    }
    fn s_from_utf8(bs: &[u8], route: u64, owned: Option<Owned<B>>) -> Result<Self, (usize, Option<Owned<B>>)> {
        match route {
            1 => {
                let b = match owned {
                    Some(Owned::Byt(b)) => b,
                    _ => HipByt::from(bs),
                };
                HipStr::from_utf8(b).map_err(|e| (e.utf8_error().valid_up_to(), Some(Owned::Byt(e.into_bytes()))))
            }
            2 => {
                let v = match owned {
                    Some(Owned::Vec(v)) => v,
                    _ => bs.to_vec(),
                };
                HipStr::try_from(v).map_err(|e| (e.utf8_error().valid_up_to(), Some(Owned::Vec(e.into_bytes()))))
            }
            _ => HipStr::try_from(bs).map_err(|e| (e.valid_up_to(), None)),
        }
    }
    fn uniq(&mut self) -> bool {
        self.as_mut_str().is_some()
    }
    fn fmt_check(&self, oracle: &[u8]) -> Option<(String, String)> {
        let s = String::from_utf8_lossy(oracle).into_owned();
        if std::str::from_utf8(self.hb().as_slice()).is_err() {
            return Some(("valid UTF-8".into(), format!("bytes {}", hex(self.hb().as_slice()))));
        }
        let (e, o) = (format!("{s}|{s:?}|{s:>5}"), format!("{self}|{self:?}|{self:>5}"));
        (e != o).then_some((e, o))
    }
}

impl<B: Backend> Subject for HipOsStr<'static, B> {
    type B = B;
    const TY: &'static str = "os";
    fn hb(&self) -> &HipByt<'static, B> {
        self.verif_bytes()
    }
    fn supports(op: &Op) -> bool {
        match op {
            Op::Mutate { script, .. } => script.iter().all(|o| matches!(o, VOp::Ext(_) | VOp::Clear)),
            Op::SliceRef { .. } | Op::Adopt { .. } | Op::Push { .. } | Op::WrapTrip { .. } => true,
            Op::New { .. } | Op::FromSlice { .. } | Op::FromVec { .. } | Op::Borrowed { .. } | Op::WithCap { .. } => true,
            Op::Clone { .. } | Op::ShrinkTo { .. } | Op::ShrinkFit { .. } | Op::IntoOwned { .. } => true,
            Op::IntoVec { .. } | Op::ToVec { .. } | Op::IntoBorrowed { .. } | Op::Drop { .. } => true,
            _ => false,
        }
    }
    fn new() -> Self {
        HipOsStr::new()
    }
    fn from_slice(bs: &[u8]) -> Self {
        HipOsStr::from(OsStr::from_bytes(bs))
    }
    fn from_owned(v: Vec<u8>, _: u64) -> Self {
        HipOsStr::from(OsString::from_vec(v))
    }
    fn borrowed(s: &'static [u8], var: u64) -> Self {
        match var % 2 {
            1 => HipOsStr::borrowed(Path::new(OsStr::from_bytes(s))),
            _ => HipOsStr::borrowed(OsStr::from_bytes(s)),
        }
    }
    fn with_capacity(n: usize) -> Self {
        HipOsStr::with_capacity(n)
    }
    fn clone_(&self) -> Self {
        self.clone()
    }
    fn try_slice_ref(&self, p: &[u8]) -> Option<Self> {
        HipOsStr::try_slice_ref(self, OsStr::from_bytes(p))
    }
    fn slice_ref(&self, p: &[u8]) -> Self {
        HipOsStr::slice_ref(self, OsStr::from_bytes(p))
    }
    unsafe fn adopt(&self, p: &[u8]) -> Self {
        self.slice_ref_unchecked(OsStr::from_bytes(p))
    }
    fn push(&mut self, bs: &[u8], _: u64) {
        HipOsStr::push(self, OsStr::from_bytes(bs))
    }
    fn shrink_to(&mut self, n: usize) {
        HipOsStr::shrink_to(self, n)
    }
    fn shrink_to_fit(&mut self) {
        HipOsStr::shrink_to_fit(self)
    }
    fn mutate(&mut self, script: &[VOp], leak: bool) -> (usize, Option<(usize, usize)>) {
        let mut g = HipOsStr::mutate(self);
        let s: &mut OsString = &mut *g;
        let taken = s.as_bytes().as_ptr() as usize;
        for o in script {
            match o {
                VOp::Ext(bs) => s.push(OsStr::from_bytes(bs)),
                VOp::Clear => s.clear(),
                _ => unreachable!(),
            }
        }
        if leak {
            let r = (s.as_bytes().as_ptr() as usize, s.capacity());
            std::mem::forget(g);
            (taken, Some(r))
        } else {
            (taken, None)
        }
    }
    fn into_owned(self) -> Self {
        HipOsStr::into_owned(self)
    }
    const INTO_VEC_ROUTES: &'static [&'static str] = &["HipOsStr::into_os_string"];
    const TO_VEC_ROUTES: &'static [&'static str] = &["OsString::from(HipOsStr)", "Vec<u8>::from(HipOsStr)", "Cow<OsStr>::from(HipOsStr)"];
    const MUTATE_NAME: &'static str = "HipOsStr::mutate (guard takes the OsString)";
    fn into_vec(self, _: usize) -> Result<Vec<u8>, Self> {
        HipOsStr::into_os_string(self).map(OsString::into_vec)
    }
    fn to_vec(self, route: usize) -> Vec<u8> {
        match route {
            1 => Vec::<u8>::from(self),
            2 => Cow::<'static, OsStr>::from(self).into_owned().into_vec(),
            _ => OsString::from(self).into_vec(),
        }
    }
    fn wrap_trip(self, var: u64, hops: &mut Hops) -> Self {
        match var % 3 {
            0 => {
                let p = HipPath::from(self);
                hops.hop("HipPath::from(HipOsStr)", p.verif_bytes());
                let o = HipPath::into_os_str(p);
                hops.hop("HipPath::into_os_str", o.verif_bytes());
                o
            }
            1 => match HipOsStr::into_str(self) {
                Ok(s) => {
                    hops.hop("HipOsStr::into_str Ok", s.verif_bytes());
                    let o = HipOsStr::from(s);
                    hops.hop("HipOsStr::from(HipStr)", o.verif_bytes());
                    o
                }
                Err(o) => {
                    hops.hop("HipOsStr::into_str Err(self)", o.verif_bytes());
                    o
                }
            },
            _ => {
                let p = HipPath::from(self);
                hops.hop("HipPath::from(HipOsStr)", p.verif_bytes());
                let o = HipOsStr::from(p);
                hops.hop("HipOsStr::from(HipPath)", o.verif_bytes());
                o
            }
        }
    }
    fn into_borrowed(self) -> Result<&'static [u8], Self> {
        HipOsStr::into_borrowed(self).map(OsStr::as_bytes)
    }
    fn uniq(&mut self) -> bool {
        heap_uniq(self.hb())
    }
    fn fmt_check(&self, oracle: &[u8]) -> Option<(String, String)> {
        let s = OsString::from_vec(oracle.to_vec());
        let (e, o) = (format!("{s:?}"), format!("{self:?}"));
        (e != o || self.as_os_str() != s.as_os_str()).then_some((e, o))
    }
}

impl<B: Backend> Subject for HipPath<'static, B> {
    type B = B;
    const TY: &'static str = "path";
    fn hb(&self) -> &HipByt<'static, B> {
        self.verif_bytes()
    }
    fn supports(op: &Op) -> bool {
        match op {
            Op::Mutate { script, .. } => script.iter().all(|o| matches!(o, VOp::Ext(_) | VOp::Clear)),
            Op::New { .. } | Op::FromSlice { .. } | Op::FromVec { .. } | Op::Borrowed { .. } | Op::WrapTrip { .. } => true,
            Op::Clone { .. } | Op::ShrinkTo { .. } | Op::ShrinkFit { .. } | Op::IntoOwned { .. } => true,
            Op::IntoVec { .. } | Op::ToVec { .. } | Op::IntoBorrowed { .. } | Op::Drop { .. } => true,
            _ => false,
        }
    }
    fn new() -> Self {
        HipPath::new()
    }
    fn from_slice(bs: &[u8]) -> Self {
        HipPath::from(Path::new(OsStr::from_bytes(bs)))
    }
    fn from_owned(v: Vec<u8>, var: u64) -> Self {
        let s = OsString::from_vec(v);
        match var % 3 {
            1 => HipPath::from(s),
            2 => HipPath::from(Cow::<'static, Path>::Owned(PathBuf::from(s))),
            _ => HipPath::from(PathBuf::from(s)),
        }
    }
    fn borrowed(s: &'static [u8], var: u64) -> Self {
        let p: &'static Path = Path::new(OsStr::from_bytes(s));
        match var % 2 {
            1 => HipPath::from(Cow::Borrowed(p)),
            _ => HipPath::borrowed(p),
        }
    }
    fn clone_(&self) -> Self {
        self.clone()
    }
    fn shrink_to(&mut self, n: usize) {
        HipPath::shrink_to(self, n)
    }
    fn shrink_to_fit(&mut self) {
        HipPath::shrink_to_fit(self)
    }
    fn mutate(&mut self, script: &[VOp], leak: bool) -> (usize, Option<(usize, usize)>) {
        let mut g = HipPath::mutate(self);
        let s: &mut OsString = (&mut *g).as_mut_os_string();
        let taken = s.as_bytes().as_ptr() as usize;
        for o in script {
            match o {
                VOp::Ext(bs) => s.push(OsStr::from_bytes(bs)),
                VOp::Clear => s.clear(),
                _ => unreachable!(),
            }
        }
        if leak {
            let r = (s.as_bytes().as_ptr() as usize, s.capacity());
            std::mem::forget(g);
            (taken, Some(r))
        } else {
            (taken, None)
        }
    }
    fn into_owned(self) -> Self {
        HipPath::into_owned(self)
    }
    const INTO_VEC_ROUTES: &'static [&'static str] = &["HipPath::into_path_buf", "HipPath::into_os_string"];
    const TO_VEC_ROUTES: &'static [&'static str] = &["PathBuf::from(HipPath)", "OsString::from(HipPath)", "Cow<Path>::from(HipPath)"];
    const MUTATE_NAME: &'static str = "HipPath::mutate (guard takes the PathBuf)";
    fn into_vec(self, route: usize) -> Result<Vec<u8>, Self> {
        match route {
            1 => HipPath::into_os_string(self).map(OsString::into_vec),
            _ => HipPath::into_path_buf(self).map(|p| p.into_os_string().into_vec()),
        }
    }
    fn to_vec(self, route: usize) -> Vec<u8> {
        match route {
            1 => OsString::from(self).into_vec(),
            2 => Cow::<'static, Path>::from(self).into_owned().into_os_string().into_vec(),
            _ => PathBuf::from(self).into_os_string().into_vec(),
        }
    }
    fn wrap_trip(self, var: u64, hops: &mut Hops) -> Self {
        match var % 3 {
            0 => {
                let o = HipPath::into_os_str(self);
                hops.hop("HipPath::into_os_str", o.verif_bytes());
                let p = HipPath::from(o);
                hops.hop("HipPath::from(HipOsStr)", p.verif_bytes());
                p
            }
            1 => match HipPath::into_str(self) {
                Ok(s) => {
                    hops.hop("HipPath::into_str Ok", s.verif_bytes());
                    let p = HipPath::from(s);
                    hops.hop("HipPath::from(HipStr)", p.verif_bytes());
                    p
                }
                Err(p) => {
                    hops.hop("HipPath::into_str Err(self)", p.verif_bytes());
                    p
                }
            },
            _ => {
                let o = HipOsStr::from(self);
                hops.hop("HipOsStr::from(HipPath)", o.verif_bytes());
                let p = HipPath::from(o);
                hops.hop("HipPath::from(HipOsStr)", p.verif_bytes());
                p
            }
        }
    }
    fn into_borrowed(self) -> Result<&'static [u8], Self> {
        HipPath::into_borrowed(self).map(|p| p.as_os_str().as_bytes())
    }
    fn uniq(&mut self) -> bool {
        heap_uniq(self.hb())
    }
    fn fmt_check(&self, oracle: &[u8]) -> Option<(String, String)> {
        let s = PathBuf::from(OsString::from_vec(oracle.to_vec()));
        let (e, o) = (format!("{s:?}|{}", s.display()), format!("{self:?}|{}", self.display()));
        (e != o || self.as_path() != s.as_path()).then_some((e, o))
    }
}

// ---------------------------------------------------------------------------------------------
// sequence header, sources
// ---------------------------------------------------------------------------------------------

#[derive(Clone, Debug, PartialEq, Eq)]
struct Hdr {
    ty: String,
    backend: String,
    /// the model's ceiling on the STORED count (`REAL_CEIL` = the real constant)
    ceil: u64,
    srcs: Vec<Vec<u8>>,
}

impl Hdr {
    fn lines(&self) -> Vec<String> {
        let mut v = vec![
            format!("type {}", self.ty),
            format!("cfg {} {} {} {ICAP} {SLOTS}", self.backend, profile(), self.ceil),
        ];
        for s in &self.srcs {
            v.push(format!("src {}", hex(s)));
        }
        v
    }
}

/// splits a sequence text into header and op lines
fn parse_sequence(lines: &[String]) -> Result<(Hdr, Vec<Op>), String> {
    let mut hdr = Hdr { ty: "byt".into(), backend: "arc".into(), ceil: REAL_CEIL, srcs: vec![] };
    let mut ops = vec![];
    for l in lines {
        let l = l.trim();
        if l.is_empty() || l.starts_with('#') {
            continue;
        }
        let t: Vec<&str> = l.split_whitespace().collect();
        match t[0] {
            "type" if t.len() == 2 => hdr.ty = t[1].into(),
            "cfg" if t.len() >= 4 => {
                hdr.backend = t[1].into();
                hdr.ceil = t[3].parse().map_err(|_| format!("bad ceil in {l}"))?;
            }
            "src" if t.len() == 2 => hdr.srcs.push(unhex(t[1]).ok_or(format!("bad hex in {l}"))?),
            _ => ops.push(Op::parse(l).ok_or(format!("cannot parse op line: {l}"))?),
        }
    }
    Ok((hdr, ops))
}

thread_local! {
    static INTERN: std::cell::RefCell<HashMap<(usize, Vec<u8>), &'static [u8]>> = Default::default();
}

/// caller-owned memory, leaked once per distinct (position, content)
fn intern_src(i: usize, bs: &[u8]) -> &'static [u8] {
    INTERN.with(|m| {
        let mut m = m.borrow_mut();
        if let Some(s) = m.get(&(i, bs.to_vec())) {
            return *s;
        }
        // one spare byte in front so that even an empty source has a unique address
        let mut v = Vec::with_capacity(bs.len() + 1);
        v.push(0x2a);
        v.extend_from_slice(bs);
        let leaked: &'static [u8] = Box::leak(v.into_boxed_slice());
        let s = &leaked[1..];
        m.insert((i, bs.to_vec()), s);
        s
    })
}

fn foreign_buf() -> &'static [u8] {
    intern_src(usize::MAX, &[b'f'; 80])
}

fn default_srcs(text: bool) -> Vec<Vec<u8>> {
    if text {
        let s0 = "The quick brown fox: déjà vu €uro 😀 ZEBRA crossing, naïve café — done!";
        let s1 = "Grüße, Jürgen ❤ MiXeD case";
        vec![s0.as_bytes().to_vec(), s1.as_bytes().to_vec(), b"HeLLo".to_vec(), vec![]]
    } else {
        let s0: Vec<u8> = (0..64u32).map(|i| if i % 5 == 4 { 0x80 + i as u8 } else { b'A' + (i % 26) as u8 + if i % 2 == 1 { 32 } else { 0 } }).collect();
        let s1: Vec<u8> = (0..30u32).map(|i| b'a' + (i % 26) as u8 - if i % 3 == 0 { 32 } else { 0 }).collect();
        vec![s0, s1, b"HeLLo".to_vec(), vec![]]
    }
}

// ---------------------------------------------------------------------------------------------
// a disagreement
// ---------------------------------------------------------------------------------------------

#[derive(Clone, Debug)]
struct Dis {
    kind: &'static str,
    /// finer class used to keep the shrinker on the same problem
    sub: String,
    step: usize,
    expected: String,
    observed: String,
}

/// what one step did, for the statistics
#[derive(Clone, Debug, Default)]
struct StepInfo {
    op: &'static str,
    pre: String,
    outcome: String,
    impl_line: String,
    /// conversions exercised by the step: (name, was the buffer-reuse / identity obligation in force?)
    conv: Vec<(&'static str, bool)>,
}

enum StepRes {
    Skipped,
    Done(StepInfo, Option<Dis>),
}

/// Runs `f` in the counted region under `catch_unwind`; the panic payload is dropped outside.
fn counted<R>(f: impl FnOnce() -> R) -> Option<R> {
    alloc::set_mode(alloc::COUNT);
    let r = catch_unwind(AssertUnwindSafe(f));
    alloc::set_mode(alloc::OFF);
    match r {
        Ok(v) => Some(v),
        Err(p) => {
            drop(p);
            None
        }
    }
}

fn is_boundary(v: &[u8], i: usize) -> bool {
    i == v.len() || (i < v.len() && (v[i] & 0xC0) != 0x80)
}

/// std's own answer for a pair of bounds on a slice of length `len`
fn std_get(len: usize, sb: Bd, eb: Bd) -> Option<(usize, usize)> {
    // independent of the crate: ask a real slice
    static ZEROS: [u8; 4096] = [0; 4096];
    let s = &ZEROS[..len.min(4096)];
    let sub = s.get((sb.bound(), eb.bound()))?;
    let a = sub.as_ptr() as usize - s.as_ptr() as usize;
    Some((a, a + sub.len()))
}

// ---------------------------------------------------------------------------------------------
// the session: implementation pool + oracle pool + model, one step at a time
// ---------------------------------------------------------------------------------------------

struct Session<'l, T: Subject> {
    /// what is added to the implementation's stored count around sharing operations so that
    /// the real ceiling is hit exactly when the model's small ceiling is
    ceil_off: usize,
    pool: Vec<Option<T>>,
    oracle: Vec<Option<Vec<u8>>>,
    srcs: Vec<&'static [u8]>,
    impl_blk: HashMap<u32, usize>,
    model_blk: HashMap<String, usize>,
    lean: Option<&'l mut LeanDriver>,
    step_no: usize,
    applied: Vec<String>,
    leaked_guards: usize,
    hdr_backend: String,
    hdr_ceil: u64,
    /// monitor findings of the current step raised inside `exec`: (class, message)
    extra_mon: Vec<(&'static str, String)>,
    /// conversions exercised by the current step
    step_conv: Vec<(&'static str, bool)>,
    /// lineage tracked by the harness itself: does the handle descend from `with_capacity(n > 23)`?
    taint: Vec<bool>,
    /// `with_capacity(n)` handles that have only been pushed into so far: `(n, as_ptr at creation)`
    wcap: Vec<Option<(usize, usize)>>,
    /// the caller's Vec handed to the last `from_vec` (address), the Vec returned by the last
    /// successful `into_vec` (address, capacity)
    last_vec_in: usize,
    last_vec_out: Option<(usize, usize)>,
    /// `VERIF_TRACE=<path>`: the sequence so far (and the op about to run) is written there
    /// before every step, on one line, so that a crash can be localised
    trace: Option<(String, String)>,
    /// lines not yet sent to the model (header first), and what the implementation/oracle did
    queue: Vec<String>,
    pending: Vec<Pending>,
}

/// the target of an op before it runs (representation monitors)
struct PreRepr {
    tag: char,
    ptr: usize,
    len: usize,
    cap: usize,
    shares: usize,
    taint: bool,
}

/// the implementation's and the oracle's side of one step, compared with the model at `flush`
struct Pending {
    step: usize,
    ret: String,
    ev_s: String,
    obs: Vec<(usize, Vec<String>)>,
    exp: Exp,
    oracle: Vec<Option<String>>,
}

impl<'l, T: Subject> Session<'l, T> {
    fn new(hdr: &Hdr, lean: Option<&'l mut LeanDriver>) -> Result<Self, String> {
        alloc::set_mode(alloc::OFF);
        if alloc::registered() != 0 {
            return Err("internal: block table not empty at sequence start".into());
        }
        let _ = alloc::take_events();
        let _ = alloc::take_violations();
        let srcs: Vec<&'static [u8]> = hdr.srcs.iter().enumerate().map(|(i, s)| intern_src(i, s)).collect();
        let mut lean = lean;
        let queue: Vec<String> = match lean.as_deref_mut() {
            Some(l) => {
                let h: Vec<String> = hdr.lines().into_iter().skip(1).collect();
                if l.header == h {
                    vec!["reset".to_string()]
                } else {
                    l.header = h.clone();
                    h
                }
            }
            None => vec![],
        };
        let unique = hdr.backend == "unique";
        Ok(Session {
            ceil_off: if unique { 0 } else { (REAL_CEIL - hdr.ceil) as usize },
            pool: (0..SLOTS).map(|_| None).collect(),
            oracle: vec![None; SLOTS],
            srcs,
            impl_blk: HashMap::new(),
            model_blk: HashMap::new(),
            lean,
            step_no: 0,
            applied: vec![],
            leaked_guards: 0,
            hdr_backend: hdr.backend.clone(),
            hdr_ceil: hdr.ceil,
            extra_mon: vec![],
            step_conv: vec![],
            taint: vec![false; SLOTS],
            wcap: vec![None; SLOTS],
            last_vec_in: 0,
            last_vec_out: None,
            trace: std::env::var("VERIF_TRACE").ok().filter(|p| !p.is_empty()).map(|p| (p, hdr.lines().join(" ; "))),
            queue,
            pending: vec![],
        })
    }

    fn live(&self) -> Vec<usize> {
        (0..SLOTS).filter(|&i| self.pool[i].is_some()).collect()
    }
    fn free(&self) -> Vec<usize> {
        (0..SLOTS).filter(|&i| self.pool[i].is_none()).collect()
    }

    /// which source contains `p` (end inclusive) and at which offset
    fn locate_src(&self, p: usize) -> Option<(usize, usize)> {
        self.srcs.iter().enumerate().find_map(|(i, s)| {
            let b = s.as_ptr() as usize;
            (p >= b && p <= b + s.len()).then(|| (i, p - b))
        })
    }

    /// the probe slice of a `slice_ref` op, if one with the requested address relation exists
    fn probe(&self, h: usize, neg: bool, rel: usize, plen: usize) -> Option<&[u8]> {
        let x = self.pool[h].as_ref()?;
        let hb = x.hb();
        let s = hb.as_slice();
        let len = s.len();
        if !neg && rel.checked_add(plen)? <= len {
            return Some(&s[rel..rel + plen]);
        }
        if rel == FOREIGN_REL && !neg {
            let f = foreign_buf();
            return (plen <= f.len()).then(|| &f[..plen]);
        }
        if rel > 4096 || plen > 4096 {
            return None;
        }
        let p = s.as_ptr() as usize;
        if hb.is_borrowed() {
            let (si, o) = self.locate_src(p)?;
            let src = self.srcs[si];
            let start = if neg { o.checked_sub(rel)? } else { o + rel };
            return (start + plen <= src.len()).then(|| &src[start..start + plen]);
        }
        if let Some((buf, vlen, _, _, _)) = hb.verif_owner_info() {
            // inside the owner's buffer: initialised, live memory around the view
            let o = p.checked_sub(buf)?;
            let start = if neg { o.checked_sub(rel)? } else { o + rel };
            if start + plen <= vlen {
                // SAFETY: `[buf, buf+vlen)` is the initialised part of the live owner Vec
                return Some(unsafe { std::slice::from_raw_parts((buf + start) as *const u8, plen) });
            }
        }
        None
    }

    /// can this op be issued in the current state (slots, type restrictions, safety preconditions)?
    fn applicable(&self, op: &Op) -> bool {
        if !T::supports(op) {
            return false;
        }
        let (h, d) = op.slots();
        if let Some(h) = h {
            if h >= SLOTS || self.pool[h].is_none() {
                return false;
            }
        }
        if let Some(d) = d {
            if d >= SLOTS || self.pool[d].is_some() || Some(d) == h {
                return false;
            }
        }
        let text = T::text();
        let utf8 = |b: &[u8]| !text || std::str::from_utf8(b).is_ok();
        let cur = |h: usize| self.oracle[h].as_deref().unwrap_or(&[]);
        match op {
            Op::FromSlice { bs, .. } | Op::Inline { bs, .. } | Op::TryInline { bs, .. } => utf8(bs) && bs.len() <= 4096,
            Op::FromVec { bs, cap, .. } => utf8(bs) && bs.len() <= *cap && *cap <= 4096,
            Op::Borrowed { src, off, len, .. } => {
                *src < self.srcs.len()
                    && off.checked_add(*len).map_or(false, |e| e <= self.srcs[*src].len())
                    && utf8(&self.srcs[*src][*off..*off + *len])
            }
            Op::WithCap { n, .. } => *n <= 4096,
            Op::Slice { h, sb, eb, .. } => match std_get(cur(*h).len(), *sb, *eb) {
                Some((a, b)) => !text || (is_boundary(cur(*h), a) && is_boundary(cur(*h), b)),
                None => true,
            },
            Op::SliceRef { h, neg, rel, plen, .. } => match self.probe(*h, *neg, *rel, *plen) {
                Some(p) => utf8(p),
                None => false,
            },
            Op::Adopt { h, off, len, .. } => {
                let v = cur(*h);
                off.checked_add(*len).map_or(false, |e| e <= v.len())
                    && (!text || (is_boundary(v, *off) && is_boundary(v, off + len)))
            }
            Op::Push { h, bs } => utf8(bs) && cur(*h).len() + bs.len() <= 4096,
            Op::Pop { h } => !text || cur(*h).last().map_or(true, |b| *b < 0x80),
            Op::Truncate { h, n } => !text || *n > cur(*h).len() || is_boundary(cur(*h), *n),
            Op::AsMut { h, i, b } | Op::ToMut { h, i, b } => {
                !text || *i >= cur(*h).len() || (cur(*h)[*i] < 0x80 && *b < 0x80)
            }
            Op::Mutate { h, script, .. } => {
                let mut v = cur(*h).to_vec();
                for o in script {
                    match o {
                        VOp::Push(b) => {
                            if text && *b >= 0x80 {
                                return false;
                            }
                            v.push(*b)
                        }
                        VOp::Ext(bs) => {
                            if !utf8(bs) {
                                return false;
                            }
                            v.extend_from_slice(bs)
                        }
                        VOp::Trunc(n) => {
                            if text && *n <= v.len() && !is_boundary(&v, *n) {
                                return false;
                            }
                            v.truncate(*n)
                        }
                        VOp::Clear => v.clear(),
                    }
                    if v.len() > 4096 {
                        return false;
                    }
                }
                true
            }
            Op::SPushStr { h, bs } => std::str::from_utf8(bs).is_ok() && cur(*h).len() + bs.len() <= 4096,
            Op::SPushChar { h, c } => char::from_u32(*c).is_some() && cur(*h).len() <= 4000,
            Op::SFromUtf8 { bs, .. } => bs.len() <= 4096,
            Op::Flip { readings, .. } => !readings.is_empty() && readings.len() <= FLIP_MAX && !self.free().is_empty(),
            Op::Repeat { h, n, .. } => {
                let total = cur(*h).len() as u128 * *n as u128;
                // either small, or so large that both `checked_mul`/`Vec::with_capacity` refuse
                // (nothing in between: an allocation of terabytes must not be attempted)
                total <= 4096 || total >= 1u128 << 63
            }
            _ => true,
        }
    }

    /// share-count offset around an operation that may increment the target's count
    fn with_ceiling<R>(&self, h: usize, f: impl FnOnce(&T) -> R) -> R {
        let x = self.pool[h].as_ref().unwrap();
        let pre = if self.ceil_off > 0 { x.hb().verif_owner_info().map(|i| i.4) } else { None };
        if let Some(c) = pre {
            x.hb().verif_force_share_count(c.wrapping_add(self.ceil_off));
        }
        let r = f(x);
        if pre.is_some() {
            if let Some(i) = x.hb().verif_owner_info() {
                x.hb().verif_force_share_count(i.4.wrapping_sub(self.ceil_off));
            }
        }
        r
    }

    /// `Some((owner buffer, len))` iff the handle is heap-backed, the sole owner, and its view
    /// starts at offset 0 of the owner Vec: the case in which a consuming conversion must hand
    /// the buffer over instead of copying.
    fn sole_heap(&self, h: usize) -> Option<(usize, usize)> {
        let hb = self.pool[h].as_ref()?.hb();
        let (buf, _, _, _, shares) = hb.verif_owner_info()?;
        (shares == 1 && hb.as_ptr() as usize == buf).then_some((buf, hb.len()))
    }

    /// Buffer-reuse obligation of a consuming conversion (`got` = the std result's buffer, `None`
    /// = the conversion refused and gave the value back).
    fn reuse_check(&mut self, name: &'static str, pre: Option<(usize, usize)>, got: Option<usize>, max_alloc: usize) {
        self.step_conv.push((name, pre.is_some()));
        let Some((buf, len)) = pre else { return };
        match got {
            None => self.extra_mon.push(("reuse", format!("{name}: refused (Err) although the value is the sole owner of its heap buffer at offset 0"))),
            Some(p) if p != buf => self.extra_mon.push((
                "reuse",
                format!("{name}: the value is the sole owner of its heap buffer at offset 0 ({len} bytes) but the result lives in another buffer: COPIED instead of handed over"),
            )),
            Some(_) if max_alloc >= len.max(1) => self.extra_mon.push((
                "reuse",
                format!("{name}: same pointer but a buffer of {max_alloc} bytes (>= len {len}) was allocated during the conversion"),
            )),
            Some(_) => {}
        }
    }

    /// `slice`/`try_slice` with an impure range.  Whatever the range answers, the result must
    /// be the std slice of ONE of the scripted readings (or an error / panic), lie in live
    /// memory, and (HipStr) be well-formed.  The result is dropped before the step ends.
    fn exec_flip(&mut self, h: usize, readings: &[(Bd, Bd)], try_: bool) -> String {
        let d = self.free()[0];
        let r = self.with_ceiling(h, |x| {
            counted(|| {
                let fr = FlipRange::new(readings);
                if try_ {
                    x.try_slice_flip(fr).ok()
                } else {
                    Some(x.slice_flip(fr))
                }
            })
        });
        let ret = match r {
            None => "panic".to_string(),
            Some(None) => "err".to_string(),
            Some(Some(v)) => {
                // first of all: is the view sane at all?  (a range read twice may have produced a
                // view outside the value: it must not be dereferenced, nor dropped)
                let sane = {
                    let hb = v.hb();
                    let (p, len) = (hb.as_ptr() as usize, hb.len());
                    if hb.is_inline() {
                        len <= ICAP
                    } else if hb.is_borrowed() {
                        self.srcs.iter().any(|s| p >= s.as_ptr() as usize && p.checked_add(len).map_or(false, |e| e <= s.as_ptr() as usize + s.len()))
                    } else {
                        hb.verif_owner_info().map_or(false, |(buf, vlen, _, _, _)| p >= buf && (p - buf).checked_add(len).map_or(false, |e| e <= vlen))
                    }
                };
                if !sane {
                    let line = Op::Flip { h, readings: readings.to_vec(), try_, s: T::text() }.line();
                    self.extra_mon.push(("heap", format!("result of a slice with an impure range {line}: the view (len {}) lies outside the value it was sliced from", v.hb().len())));
                    std::mem::forget(v);
                    return "ok".to_string();
                }
                self.pool[d] = Some(v);
                let got = self.pool[d].as_ref().unwrap().hb().as_slice().to_vec();
                // heap / UTF-8 monitors on the temporary (its block must not enter the canonical
                // block numbering shared with the model)
                let saved = self.impl_blk.clone();
                let (_, mon) = self.observe();
                self.impl_blk = saved;
                for m in mon {
                    if m.starts_with(&format!("h{d}:")) {
                        let class = if m.contains("ill-formed UTF-8") { "utf8" } else { "heap" };
                        self.extra_mon.push((class, format!("result of a slice with an impure range {}: {m}", Op::Flip { h, readings: readings.to_vec(), try_, s: T::text() }.line())));
                    }
                }
                let src = self.oracle[h].as_deref().unwrap_or(&[]);
                let matches_one = readings.iter().any(|(a, b)| {
                    if T::text() {
                        std::str::from_utf8(src).ok().and_then(|s| s.get((a.bound(), b.bound()))).map_or(false, |s| s.as_bytes() == &got[..])
                    } else {
                        src.get((a.bound(), b.bound())).map_or(false, |s| s == &got[..])
                    }
                });
                if !matches_one {
                    self.extra_mon.push(("flip", format!("the result {} is not the std slice of any single reading of the range", hex(&got))));
                }
                let tmp = self.pool[d].take();
                alloc::set_mode(alloc::TRACK);
                drop(tmp);
                alloc::set_mode(alloc::OFF);
                "ok".to_string()
            }
        };
        ret
    }

    fn install(&mut self, d: usize, r: Option<T>, ok: &str) -> String {
        match r {
            Some(v) => {
                self.pool[d] = Some(v);
                ok.into()
            }
            None => "panic".into(),
        }
    }

    /// executes the op on the real crate; returns the result in the driver's `showRet` syntax
    fn exec(&mut self, op: &Op) -> String {
        // which of several equivalent API routes is taken: a hash of the op line and of the
        // target's current contents (deterministic on replay, stable under shrinking of other ops)
        let var = {
            let mut v = op.variant();
            if let Some(c) = op.slots().0.and_then(|h| self.oracle.get(h)).and_then(|o| o.as_ref()) {
                let mut x: u64 = 0xcbf2_9ce4_8422_2325 ^ c.len() as u64;
                for b in c {
                    x = (x ^ *b as u64).wrapping_mul(0x1000_0000_01b3);
                }
                v ^= x >> 11;
            }
            v
        };
        let unit = |r: Option<()>| if r.is_some() { "unit".to_string() } else { "panic".to_string() };
        match op {
            Op::New { d } => {
                let r = counted(|| T::new());
                self.install(*d, r, "unit")
            }
            Op::FromSlice { d, bs } => {
                let r = counted(|| T::from_slice(bs));
                self.install(*d, r, "unit")
            }
            Op::FromVec { d, bs, cap } => {
                // the caller's Vec: registered (handles will point into it), not counted
                alloc::set_mode(alloc::TRACK);
                let mut v: Vec<u8> = Vec::with_capacity(*cap);
                v.extend_from_slice(bs);
                alloc::set_mode(alloc::OFF);
                assert_eq!(v.capacity(), *cap, "Vec::with_capacity is exact for u8");
                self.last_vec_in = v.as_ptr() as usize;
                let r = counted(move || T::from_owned(v, var));
                self.install(*d, r, "unit")
            }
            Op::Borrowed { d, src, off, len } => {
                let s: &'static [u8] = &self.srcs[*src][*off..*off + *len];
                let r = counted(|| T::borrowed(s, var));
                self.install(*d, r, "unit")
            }
            Op::WithCap { d, n } => {
                let r = counted(|| T::with_capacity(*n));
                self.install(*d, r, "unit")
            }
            Op::Inline { d, bs } => {
                let r = counted(|| T::inline(bs));
                self.install(*d, r, "unit")
            }
            Op::TryInline { d, bs } => match counted(|| T::try_inline(bs)) {
                Some(Some(v)) => {
                    self.pool[*d] = Some(v);
                    "true".into()
                }
                Some(None) => "false".into(),
                None => "panic".into(),
            },
            Op::Clone { h, d } => {
                let r = self.with_ceiling(*h, |x| counted(|| x.clone_()));
                self.install(*d, r, "unit")
            }
            Op::Slice { h, d, sb, eb, try_: false } => {
                let r = self.with_ceiling(*h, |x| counted(|| x.slice((sb.bound(), eb.bound()))));
                self.install(*d, r, "unit")
            }
            Op::Slice { h, d, sb, eb, try_: true } => {
                match self.with_ceiling(*h, |x| counted(|| x.try_slice((sb.bound(), eb.bound())))) {
                    Some(Ok(v)) => {
                        self.pool[*d] = Some(v);
                        "true".into()
                    }
                    Some(Err((a, b, k))) => format!("err:{a}:{b}:{k}"),
                    None => "panic".into(),
                }
            }
            Op::SliceRef { h, d, neg, rel, plen, try_ } => {
                let p: &[u8] = self.probe(*h, *neg, *rel, *plen).unwrap();
                // the probe may borrow from the pool entry itself: detach the lifetime (the
                // entry is not modified while the probe is in use)
                let p: &[u8] = unsafe { std::slice::from_raw_parts(p.as_ptr(), p.len()) };
                if *try_ {
                    match self.with_ceiling(*h, |x| counted(|| x.try_slice_ref(p))) {
                        Some(Some(v)) => {
                            self.pool[*d] = Some(v);
                            "true".into()
                        }
                        Some(None) => "false".into(),
                        None => "panic".into(),
                    }
                } else {
                    let r = self.with_ceiling(*h, |x| counted(|| x.slice_ref(p)));
                    self.install(*d, r, "unit")
                }
            }
            Op::Adopt { h, d, off, len } => {
                let r = self.with_ceiling(*h, |x| {
                    let p = &x.hb().as_slice()[*off..*off + *len];
                    counted(|| unsafe { x.adopt(p) })
                });
                self.install(*d, r, "unit")
            }
            Op::Push { h, bs } => {
                let x = self.pool[*h].as_mut().unwrap();
                unit(counted(|| x.push(bs, var)))
            }
            Op::Pop { h } => {
                let x = self.pool[*h].as_mut().unwrap();
                match counted(|| x.pop()) {
                    Some(Some(b)) => format!("byte:{b:02x}"),
                    Some(None) => "nobyte".into(),
                    None => "panic".into(),
                }
            }
            Op::Truncate { h, n } => {
                let x = self.pool[*h].as_mut().unwrap();
                unit(counted(|| x.truncate(*n)))
            }
            Op::Clear { h } => {
                let x = self.pool[*h].as_mut().unwrap();
                unit(counted(|| x.clear()))
            }
            Op::ShrinkTo { h, n } => {
                let x = self.pool[*h].as_mut().unwrap();
                unit(counted(|| x.shrink_to(*n)))
            }
            Op::ShrinkFit { h } => {
                let x = self.pool[*h].as_mut().unwrap();
                unit(counted(|| x.shrink_to_fit()))
            }
            Op::AsMut { h, i, b } => {
                let x = self.pool[*h].as_mut().unwrap();
                match counted(|| x.as_mut_write(*i, *b)) {
                    Some(g) => g.to_string(),
                    None => "panic".into(),
                }
            }
            Op::ToMut { h, i, b } => {
                let x = self.pool[*h].as_mut().unwrap();
                unit(counted(|| x.to_mut_write(*i, *b)))
            }
            Op::Lower { h } => {
                let x = self.pool[*h].as_mut().unwrap();
                unit(counted(|| x.make_lower()))
            }
            Op::Upper { h } => {
                let x = self.pool[*h].as_mut().unwrap();
                unit(counted(|| x.make_upper()))
            }
            Op::ToLower { h, d } => {
                let r = self.with_ceiling(*h, |x| counted(|| x.to_lower()));
                self.install(*d, r, "unit")
            }
            Op::ToUpper { h, d } => {
                let r = self.with_ceiling(*h, |x| counted(|| x.to_upper()));
                self.install(*d, r, "unit")
            }
            Op::Mutate { h, script, leak } => {
                let pre = self.sole_heap(*h);
                let x = self.pool[*h].as_mut().unwrap();
                match counted(|| x.mutate(script, *leak)) {
                    Some((taken, l)) => {
                        self.reuse_check(T::MUTATE_NAME, pre, Some(taken), 0);
                        if let Some((p, cap)) = l {
                            if cap > 0 {
                                alloc::mark_leak_ok(p);
                                self.leaked_guards += 1;
                            }
                        }
                        "unit".into()
                    }
                    None => "panic".into(),
                }
            }
            Op::IntoOwned { h, d } => {
                let x = self.pool[*h].take().unwrap();
                let r = counted(move || x.into_owned());
                self.install(*d, r, "unit")
            }
            Op::IntoVec { h } => {
                let pre = self.sole_heap(*h);
                let route = var as usize % T::INTO_VEC_ROUTES.len();
                let name = T::INTO_VEC_ROUTES[route];
                let x = self.pool[*h].take().unwrap();
                let _ = alloc::take_max_alloc();
                match counted(move || x.into_vec(route)) {
                    Some(Ok(v)) => {
                        self.reuse_check(name, pre, Some(v.as_ptr() as usize), alloc::take_max_alloc());
                        self.last_vec_out = Some((v.as_ptr() as usize, v.capacity()));
                        format!("bytes:{}", hex(&v))
                    }
                    Some(Err(x)) => {
                        self.pool[*h] = Some(x);
                        self.reuse_check(name, pre, None, 0);
                        "false".into()
                    }
                    None => "panic".into(),
                }
            }
            Op::ToVec { h } => {
                let pre = self.sole_heap(*h);
                let route = var as usize % T::TO_VEC_ROUTES.len();
                let name = T::TO_VEC_ROUTES[route];
                let x = self.pool[*h].take().unwrap();
                let _ = alloc::take_max_alloc();
                match counted(move || x.to_vec(route)) {
                    Some(v) => {
                        self.reuse_check(name, pre, Some(v.as_ptr() as usize), alloc::take_max_alloc());
                        format!("bytes:{}", hex(&v))
                    }
                    None => "panic".into(),
                }
            }
            Op::WrapTrip { h } => {
                let x = self.pool[*h].take().unwrap();
                let mut hops = Hops::new(x.hb());
                let before = alloc::peek_events();
                let r = counted(|| x.wrap_trip(var, &mut hops));
                let after = alloc::peek_events();
                for k in 0..hops.n {
                    self.step_conv.push((hops.names[k], true));
                }
                if let Some(name) = hops.moved {
                    self.extra_mon.push(("reuse", format!("{name}: a wrapper-to-wrapper move must keep the bytes where they are (same pointer, length and representation)")));
                }
                if before != after {
                    let hop_list = hops.names[..hops.n].join(" -> ");
                    self.extra_mon.push(("reuse", format!("wrapper-to-wrapper moves must not touch the allocator: {hop_list}: events {:?} -> {:?}", &before[..5], &after[..5])));
                }
                match r {
                    Some(v) => {
                        self.pool[*h] = Some(v);
                        "unit".into()
                    }
                    None => "panic".into(),
                }
            }
            Op::Flip { h, readings, try_, .. } => self.exec_flip(*h, readings, *try_),
            Op::IntoBorrowed { h } => {
                let x = self.pool[*h].take().unwrap();
                match counted(move || x.into_borrowed()) {
                    Some(Ok(s)) => format!("bytes:{}", hex(s)),
                    Some(Err(x)) => {
                        self.pool[*h] = Some(x);
                        "false".into()
                    }
                    None => "panic".into(),
                }
            }
            Op::Repeat { h, d, n } => {
                let r = self.with_ceiling(*h, |x| counted(|| x.repeat(*n)));
                self.install(*d, r, "unit")
            }
            Op::Spare { h } => {
                let x = self.pool[*h].as_mut().unwrap();
                match counted(|| x.spare()) {
                    Some(n) => format!("nat:{n}"),
                    None => "panic".into(),
                }
            }
            Op::Drop { h } => {
                let x = self.pool[*h].take();
                unit(counted(move || drop(x)))
            }
            Op::SPushStr { h, bs } => {
                let x = self.pool[*h].as_mut().unwrap();
                unit(counted(|| x.push(bs, 0)))
            }
            Op::SPushChar { h, c } => {
                let mut buf = [0u8; 4];
                let enc = char::from_u32(*c).unwrap().encode_utf8(&mut buf).as_bytes();
                let x = self.pool[*h].as_mut().unwrap();
                unit(counted(|| x.push(enc, 1)))
            }
            Op::SPop { h } => {
                let x = self.pool[*h].as_mut().unwrap();
                match counted(|| x.s_pop()) {
                    Some(Some(c)) => format!("char:{}", hex(c.to_string().as_bytes())),
                    Some(None) => "nochar".into(),
                    None => "panic".into(),
                }
            }
            Op::STruncate { h, n } => {
                let x = self.pool[*h].as_mut().unwrap();
                unit(counted(|| x.truncate(*n)))
            }
            Op::SSlice { h, d, sb, eb, try_ } => self.exec(&Op::Slice { h: *h, d: *d, sb: *sb, eb: *eb, try_: *try_ }),
            Op::SFromUtf8 { d, bs } => {
                let valid = std::str::from_utf8(bs).is_ok();
                // route 2 (an owned Vec of at most 23 bytes) would be copied inline and freed:
                // the model's `from_slice` has no such event
                let route = match var % 3 {
                    2 if bs.len() <= ICAP && !bs.is_empty() => 0,
                    r => r,
                };
                // a rejected call gives the bytes back: they are built (and dropped) outside
                // the counted region; an accepted one allocates what `from_slice` allocates
                let owned = if valid {
                    None
                } else {
                    alloc::set_mode(alloc::TRACK);
                    let o = match route {
                        1 => Some(Owned::Byt(HipByt::from(&bs[..]))),
                        2 => Some(Owned::Vec(bs.to_vec())),
                        _ => None,
                    };
                    alloc::set_mode(alloc::OFF);
                    o
                };
                match counted(move || T::s_from_utf8(bs, route, owned)) {
                    Some(Ok(v)) => {
                        self.pool[*d] = Some(v);
                        "unit".into()
                    }
                    Some(Err((n, back))) => {
                        drop(back);
                        format!("utf8err:{n}")
                    }
                    None => "panic".into(),
                }
            }
        }
    }
}

// ---------------------------------------------------------------------------------------------
// the std oracle (plain `Vec<u8>` semantics, written independently of the model)
// ---------------------------------------------------------------------------------------------

/// set around a panic the ORACLE is expected to raise (std refusing the call)
static QUIET: std::sync::atomic::AtomicBool = std::sync::atomic::AtomicBool::new(false);

/// Expected return value: `exact` text, or a class when std has no more to say.
#[derive(Clone, Debug, PartialEq)]
enum Exp {
    Exact(String),
    /// `try_slice` must fail (std's `get` returned `None`); the error's fields are the crate's own
    SliceErr,
    /// a number std does not define (spare capacity)
    AnyNat,
    /// an implementation-only probe: its own checks decide
    Any,
}

impl Exp {
    /// the Lean spec's answer: a refused `HipStr`-level call is reported as `rejected`
    fn matches_spec(&self, ret: &str) -> bool {
        if ret == "rejected" {
            return match self {
                Exp::Exact(s) => s == "panic" || s.starts_with("utf8err:"),
                Exp::SliceErr | Exp::Any => true,
                Exp::AnyNat => false,
            };
        }
        self.matches(ret)
    }
    fn matches(&self, ret: &str) -> bool {
        match self {
            Exp::Exact(s) => s == ret,
            Exp::SliceErr => ret.starts_with("err:"),
            Exp::AnyNat => ret.starts_with("nat:"),
            Exp::Any => true,
        }
    }
    fn show(&self) -> String {
        match self {
            Exp::Exact(s) => s.clone(),
            Exp::SliceErr => "err:*".into(),
            Exp::AnyNat => "nat:*".into(),
            Exp::Any => "*".into(),
        }
    }
}

/// Applies `op` to the oracle pool. `flag` = what the implementation answered where the answer
/// legitimately depends on the representation (`as_mut` granted, `into_vec`/`into_borrowed` ok).
fn oracle_step(pool: &mut [Option<Vec<u8>>], srcs: &[&'static [u8]], op: &Op, flag: bool) -> Exp {
    let ex = |s: &str| Exp::Exact(s.to_string());
    match op {
        Op::New { d } => {
            pool[*d] = Some(Vec::new());
            ex("unit")
        }
        Op::FromSlice { d, bs } | Op::FromVec { d, bs, .. } => {
            pool[*d] = Some(bs.clone());
            ex("unit")
        }
        Op::Borrowed { d, src, off, len } => {
            pool[*d] = Some(srcs[*src][*off..*off + *len].to_vec());
            ex("unit")
        }
        Op::WithCap { d, .. } => {
            pool[*d] = Some(Vec::new());
            ex("unit")
        }
        Op::Inline { d, bs } => {
            if bs.len() <= ICAP {
                pool[*d] = Some(bs.clone());
                ex("unit")
            } else {
                ex("panic")
            }
        }
        Op::TryInline { d, bs } => {
            if bs.len() <= ICAP {
                pool[*d] = Some(bs.clone());
                ex("true")
            } else {
                ex("false")
            }
        }
        Op::Clone { h, d } => {
            pool[*d] = pool[*h].clone();
            ex("unit")
        }
        Op::Slice { h, d, sb, eb, try_ } => {
            let v = pool[*h].as_ref().unwrap();
            match v.get((sb.bound(), eb.bound())) {
                Some(s) => {
                    pool[*d] = Some(s.to_vec());
                    ex(if *try_ { "true" } else { "unit" })
                }
                None => {
                    if *try_ {
                        Exp::SliceErr
                    } else {
                        ex("panic")
                    }
                }
            }
        }
        Op::SliceRef { h, d, neg, rel, plen, try_ } => {
            let v = pool[*h].as_ref().unwrap();
            let inside = (!*neg || *rel == 0) && rel.checked_add(*plen).map_or(false, |e| e <= v.len());
            if inside {
                pool[*d] = Some(v[*rel..*rel + *plen].to_vec());
                ex(if *try_ { "true" } else { "unit" })
            } else {
                ex(if *try_ { "false" } else { "panic" })
            }
        }
        Op::Adopt { h, d, off, len } => {
            pool[*d] = Some(pool[*h].as_ref().unwrap()[*off..*off + *len].to_vec());
            ex("unit")
        }
        Op::Push { h, bs } => {
            pool[*h].as_mut().unwrap().extend_from_slice(bs);
            ex("unit")
        }
        Op::Pop { h } => match pool[*h].as_mut().unwrap().pop() {
            Some(b) => Exp::Exact(format!("byte:{b:02x}")),
            None => ex("nobyte"),
        },
        Op::Truncate { h, n } => {
            pool[*h].as_mut().unwrap().truncate(*n);
            ex("unit")
        }
        Op::Clear { h } => {
            pool[*h].as_mut().unwrap().clear();
            ex("unit")
        }
        Op::ShrinkTo { h, n } => {
            pool[*h].as_mut().unwrap().shrink_to(*n);
            ex("unit")
        }
        Op::ShrinkFit { h } => {
            pool[*h].as_mut().unwrap().shrink_to_fit();
            ex("unit")
        }
        Op::AsMut { h, i, b } => {
            if flag {
                if let Some(x) = pool[*h].as_mut().unwrap().get_mut(*i) {
                    *x = *b;
                }
                ex("true")
            } else {
                ex("false")
            }
        }
        Op::ToMut { h, i, b } => {
            if let Some(x) = pool[*h].as_mut().unwrap().get_mut(*i) {
                *x = *b;
            }
            ex("unit")
        }
        Op::Lower { h } => {
            pool[*h].as_mut().unwrap().make_ascii_lowercase();
            ex("unit")
        }
        Op::Upper { h } => {
            pool[*h].as_mut().unwrap().make_ascii_uppercase();
            ex("unit")
        }
        Op::ToLower { h, d } => {
            pool[*d] = Some(pool[*h].as_ref().unwrap().to_ascii_lowercase());
            ex("unit")
        }
        Op::ToUpper { h, d } => {
            pool[*d] = Some(pool[*h].as_ref().unwrap().to_ascii_uppercase());
            ex("unit")
        }
        Op::Mutate { h, script, leak } => {
            let v = pool[*h].as_mut().unwrap();
            if *leak {
                // the forgotten guard took the contents away: the documented result is empty
                v.clear();
            } else {
                apply_vec(v, script);
            }
            ex("unit")
        }
        Op::IntoOwned { h, d } => {
            pool[*d] = pool[*h].take();
            ex("unit")
        }
        Op::IntoVec { h } | Op::IntoBorrowed { h } => {
            if flag {
                let v = pool[*h].take().unwrap();
                Exp::Exact(format!("bytes:{}", hex(&v)))
            } else {
                ex("false")
            }
        }
        Op::ToVec { h } => {
            let v = pool[*h].take().unwrap();
            Exp::Exact(format!("bytes:{}", hex(&v)))
        }
        Op::Repeat { h, d, n } => {
            let v = pool[*h].as_ref().unwrap();
            // `[u8]::repeat` panics on capacity overflow; such `n` are only generated for len > 0
            if (v.len() as u128) * (*n as u128) > isize::MAX as u128 {
                ex("panic")
            } else {
                pool[*d] = Some(v.repeat(*n));
                ex("unit")
            }
        }
        Op::Spare { .. } => Exp::AnyNat,
        Op::WrapTrip { .. } => ex("unit"),
        Op::Flip { .. } => Exp::Any,
        Op::Drop { h } => {
            pool[*h] = None;
            ex("unit")
        }
        // --- `String` semantics (the pool entries of a text run are well-formed) ---
        Op::SPushStr { h, bs } => {
            let mut s = String::from_utf8(pool[*h].take().unwrap()).expect("oracle value is UTF-8");
            s.push_str(std::str::from_utf8(bs).unwrap());
            pool[*h] = Some(s.into_bytes());
            ex("unit")
        }
        Op::SPushChar { h, c } => {
            let mut s = String::from_utf8(pool[*h].take().unwrap()).expect("oracle value is UTF-8");
            s.push(char::from_u32(*c).unwrap());
            pool[*h] = Some(s.into_bytes());
            ex("unit")
        }
        Op::SPop { h } => {
            let mut s = String::from_utf8(pool[*h].take().unwrap()).expect("oracle value is UTF-8");
            let r = s.pop();
            pool[*h] = Some(s.into_bytes());
            match r {
                Some(c) => Exp::Exact(format!("char:{}", hex(c.to_string().as_bytes()))),
                None => ex("nochar"),
            }
        }
        Op::STruncate { h, n } => {
            let mut s = String::from_utf8(pool[*h].take().unwrap()).expect("oracle value is UTF-8");
            // `String::truncate` panics off a char boundary (an expected panic: kept silent)
            QUIET.store(true, std::sync::atomic::Ordering::Relaxed);
            let r = catch_unwind(AssertUnwindSafe(|| {
                let mut t = s.clone();
                t.truncate(*n);
                t
            }));
            QUIET.store(false, std::sync::atomic::Ordering::Relaxed);
            match r {
                Ok(t) => {
                    s = t;
                    pool[*h] = Some(s.into_bytes());
                    ex("unit")
                }
                Err(_) => {
                    pool[*h] = Some(s.into_bytes());
                    ex("panic")
                }
            }
        }
        Op::SSlice { h, d, sb, eb, try_ } => {
            let s = std::str::from_utf8(pool[*h].as_ref().unwrap()).expect("oracle value is UTF-8");
            match s.get((sb.bound(), eb.bound())) {
                Some(sub) => {
                    let v = sub.as_bytes().to_vec();
                    pool[*d] = Some(v);
                    ex(if *try_ { "true" } else { "unit" })
                }
                None => {
                    if *try_ {
                        Exp::SliceErr
                    } else {
                        ex("panic")
                    }
                }
            }
        }
        Op::SFromUtf8 { d, bs } => match std::str::from_utf8(bs) {
            Ok(s) => {
                pool[*d] = Some(String::from(s).into_bytes());
                ex("unit")
            }
            Err(e) => Exp::Exact(format!("utf8err:{}", e.valid_up_to())),
        },
    }
}

// ---------------------------------------------------------------------------------------------
// observation, comparison
// ---------------------------------------------------------------------------------------------

const FIELD_NAMES: [&str; 9] = ["tag", "len", "cap", "uniq", "cnt", "vlen", "blk", "off", "bytes"];

fn canon(map: &mut HashMap<String, usize>, key: &str) -> String {
    let n = map.len();
    let k = *map.entry(key.to_string()).or_insert(n);
    format!("b{k}")
}

impl<'l, T: Subject> Session<'l, T> {
    /// One observation line per live handle (fields of the model's `showHandle` minus `taint`)
    /// and the monitor violations seen while reading the handles back.
    fn observe(&mut self) -> (Vec<(usize, Vec<String>)>, Vec<String>) {
        let mut out = vec![];
        let mut mon = vec![];
        for i in 0..SLOTS {
            let slot_addr = &self.pool[i] as *const Option<T> as usize;
            let Some(x) = self.pool[i].as_mut() else { continue };
            let uniq = x.uniq();
            let hb = x.hb();
            let (len, cap, p) = (hb.len(), hb.capacity(), hb.as_ptr() as usize);
            let tags = hb.is_inline() as u8 + hb.is_borrowed() as u8 + hb.is_allocated() as u8;
            if tags != 1 {
                mon.push(format!("h{i}: representation predicates not exclusive"));
            }
            if T::text() && std::str::from_utf8(hb.as_slice()).is_err() {
                mon.push(format!("h{i}: HipStr holds ill-formed UTF-8: {}", hex(hb.as_slice())));
            }
            let u = if uniq { "1" } else { "0" }.to_string();
            let f: Vec<String> = if hb.is_inline() {
                if !(p >= slot_addr && p + len <= slot_addr + std::mem::size_of::<Option<T>>()) {
                    mon.push(format!("h{i}: inline bytes outside the value's own storage"));
                }
                vec!["I".into(), len.to_string(), cap.to_string(), u, "-".into(), "-".into(), "-".into(), "-".into(), hex(hb.as_slice())]
            } else if hb.is_borrowed() {
                let (blk, off) = match self.srcs.iter().enumerate().find_map(|(k, s)| {
                    let b = s.as_ptr() as usize;
                    (p >= b && p + len <= b + s.len()).then(|| (k, p - b))
                }) {
                    Some((k, o)) => (format!("s{k}"), o.to_string()),
                    None => {
                        mon.push(format!("h{i}: borrowed bytes outside every source"));
                        ("s?".into(), "?".into())
                    }
                };
                vec!["B".into(), len.to_string(), cap.to_string(), u, "-".into(), "-".into(), blk, off, hex(hb.as_slice())]
            } else {
                let (buf, vlen, vcap, inner, shares) = hb.verif_owner_info().unwrap();
                match alloc::block_at(inner) {
                    Some(b) if b.align >= 8 => {}
                    _ => mon.push(format!("h{i}: owner box is not a live allocation")),
                }
                if vcap > 0 {
                    match alloc::block_at(buf) {
                        Some(b) if b.size == vcap && b.align == 1 => {}
                        Some(b) => mon.push(format!("h{i}: owner buffer block has size {} align {}, capacity is {vcap}", b.size, b.align)),
                        None => mon.push(format!("h{i}: owner buffer is not a live allocation")),
                    }
                }
                if !(p >= buf && p - buf + len <= vlen && vlen <= vcap) {
                    mon.push(format!(
                        "h{i}: view [{}..+{len}) not inside the owner's initialised buffer (vec len {vlen}, cap {vcap})",
                        p as i128 - buf as i128
                    ));
                }
                let blk = match alloc::find(p) {
                    // an owner Vec that never allocated (capacity 0): identified by its box
                    _ if vcap == 0 && len == 0 && p == buf => {
                        let key = 0x8000_0000 | alloc::block_at(inner).map_or(0, |b| b.serial);
                        let n = self.impl_blk.len();
                        format!("b{}", *self.impl_blk.entry(key).or_insert(n))
                    }
                    Some(b) if b.live && p + len <= b.start + b.size => {
                        let n = self.impl_blk.len();
                        format!("b{}", *self.impl_blk.entry(b.serial).or_insert(n))
                    }
                    Some(b) => {
                        mon.push(format!("h{i}: bytes lie in block #{} which is {}", b.serial, if b.live { "too small" } else { "freed" }));
                        "dangling".into()
                    }
                    None => {
                        mon.push(format!("h{i}: bytes not inside any tracked block"));
                        "dangling".into()
                    }
                };
                vec![
                    "H".into(),
                    len.to_string(),
                    cap.to_string(),
                    u,
                    shares.to_string(),
                    vlen.to_string(),
                    blk,
                    (p as i128 - buf as i128).to_string(),
                    hex(hb.as_slice()),
                ]
            };
            out.push((i, f));
        }
        (out, mon)
    }

    /// `shrink_to(n)` / `shrink_to_fit()` re-establish normalisation WHATEVER the lineage (class
    /// `norm`): checked on the implementation alone, right after the op.
    fn norm_monitor(&mut self, op: &Op, pre: Option<&PreRepr>) {
        let (h, n, name) = match (op, pre) {
            (Op::ShrinkTo { h, n }, Some(_)) => (*h, *n, "shrink_to"),
            (Op::ShrinkFit { h }, Some(p)) => (*h, p.len, "shrink_to_fit"),
            _ => return,
        };
        let (Some(p), Some(x)) = (pre, self.pool[h].as_ref()) else { return };
        let r = x.hb();
        let m = n.max(p.len);
        let small = m <= ICAP && !r.is_borrowed();
        let sole_big = m > ICAP && p.tag == 'H' && p.shares == 1;
        self.step_conv.push((if name == "shrink_to" { "shrink_to: max(n,len) <= 23 => inline" } else { "shrink_to_fit: len <= 23 => inline" }, small));
        self.step_conv.push((if name == "shrink_to" { "shrink_to: sole owner, capacity does not grow" } else { "shrink_to_fit: sole owner, capacity does not grow" }, sole_big));
        let pre_desc = format!(
            "before: {} len {} capacity {}{}",
            match p.tag {
                'I' => "inline",
                'B' => "borrowed",
                _ => "heap",
            },
            p.len,
            p.cap,
            if p.taint { " (with_capacity lineage)" } else { "" }
        );
        if small && !(r.is_inline() && r.is_normalized()) {
            self.extra_mon.push((
                "norm",
                format!(
                    "{name}({n}): max(requested, len) = {m} <= {ICAP} but the value is {} with capacity {} (is_normalized() = {}); {pre_desc}",
                    if r.is_allocated() { "still heap-allocated" } else { "not inline" },
                    r.capacity(),
                    r.is_normalized()
                ),
            ));
        }
        if r.capacity() < r.len() {
            self.extra_mon.push(("norm", format!("{name}({n}): capacity {} < len {}; {pre_desc}", r.capacity(), r.len())));
        }
        if sole_big && r.capacity() > p.cap {
            self.extra_mon.push(("norm", format!("{name}({n}): the capacity of a sole owner grew from {} to {}; {pre_desc}", p.cap, r.capacity())));
        }
    }

    /// Representation contract (C07) checked on the implementation alone, with the lineage
    /// (`taint`) tracked here: called right after the op ran.  Returns the violations.
    fn repr_monitor(&mut self, op: &Op, pre: Option<&PreRepr>, ret: &str, ev: &alloc::Events) -> Vec<String> {
        let mut bad: Vec<String> = vec![];
        let (h, d) = op.slots();
        let ok = ret != "panic" && ret != "false" && !ret.starts_with("err:") && !ret.starts_with("utf8err:");
        let allocs = ev[0] + ev[2] + ev[4];
        let any_ev = ev[0] + ev[1] + ev[2] + ev[3] + ev[4];
        let shown = |e: &alloc::Events| format!("{},{},{},{},{}", e[0], e[1], e[2], e[3], e[4]);

        // ---- lineage: every constructor but `with_capacity(n > 23)` is untainted; derived values inherit
        if let Some(d) = d {
            if self.pool[d].is_some() {
                self.taint[d] = match op {
                    Op::WithCap { n, .. } => *n > ICAP,
                    Op::Repeat { n, .. } => pre.map_or(false, |p| (p.len == 0 || *n == 1) && p.taint),
                    _ => pre.map_or(false, |p| p.taint),
                };
                self.wcap[d] = match op {
                    Op::WithCap { n, .. } => Some((*n, self.pool[d].as_ref().unwrap().hb().as_ptr() as usize)),
                    _ => None,
                };
            }
        }
        // a handle stops being "with_capacity then pushes only" as soon as anything else touches it
        if let Some(h) = h {
            if !matches!(op, Op::Push { .. } | Op::SPushStr { .. } | Op::SPushChar { .. }) {
                self.wcap[h] = None;
            }
        }
        for i in 0..SLOTS {
            if self.pool[i].is_none() {
                self.taint[i] = false;
                self.wcap[i] = None;
            }
        }

        let res_slot = d.or(h);
        let res = res_slot.and_then(|i| self.pool[i].as_ref()).map(|x| x.hb());

        // ---- (b) borrowing constructors and borrowed slices of borrowed values
        let borrowed_src: Option<(usize, usize)> = match (op, pre) {
            (Op::Borrowed { src, off, len, .. }, _) => Some((self.srcs[*src].as_ptr() as usize + off, *len)),
            (Op::Clone { .. }, Some(p)) if p.tag == 'B' => Some((p.ptr, p.len)),
            (Op::Slice { sb, eb, .. } | Op::SSlice { sb, eb, .. }, Some(p)) if p.tag == 'B' && ok => {
                std_get(p.len, *sb, *eb).map(|(a, b)| (p.ptr + a, b - a))
            }
            (Op::SliceRef { rel, plen, .. }, Some(p)) if p.tag == 'B' && ok => Some((p.ptr + rel, *plen)),
            (Op::Adopt { off, len, .. }, Some(p)) if p.tag == 'B' => Some((p.ptr + off, *len)),
            _ => None,
        };
        if let (Some((ptr, len)), Some(r), true) = (borrowed_src, d.and_then(|i| self.pool[i].as_ref()).map(|x| x.hb()), ok) {
            if !r.is_borrowed() {
                let route = if matches!(op, Op::Borrowed { .. }) {
                    format!(" [constructor route {} of 0=borrowed 1=Cow::Borrowed 2=from_static (byt/str; os/path: variant mod 2, 1=Path/Cow)]", op.variant() % 3)
                } else {
                    String::new()
                };
                bad.push(format!("{}: the result must BORROW the caller's bytes, it is {}{route}", op.name(), if r.is_inline() { "inline (copied)" } else { "allocated (copied)" }));
            } else if r.as_ptr() as usize != ptr || r.len() != len {
                bad.push(format!("{}: borrowed result does not point at the source bytes (offset {} len {}, expected len {len})", op.name(), r.as_ptr() as isize - ptr as isize, r.len()));
            }
            if any_ev != 0 {
                bad.push(format!("{}: a borrowing operation must not touch the allocator, events {}", op.name(), shown(ev)));
            }
        }

        // ---- (c) sharing: clone, and slice/adopt to more than 23 bytes, of a heap value
        if let (Some(p), Some(dd), true) = (pre, d, ok) {
            if p.tag == 'H' {
                let want: Option<(usize, usize)> = match op {
                    Op::Clone { .. } => Some((0, p.len)),
                    Op::Slice { sb, eb, .. } | Op::SSlice { sb, eb, .. } => std_get(p.len, *sb, *eb).map(|(a, b)| (a, b - a)),
                    Op::SliceRef { rel, plen, .. } => Some((*rel, *plen)),
                    Op::Adopt { off, len, .. } => Some((*off, *len)),
                    _ => None,
                };
                if let (Some((a, n)), Some(r)) = (want, self.pool[dd].as_ref().map(|x| x.hb())) {
                    if matches!(op, Op::Clone { .. }) || n > ICAP {
                        let sharable = self.hdr_backend != "unique" && (p.shares as u64).saturating_sub(1) < self.hdr_ceil;
                        if sharable {
                            if any_ev != 0 || r.as_ptr() as usize != p.ptr + a || r.len() != n {
                                bad.push(format!(
                                    "{}: a heap value below the share ceiling must be SHARED (no allocator event, same bytes): events {}, pointer offset {} (expected {a})",
                                    op.name(), shown(ev), r.as_ptr() as isize - p.ptr as isize
                                ));
                            }
                        } else if n > 0 {
                            let (sb, rb) = (alloc::find(p.ptr), alloc::find(r.as_ptr() as usize));
                            match (sb, rb) {
                                (Some(s), Some(rb)) if s.live && rb.live && s.serial != rb.serial => {}
                                _ => bad.push(format!("{}: the owner cannot be shared (Unique backend / count at its ceiling): the result must live in its OWN block", op.name())),
                            }
                        }
                    }
                }
            }
        }

        // ---- (d) ownership transfer without copying
        if let (Op::FromVec { d, bs, .. }, true) = (op, ok) {
            if bs.len() > ICAP {
                if let Some(r) = self.pool[*d].as_ref().map(|x| x.hb()) {
                    if r.as_ptr() as usize != self.last_vec_in || ev[2] + ev[3] + ev[4] != 0 {
                        bad.push(format!("from_vec: a Vec longer than {ICAP} bytes must be adopted as is (same pointer, no buffer event): events {}", shown(ev)));
                    }
                }
            }
        }
        if let (Op::IntoVec { .. }, Some(p), true) = (op, pre, ret.starts_with("bytes:")) {
            if let Some((vp, vc)) = self.last_vec_out.take() {
                if vp != p.ptr || vc != p.cap || ev[2] + ev[3] + ev[4] != 0 {
                    bad.push(format!(
                        "into_vec: Ok must hand the owner Vec over (same pointer: {}, capacity {vc} vs {}, no buffer event: {})",
                        vp == p.ptr, p.cap, shown(ev)
                    ));
                }
            }
        }

        // ---- (e) with_capacity(n): pushes up to n bytes in total never move the bytes
        if let (Some(h), true) = (h, matches!(op, Op::Push { .. } | Op::SPushStr { .. } | Op::SPushChar { .. })) {
            if let (Some((n, ptr)), Some(r)) = (self.wcap[h], self.pool[h].as_ref().map(|x| x.hb())) {
                if r.len() > n {
                    self.wcap[h] = None;
                } else if n > ICAP && (r.as_ptr() as usize != ptr || !r.is_allocated()) {
                    bad.push(format!("push: with_capacity({n}) then {} bytes pushed in total moved the bytes", r.len()));
                } else if n <= ICAP && !r.is_inline() {
                    bad.push(format!("push: with_capacity({n}) then {} bytes pushed in total left the inline representation", r.len()));
                }
            }
        }

        // ---- (f) an inline result from untainted non-heap inputs costs no allocation
        if let (Some(r), true) = (res, ok) {
            let input_ok = pre.map_or(true, |p| p.tag != 'H' && !p.taint);
            let excluded = matches!(op, Op::Mutate { .. } | Op::ToVec { .. } | Op::IntoVec { .. });
            if r.is_inline() && input_ok && !excluded && allocs != 0 {
                bad.push(format!("{}: an inline result from non-heap input must not allocate, events {}", op.name(), shown(ev)));
            }
        }

        // ---- (a), (e) every live handle
        for i in 0..SLOTS {
            let Some(x) = self.pool[i].as_ref() else { continue };
            let r = x.hb();
            if r.capacity() < r.len() {
                bad.push(format!("h{i}: capacity {} < len {}", r.capacity(), r.len()));
            }
            if !self.taint[i] {
                if !r.is_borrowed() && r.len() <= ICAP && !r.is_inline() {
                    bad.push(format!(
                        "h{i}: a value of {} bytes that does not descend from with_capacity must be inline, it is allocated (not normalised) after {}",
                        r.len(), op.name()
                    ));
                } else if !r.is_normalized() {
                    bad.push(format!("h{i}: is_normalized() is false for a value that does not descend from with_capacity"));
                }
            }
        }
        bad
    }

    /// One step: applicability, implementation, oracle, model, comparison.
    fn step(&mut self, op: &Op) -> Result<StepRes, String> {
        if !self.applicable(op) {
            return Ok(StepRes::Skipped);
        }
        let line = op.line();
        if let Some((path, head)) = &self.trace {
            let mut t = head.clone();
            for l in &self.applied {
                t.push_str(" ; ");
                t.push_str(l);
            }
            t.push_str(" ; ");
            t.push_str(&line);
            t.push('\n');
            let _ = std::fs::write(path, t);
        }
        self.applied.push(line.clone());
        let step = self.step_no;
        self.step_no += 1;
        let mut dis: Vec<Dis> = vec![];
        let mut add = |kind: &'static str, sub: String, expected: String, observed: String| {
            dis.push(Dis { kind, sub, step, expected, observed });
        };

        // representation of the target before the op (statistics)
        let pre = match op.slots().0 {
            Some(h) => {
                let hb = self.pool[h].as_ref().unwrap().hb();
                if hb.is_inline() {
                    "I".to_string()
                } else if hb.is_borrowed() {
                    "B".to_string()
                } else {
                    let (buf, vlen, _, _, shares) = hb.verif_owner_info().unwrap();
                    let off = hb.as_ptr() as usize - buf;
                    format!(
                        "H{}{}{}",
                        if shares > 1 { "s" } else { "u" },
                        if off > 0 { "o" } else { "" },
                        if vlen > off + hb.len() { "t" } else { "" }
                    )
                }
            }
            None => "-".to_string(),
        };

        // 1. implementation
        let pre_repr = op.slots().0.map(|h| {
            let hb = self.pool[h].as_ref().unwrap().hb();
            PreRepr {
                tag: if hb.is_inline() { 'I' } else if hb.is_borrowed() { 'B' } else { 'H' },
                ptr: hb.as_ptr() as usize,
                len: hb.len(),
                cap: hb.capacity(),
                shares: hb.verif_owner_info().map_or(0, |i| i.4),
                taint: self.taint[h],
            }
        });
        let _ = alloc::take_events();
        self.extra_mon.clear();
        self.step_conv.clear();
        let ret = self.exec(op);
        let ev = alloc::take_events();
        self.norm_monitor(op, pre_repr.as_ref());
        for (class, m) in std::mem::take(&mut self.extra_mon) {
            let expected = match class {
                "norm" => "shrink_to/shrink_to_fit re-establish normalisation: max(requested, len) <= inline capacity and not borrowed => inline; capacity >= len; a sole owner's capacity never grows (C07)",
                "reuse" => "a consuming conversion of the sole owner of a heap buffer at offset 0 hands the buffer over; wrapper-to-wrapper moves keep the bytes in place (C07)",
                "utf8" => "every live HipStr is well-formed UTF-8 after every step",
                "flip" => "slicing with an impure RangeBounds yields the slice of ONE reading of the range, an error or a panic",
                _ => "every view inside live memory it owns or borrows",
            };
            add("monitor", class.to_string(), expected.into(), m);
        }
        for m in self.repr_monitor(op, pre_repr.as_ref(), &ret, &ev) {
            add("monitor", "repr".into(), "the representation contract (C07)".into(), m);
        }
        for (k, serial, size) in alloc::take_violations() {
            add("monitor", format!("alloc:{}", alloc::violation_name(k)), "-".into(), format!("{} (block #{serial}, size {})", alloc::violation_name(k), size & 0xffff_ffff_ffff));
        }
        if ev[5] != 0 {
            add("monitor", "alloc:unexpected-class".into(), "only Box<Inner> (align 8) and Vec<u8> (align 1) blocks".into(), format!("{} event(s) of another class", ev[5]));
        }
        let ev_s = format!("{},{},{},{},{}", ev[0], ev[1], ev[2], ev[3], ev[4]);

        // 2. oracle
        let flag = ret == "true" || ret.starts_with("bytes:");
        let exp = oracle_step(&mut self.oracle, &self.srcs, op, flag);
        if !exp.matches(&ret) {
            add("impl-vs-oracle", "ret".into(), exp.show(), ret.clone());
        }

        // 3. read everything back
        let (obs, mon) = self.observe();
        for m in mon {
            if m.contains("ill-formed UTF-8") {
                add("monitor", "utf8".into(), "every live HipStr is well-formed UTF-8 after every step".into(), m);
                continue;
            }
            let sub = m.split(':').nth(1).unwrap_or("").trim().chars().take(24).collect::<String>();
            add("monitor", format!("heap:{sub}"), "every view inside live memory it owns or borrows".into(), m);
        }
        for i in 0..SLOTS {
            let o = obs.iter().find(|(k, _)| *k == i);
            match (&self.oracle[i], o) {
                (Some(v), Some((_, f))) => {
                    if f[8] != hex(v) {
                        add("impl-vs-oracle", "content".into(), format!("h{i}={}", hex(v)), format!("h{i}={}", f[8]));
                    } else if let Some((e, o)) = self.pool[i].as_ref().unwrap().fmt_check(v) {
                        add("impl-vs-oracle", "fmt".into(), e, o);
                    }
                }
                (None, None) => {}
                (e, o) => add("impl-vs-oracle", "liveness".into(), format!("h{i} live={}", e.is_some()), format!("h{i} live={}", o.is_some())),
            }
        }
        let impl_line = format!(
            "ret={ret} ev={ev_s} | {}",
            obs.iter().map(|(i, f)| format!("h{i}={}", f.join(","))).collect::<Vec<_>>().join(" ")
        );

        // 4. model and spec: deferred to `flush` (pipelined); probes are not the model's business
        if self.lean.is_some() && !op.impl_only() {
            self.queue.push(line.clone());
            self.pending.push(Pending {
                step,
                ret: ret.clone(),
                ev_s: ev_s.clone(),
                obs: obs.clone(),
                exp: exp.clone(),
                oracle: self.oracle.iter().map(|o| o.as_ref().map(|v| hex(v))).collect(),
            });
        }

        // classification of the outcome for the statistics
        let post = match op.slots() {
            (_, Some(d)) | (Some(d), None) => obs.iter().find(|(k, _)| *k == d).map(|(_, f)| f[0].clone()).unwrap_or("-".into()),
            _ => "-".into(),
        };
        let rclass = ret.split(':').next().unwrap_or("").to_string();
        let names = ["ai", "fi", "ab", "fb", "gb"];
        let eclass: String = (0..5).filter(|&k| ev[k] > 0).map(|k| format!("{}{}", names[k], ev[k])).collect();
        let info = StepInfo {
            op: op.name(),
            pre,
            outcome: format!("{post}/{rclass}/{}", if eclass.is_empty() { "noalloc".into() } else { eclass }),
            impl_line: format!("{line}  =>  {impl_line}"),
            conv: self.step_conv.clone(),
        };
        dis.sort_by_key(|d| rank(d.kind));
        Ok(StepRes::Done(info, dis.into_iter().next()))
    }

    /// Sends the queued lines to the model, compares every pending step; the first (lowest
    /// step, then highest priority) disagreement is returned.
    fn flush(&mut self) -> Result<Option<Dis>, String> {
        let Some(l) = self.lean.as_deref_mut() else { return Ok(None) };
        if self.queue.is_empty() {
            return Ok(None);
        }
        let lines = std::mem::take(&mut self.queue);
        let answers = l.batch(&lines).map_err(|e| format!("lean driver: {e} (last lines sent: {:?})", &lines[lines.len().saturating_sub(3)..]))?;
        let pending = std::mem::take(&mut self.pending);
        let nhdr = lines.len() - pending.len();
        for (line, a) in lines.iter().zip(&answers).take(nhdr) {
            if a != "ok" {
                return Err(format!("lean driver rejected `{line}`: {a}"));
            }
        }
        let mut dis: Vec<Dis> = vec![];
        for (k, pd) in pending.iter().enumerate() {
            let (line, ans) = (&lines[nhdr + k], &answers[nhdr + k]);
            let step = pd.step;
            let mut add = |kind: &'static str, sub: String, expected: String, observed: String| {
                dis.push(Dis { kind, sub, step, expected, observed });
            };
            let Some((m, s)) = ans.split_once(" || ") else {
                return Err(format!("lean driver answered `{ans}` to `{line}`"));
            };
            let (mhead, mpool) = m.split_once(" |").unwrap_or((m, ""));
            let mut mret = "";
            let mut mev = "";
            for t in mhead.split_whitespace() {
                if let Some(r) = t.strip_prefix("ret=") {
                    mret = r;
                }
                if let Some(r) = t.strip_prefix("ev=") {
                    mev = r;
                }
            }
            if mret != pd.ret {
                add("impl-vs-model", "ret".into(), format!("ret={mret}"), format!("ret={}", pd.ret));
            }
            if mev != pd.ev_s {
                add("impl-vs-model", "ev".into(), format!("ev={mev} (alloc-inner,free-inner,alloc-buf,free-buf,grow-buf)"), format!("ev={}", pd.ev_s));
            }
            let mut mh: Vec<(usize, Vec<String>)> = vec![];
            for t in mpool.split_whitespace() {
                let Some((name, rest)) = t.split_once('=') else { continue };
                let idx: usize = name.trim_start_matches('h').parse().map_err(|_| format!("bad handle in `{ans}`"))?;
                let mut f: Vec<String> = rest.split(',').map(str::to_string).collect();
                if f.len() != 10 {
                    return Err(format!("bad handle fields in `{ans}`"));
                }
                f.pop(); // taint: model only
                if f[6].starts_with('b') {
                    f[6] = canon(&mut self.model_blk, &f[6].clone());
                }
                mh.push((idx, f));
            }
            for i in 0..SLOTS {
                let a = mh.iter().find(|(k, _)| *k == i).map(|x| &x.1);
                let b = pd.obs.iter().find(|(k, _)| *k == i).map(|x| &x.1);
                match (a, b) {
                    (Some(a), Some(b)) => {
                        if let Some(k) = (0..9).find(|&k| a[k] != b[k]) {
                            add("impl-vs-model", format!("obs:{}", FIELD_NAMES[k]), format!("h{i}={}", a.join(",")), format!("h{i}={}", b.join(",")));
                        }
                    }
                    (None, None) => {}
                    (a, b) => add("impl-vs-model", "obs:liveness".into(), format!("h{i} live={}", a.is_some()), format!("h{i} live={}", b.is_some())),
                }
            }
            // spec vs std
            let (shead, spool) = s.split_once(" |").unwrap_or((s, ""));
            let sret = shead.split_whitespace().find_map(|t| t.strip_prefix("ret=")).unwrap_or("");
            if !pd.exp.matches_spec(sret) {
                add("spec-vs-std", "ret".into(), pd.exp.show(), sret.to_string());
            }
            let mut sp: Vec<Option<String>> = vec![None; SLOTS];
            for t in spool.split_whitespace() {
                if let Some((name, v)) = t.split_once('=') {
                    if let Ok(i) = name.trim_start_matches('p').parse::<usize>() {
                        if i < SLOTS {
                            sp[i] = Some(v.to_string());
                        }
                    }
                }
            }
            for i in 0..SLOTS {
                if pd.oracle[i] != sp[i] {
                    add(
                        "spec-vs-std",
                        "content".into(),
                        format!("p{i}={}", pd.oracle[i].clone().unwrap_or("none".into())),
                        format!("p{i}={}", sp[i].clone().unwrap_or("none".into())),
                    );
                }
            }
            if !dis.is_empty() {
                break;
            }
        }
        dis.sort_by_key(|d| (d.step, rank(d.kind)));
        Ok(dis.into_iter().next())
    }

    /// End of the sequence: compare with the model, drop every handle, then allocator balance /
    /// red zones / poison.  `local` = a disagreement already found on the implementation side.
    fn finish(mut self, local: Option<Dis>) -> Result<Option<Dis>, String> {
        alloc::set_mode(alloc::OFF);
        let model = self.flush();
        let step = self.step_no;
        let corrupted = local.as_ref().map_or(false, heap_corrupting);
        for s in self.pool.iter_mut() {
            if corrupted {
                // handles of a corrupted heap are not dropped (their destructors would free
                // memory again): the tracked blocks are released by `end_sequence`
                std::mem::forget(s.take());
            } else {
                *s = None;
            }
        }
        let mut v = alloc::take_violations();
        alloc::end_sequence();
        v.extend(alloc::take_violations());
        let model = model?;
        let first = match (local, model) {
            (Some(a), Some(b)) => Some(if (b.step, rank(b.kind)) < (a.step, rank(a.kind)) { b } else { a }),
            (a, b) => a.or(b),
        };
        if first.is_some() {
            return Ok(first);
        }
        Ok(v.into_iter().next().map(|(k, serial, size)| {
            let (sz, al) = (size & 0xffff_ffff_ffff, size >> 48);
            Dis {
                kind: "monitor",
                sub: format!("end:{}", alloc::violation_name(k)),
                step,
                expected: "after dropping every handle and returned value: every block freed once, red zones and freed memory intact".into(),
                observed: format!(
                    "{}: block #{serial} of {sz} bytes{}",
                    alloc::violation_name(k),
                    if k == alloc::V_LEAK { format!(" (align {al}: {})", if al >= 8 { "owner box" } else { "byte buffer" }) } else { String::new() }
                ),
            }
        }))
    }
}

/// priority: monitor > impl-vs-oracle > impl-vs-model > spec-vs-std
fn rank(k: &str) -> u8 {
    match k {
        "monitor" => 0,
        "impl-vs-oracle" => 1,
        "impl-vs-model" => 2,
        _ => 3,
    }
}

// ---------------------------------------------------------------------------------------------
// running whole sequences, statistics, shrinking
// ---------------------------------------------------------------------------------------------

#[derive(Default)]
struct Stats {
    evaluations: u64,
    sequences: u64,
    triples: BTreeSet<String>,
    dist: BTreeMap<String, u64>,
    by_type: BTreeMap<String, u64>,
    samples: Vec<String>,
    disagreements: Vec<serde_json::Value>,
    seen: BTreeSet<String>,
    shrink_runs: u64,
    /// consuming conversions: name -> (calls, calls with the reuse/identity obligation checked)
    conv: BTreeMap<String, (u64, u64)>,
    /// where and how stats.json is (re)written as soon as a disagreement is recorded
    out: Option<String>,
    meta: serde_json::Map<String, serde_json::Value>,
    started: Option<std::time::Instant>,
    /// set once enough disagreements have been collected: every loop winds down
    stop: bool,
}

const MAX_DISAGREEMENTS: usize = 20;


impl Stats {
    fn json(&self) -> String {
        let mut out = serde_json::Map::new();
        out.insert("evaluations".into(), self.evaluations.into());
        out.insert("sequences".into(), self.sequences.into());
        out.insert("distinct_nontrivial".into(), self.triples.len().into());
        for (k, v) in &self.meta {
            out.insert(k.clone(), v.clone());
        }
        out.insert("seconds".into(), self.started.map_or(0.0, |t| t.elapsed().as_secs_f64()).into());
        out.insert("shrink_runs".into(), self.shrink_runs.into());
        out.insert("per_type_backend".into(), serde_json::json!(self.by_type));
        out.insert(
            "conversions".into(),
            serde_json::json!(self.conv.iter().map(|(k, v)| (k.clone(), serde_json::json!({"calls": v.0, "reuse_checked": v.1}))).collect::<BTreeMap<_, _>>()),
        );
        out.insert("distribution".into(), serde_json::json!(self.dist));
        out.insert("samples".into(), serde_json::json!(self.samples));
        out.insert("disagreements".into(), serde_json::json!(self.disagreements));
        serde_json::to_string_pretty(&serde_json::Value::Object(out)).unwrap()
    }
    /// (re)writes stats.json: called on every new disagreement and at the end
    fn flush(&self) {
        if let Some(p) = &self.out {
            let tmp = format!("{p}.tmp");
            if std::fs::write(&tmp, self.json()).is_ok() {
                let _ = std::fs::rename(&tmp, p);
            }
        }
    }
    fn record(&mut self, ty: &str, backend: &str, info: &StepInfo) {
        self.evaluations += 1;
        let key = format!("{}|{}|{}", info.op, info.pre, info.outcome);
        *self.dist.entry(key.clone()).or_insert(0) += 1;
        self.triples.insert(key);
        *self.by_type.entry(format!("{ty}/{backend}")).or_insert(0) += 1;
        for (name, checked) in &info.conv {
            let e = self.conv.entry(name.to_string()).or_insert((0, 0));
            e.0 += 1;
            e.1 += *checked as u64;
        }
        if self.samples.len() < 12 && self.evaluations % 9973 == 1 {
            self.samples.push(format!("[{ty}/{backend}] {}", info.impl_line));
        }
    }
}

struct RunOut {
    dis: Option<Dis>,
    applied: Vec<String>,
    infos: Vec<StepInfo>,
    /// contents of the target of each applied op just before it ran
    pre_contents: Vec<Option<Vec<u8>>>,
}

/// Runs a fixed list of ops from a fresh state (replay, shrinking, exhaustive enumeration).
fn run_ops<T: Subject>(hdr: &Hdr, ops: &[Op], lean: Option<&mut LeanDriver>) -> Result<RunOut, String> {
    let mut s = Session::<T>::new(hdr, lean)?;
    let mut infos = vec![];
    let mut dis = None;
    let mut pre_contents = vec![];
    for op in ops {
        let pre = op.slots().0.and_then(|h| s.oracle.get(h).cloned().flatten());
        match s.step(op)? {
            StepRes::Skipped => {}
            StepRes::Done(info, d) => {
                pre_contents.push(pre);
                infos.push(info);
                if d.is_some() {
                    dis = d;
                    break;
                }
            }
        }
    }
    let applied = s.applied.clone();
    let dis = s.finish(dis)?;
    // keep only what was applied up to the failing step
    let applied = match &dis {
        Some(d) => applied.into_iter().take(d.step + 1).collect(),
        None => applied,
    };
    Ok(RunOut { dis, applied, infos, pre_contents })
}

fn shorter_payloads(op: &Op, text: bool) -> Vec<Op> {
    let cut = |bs: &Vec<u8>| -> Vec<Vec<u8>> {
        let mut out = vec![];
        for n in [0, 1, bs.len() / 2, bs.len().saturating_sub(1)] {
            if n < bs.len() && (!text || is_boundary(bs, n)) {
                out.push(bs[..n].to_vec());
            }
        }
        out
    };
    let mut v = vec![];
    match op {
        Op::FromSlice { d, bs } => v.extend(cut(bs).into_iter().map(|b| Op::FromSlice { d: *d, bs: b })),
        Op::FromVec { d, bs, cap } => {
            v.extend(cut(bs).into_iter().map(|b| Op::FromVec { d: *d, cap: (*cap).max(b.len()), bs: b }));
            if *cap > bs.len() {
                v.push(Op::FromVec { d: *d, bs: bs.clone(), cap: bs.len() });
            }
        }
        Op::Push { h, bs } => v.extend(cut(bs).into_iter().map(|b| Op::Push { h: *h, bs: b })),
        Op::SPushStr { h, bs } => v.extend(cut(bs).into_iter().map(|b| Op::SPushStr { h: *h, bs: b })),
        Op::Flip { h, readings, try_, s } if readings.len() > 1 => {
            for k in 0..readings.len() {
                let mut r = readings.clone();
                r.remove(k);
                v.push(Op::Flip { h: *h, readings: r, try_: *try_, s: *s });
            }
        }
        Op::SFromUtf8 { d, bs } => {
            for n in [0, 1, bs.len() / 2, bs.len().saturating_sub(1)] {
                if n < bs.len() {
                    v.push(Op::SFromUtf8 { d: *d, bs: bs[..n].to_vec() });
                    v.push(Op::SFromUtf8 { d: *d, bs: bs[bs.len() - n..].to_vec() });
                }
            }
        }
        Op::Mutate { h, script, leak } if !script.is_empty() => {
            for k in 0..script.len() {
                let mut s = script.clone();
                s.remove(k);
                v.push(Op::Mutate { h: *h, script: s, leak: *leak });
            }
        }
        _ => {}
    }
    v
}

/// Delete ops / shorten payloads while the same kind of disagreement persists.
fn shrink<T: Subject>(hdr: &Hdr, ops: Vec<Op>, target: &Dis, lean: &mut Option<LeanDriver>, budget: &mut u64) -> (Vec<Op>, Dis) {
    let same = |d: &Option<Dis>| d.as_ref().map_or(false, |d| d.kind == target.kind && d.sub == target.sub);
    let mut best = ops;
    let mut best_dis = target.clone();
    let last_pre: std::cell::RefCell<Option<Vec<u8>>> = Default::default();
    let mut try_ = |cand: &Vec<Op>, budget: &mut u64| -> Option<(Vec<Op>, Dis)> {
        if *budget == 0 {
            return None;
        }
        *budget -= 1;
        match run_ops::<T>(hdr, cand, lean.as_mut()) {
            Ok(r) if same(&r.dis) => {
                let applied: Vec<Op> = r.applied.iter().filter_map(|l| Op::parse(l)).collect();
                let d = r.dis.unwrap();
                *last_pre.borrow_mut() = r.pre_contents.get(d.step).cloned().flatten();
                Some((applied, d))
            }
            _ => None,
        }
    };
    // normalise first (drops skipped ops and everything after the failing step)
    if let Some((a, d)) = try_(&best, budget) {
        best = a;
        best_dis = d;
    }
    // the failing op alone on a fresh value with the same contents as its target
    if best.len() > 2 {
        let pre: Option<Vec<u8>> = last_pre.borrow().clone();
        if let (Some(op), Some(content)) = (best.get(best_dis.step).cloned(), pre) {
            if let (Some(h), _) = op.slots() {
                for ctor in [Op::FromSlice { d: h, bs: content.clone() }, Op::FromVec { d: h, bs: content.clone(), cap: content.len() + 8 }] {
                    let cand = vec![ctor, op.clone()];
                    if let Some((a, d)) = try_(&cand, budget) {
                        if a.len() < best.len() {
                            best = a;
                            best_dis = d;
                            break;
                        }
                    }
                }
            }
        }
    }
    loop {
        let mut progress = false;
        let mut i = best.len();
        while i > 0 {
            i -= 1;
            let mut cand = best.clone();
            cand.remove(i);
            if let Some((a, d)) = try_(&cand, budget) {
                if a.len() < best.len() {
                    best = a;
                    best_dis = d;
                    progress = true;
                    i = i.min(best.len());
                }
            }
        }
        for i in 0..best.len() {
            for alt in shorter_payloads(&best[i], T::text()) {
                let mut cand = best.clone();
                cand[i] = alt;
                if let Some((a, d)) = try_(&cand, budget) {
                    if a.len() <= best.len() {
                        best = a;
                        best_dis = d;
                        progress = true;
                        break;
                    }
                }
                if i >= best.len() {
                    break;
                }
            }
            if i + 1 >= best.len() {
                break;
            }
        }
        if !progress || *budget == 0 {
            break;
        }
    }
    (best, best_dis)
}

/// a monitor class after which the process's heap can no longer be trusted
fn heap_corrupting(d: &Dis) -> bool {
    d.kind == "monitor" && d.sub != "utf8" && d.sub != "repr" && d.sub != "reuse" && d.sub != "flip" && d.sub != "norm" && !d.sub.ends_with(alloc::violation_name(alloc::V_LEAK))
}

fn dis_json(hdr: &Hdr, ops: &[Op], dis: &Dis, shrunk: bool) -> serde_json::Value {
    let mut input = hdr.lines();
    input.extend(ops.iter().map(|o| o.line()));
    serde_json::json!({
        "kind": dis.kind, "class": dis.sub, "step": dis.step, "input": input,
        "expected": dis.expected, "observed": dis.observed, "profile": profile(), "shrunk": shrunk,
    })
}

fn report<T: Subject>(st: &mut Stats, hdr: &Hdr, ops: Vec<Op>, dis: Dis, lean: &mut Option<LeanDriver>, save: &Option<String>) {
    if st.stop {
        return;
    }
    // 1. on disk at once, unshrunk (shrinking re-executes a sequence that may corrupt the heap)
    st.disagreements.push(dis_json(hdr, &ops[..ops.len().min(dis.step + 1)], &dis, false));
    st.flush();
    let slot = st.disagreements.len() - 1;
    // 2. shrink, then replace the record
    let mut budget = 600u64;
    let (ops, dis) = shrink::<T>(hdr, ops, &dis, lean, &mut budget);
    st.shrink_runs += 600 - budget;
    let last = ops.get(dis.step.min(ops.len().saturating_sub(1))).map(|o| o.name()).unwrap_or("end");
    // one report per (kind, class, op at the failing step, type, backend)
    let key = format!("{}|{}|{}|{}|{}", dis.kind, dis.sub, last, hdr.ty, hdr.backend);
    if !st.seen.insert(key.clone()) {
        st.disagreements.remove(slot);
        st.flush();
        return;
    }
    let rec = dis_json(hdr, &ops, &dis, true);
    let input: Vec<String> = rec["input"].as_array().unwrap().iter().map(|x| x.as_str().unwrap().to_string()).collect();
    st.disagreements[slot] = rec;
    st.flush();
    eprintln!("DISAGREEMENT {key} at step {}:\n  {}\n  expected {}\n  observed {}", dis.step, input.join("\n  "), dis.expected, dis.observed);
    if let Some(dir) = save {
        let _ = std::fs::create_dir_all(dir);
        let name = format!("{dir}/{}-{}-{}-{}.ops", dis.kind, hdr.ty, hdr.backend, st.disagreements.len());
        let _ = std::fs::write(name, input.join("\n") + "\n");
    }
    if st.disagreements.len() >= MAX_DISAGREEMENTS {
        st.stop = true;
    }
    if heap_corrupting(&dis) {
        // the implementation freed, overran or kept a view of memory it does not own: nothing
        // this process does afterwards can be trusted
        eprintln!("coredrive: memory-safety monitor fired; stats written, stopping");
        std::process::exit(1);
    }
}

// ---------------------------------------------------------------------------------------------
// generator
// ---------------------------------------------------------------------------------------------

const LENS: [usize; 20] = [0, 0, 1, 1, 2, 5, 11, 22, 23, 23, 24, 24, 25, 26, 30, 46, 47, 48, 49, 64];

fn payload(rng: &mut Rng, len: usize, text: bool) -> Vec<u8> {
    if text {
        // ASCII, é (C3 A9), € (E2 82 AC), 🦀 (F0 9F A6 80), U+00BF (C2 BF), U+FFFD (EF BF BD),
        // U+10FFFF (F4 8F BF BF), combining U+0301 (CC 81)
        const CH: [&str; 16] =
            ["a", "B", "z", "Q", "0", " ", "M", "x", "é", "€", "🦀", "\u{BF}", "\u{FFFD}", "\u{10FFFF}", "\u{301}", "Z"];
        let mut s = String::new();
        while s.len() < len {
            let c = *rng.pick(&CH);
            if s.len() + c.len() <= len {
                s.push_str(c);
            }
        }
        s.into_bytes()
    } else {
        const AL: &[u8] = b"aZbYcXdW09 _mMqQ\x00\x7f\x80\xc3\xff";
        (0..len).map(|_| *rng.pick(AL)).collect()
    }
}

/// the largest char boundary `<= i` (only meaningful for text; the identity on a boundary)
fn floor_boundary(v: &[u8], mut i: usize) -> usize {
    i = i.min(v.len());
    if std::str::from_utf8(v).is_err() {
        return i;
    }
    while i > 0 && !is_boundary(v, i) {
        i -= 1;
    }
    i
}

fn bounds_for(rng: &mut Rng, a: usize, b: usize, len: usize) -> (Bd, Bd) {
    let sb = match rng.below(4) {
        0 if a == 0 => Bd::U,
        1 if a > 0 => Bd::X(a - 1),
        _ => Bd::I(a),
    };
    let eb = match rng.below(4) {
        0 if b == len => Bd::U,
        1 if b > 0 => Bd::I(b - 1),
        _ => Bd::X(b),
    };
    (sb, eb)
}

fn bad_bound(rng: &mut Rng, len: usize) -> Bd {
    let n = *rng.pick(&[len + 1, len + 2, len + 40, usize::MAX, usize::MAX - 1, len, 0, usize::MAX / 2]);
    match rng.below(3) {
        0 => Bd::I(n),
        1 => Bd::X(n),
        _ => Bd::I(n),
    }
}

const SCALARS: [u32; 12] = [0x61, 0x5A, 0x7F, 0xE9, 0xBF, 0x301, 0x20AC, 0xFFFD, 0xD7FF, 0xE000, 0x1F980, 0x10FFFF];

/// ill-formed fragments, one per class of UTF-8 error
const BAD_UTF8: [&[u8]; 26] = [
    b"\x80",             // lone continuation
    b"\xBF",             // lone continuation (top of the range)
    b"\xC0\x80",         // overlong 2-byte
    b"\xC1\xBF",         // overlong 2-byte
    b"\xC3",             // truncated 2-byte
    b"\xC3\x28",         // bad continuation
    b"\xE0\x80\x80",     // overlong 3-byte
    b"\xE0\x9F\xBF",     // overlong 3-byte
    b"\xE2\x82",         // truncated 3-byte
    b"\xE2",             // truncated 3-byte
    b"\xE2\x28\xAC",     // bad 2nd byte
    b"\xE2\x82\x28",     // bad 3rd byte
    b"\xED\xA0\x80",     // surrogate D800
    b"\xED\xBF\xBF",     // surrogate DFFF
    b"\xF0\x80\x80\x80", // overlong 4-byte
    b"\xF0\x8F\xBF\xBF", // overlong 4-byte
    b"\xF0\x9F\xA6",     // truncated 4-byte
    b"\xF0\x9F",         // truncated 4-byte
    b"\xF0",             // truncated 4-byte
    b"\xF0\x28\xA6\x80", // bad 2nd byte
    b"\xF0\x9F\x28\x80", // bad 3rd byte
    b"\xF0\x9F\xA6\x28", // bad 4th byte
    b"\xF4\x90\x80\x80", // above U+10FFFF
    b"\xF5\x80\x80\x80", // invalid lead F5
    b"\xF8\x88\x80\x80\x80", // 5-byte form
    b"\xFF",             // never valid
];

fn bad_utf8(rng: &mut Rng) -> Vec<u8> {
    let len = *rng.pick(&[0, 1, 3, 10, 20, 22, 23, 24, 25, 30, 47]);
    let mut v = payload(rng, len, true);
    match rng.below(8) {
        0 => {}                                  // well-formed: the accepted path
        1 => v.truncate(rng.below(v.len() + 1)), // possibly cut inside a scalar
        _ => {
            let at = rng.below(v.len() + 1);     // any byte offset, also inside a scalar
            let frag = *rng.pick(&BAD_UTF8);
            v.splice(at..at, frag.iter().copied());
        }
    }
    v
}

/// a `HipStr`-level op with UNRESTRICTED arguments (non-boundaries, ill-formed bytes)
fn gen_str_op<T: Subject>(rng: &mut Rng, s: &Session<T>) -> Option<Op> {
    let live = s.live();
    let free = s.free();
    let h = if live.is_empty() { None } else { Some(*rng.pick(&live)) };
    let d = free.first().copied();
    let len = h.map_or(0, |h| s.oracle[h].as_ref().map_or(0, |v| v.len()));
    let roll = rng.below(100);
    let op = if roll < 30 {
        Op::STruncate { h: h?, n: rng.below(len + 2) }
    } else if roll < 55 {
        let a = rng.below(len + 2);
        let b = if rng.chance(1, 8) { rng.below(len + 2) } else { a + rng.below(len + 2 - a) };
        let (sb, eb) = if rng.chance(1, 10) { (bad_bound(rng, len), bad_bound(rng, len)) } else { bounds_for(rng, a, b, len) };
        Op::SSlice { h: h?, d: d?, sb, eb, try_: rng.chance(2, 3) }
    } else if roll < 65 {
        Op::SPop { h: h? }
    } else if roll < 75 {
        Op::SPushChar { h: h?, c: *rng.pick(&SCALARS) }
    } else if roll < 85 {
        let n = *rng.pick(&[0, 1, 2, 3, 4, 24usize.saturating_sub(len), 23usize.saturating_sub(len), 24]);
        Op::SPushStr { h: h?, bs: payload(rng, n, true) }
    } else {
        Op::SFromUtf8 { d: d?, bs: bad_utf8(rng) }
    };
    s.applicable(&op).then_some(op)
}

/// a slice with an impure range: the first reading is valid (and on char boundaries), repeated
/// 1..3 times (debug builds read the range once more), later readings are anything
fn gen_flip<T: Subject>(rng: &mut Rng, s: &Session<T>) -> Option<Op> {
    let live = s.live();
    if live.is_empty() || s.free().is_empty() {
        return None;
    }
    let h = *rng.pick(&live);
    let v = s.oracle[h].as_deref().unwrap_or(&[]);
    let len = v.len();
    let a = floor_boundary(v, rng.below(len + 1));
    let b = floor_boundary(v, a + rng.below(len - a + 1)).max(a);
    let mut readings = vec![];
    let first = bounds_for(rng, a, b, len);
    for _ in 0..1 + rng.below(3) {
        readings.push(first);
    }
    for _ in 0..1 + rng.below(2) {
        let a2 = rng.below(len + 3);
        let b2 = rng.below(len + 3);
        readings.push(match rng.below(6) {
            0 => (bad_bound(rng, len), bad_bound(rng, len)),
            1 => (Bd::I(a2.max(b2)), Bd::X(a2.min(b2))),
            _ => bounds_for(rng, a2.min(b2), a2.max(b2), len),
        });
    }
    let op = Op::Flip { h, readings, try_: rng.chance(2, 3), s: T::text() };
    s.applicable(&op).then_some(op)
}

/// One random op for the current state (type-directed, biased towards the boundaries).
fn gen_op<T: Subject>(rng: &mut Rng, s: &Session<T>, malformed: bool) -> Option<Op> {
    let text = T::text();
    let live = s.live();
    let free = s.free();
    for _ in 0..60 {
        if !live.is_empty() && rng.chance(1, 16) {
            let op = if rng.chance(1, 2) { gen_flip::<T>(rng, s) } else { Some(Op::WrapTrip { h: *rng.pick(&live) }) };
            if let Some(op) = op.filter(|op| s.applicable(op)) {
                return Some(op);
            }
        }
        if text && rng.chance(3, 10) {
            if let Some(op) = gen_str_op::<T>(rng, s) {
                return Some(op);
            }
        }
        let cur = |h: usize| s.oracle[h].as_deref().unwrap_or(&[]);
        // target: prefer heap values
        let pick_h = |rng: &mut Rng| -> Option<usize> {
            if live.is_empty() {
                return None;
            }
            let heaps: Vec<usize> = live.iter().copied().filter(|&h| s.pool[h].as_ref().unwrap().hb().is_allocated()).collect();
            if !heaps.is_empty() && rng.chance(3, 5) {
                Some(*rng.pick(&heaps))
            } else {
                Some(*rng.pick(&live))
            }
        };
        let d = free.first().copied().map(|f| if rng.chance(1, 4) { *rng.pick(&free) } else { f });
        // category weights depend on occupancy
        let ctor_w = if live.is_empty() { 100 } else if free.is_empty() { 0 } else { 22 };
        let derive_w = if live.is_empty() || free.is_empty() { 0 } else { 28 };
        let mut_w = if live.is_empty() { 0 } else { 36 };
        let cons_w = if live.is_empty() { 0 } else if free.len() <= 1 { 30 } else { 12 };
        let roll = rng.below(ctor_w + derive_w + mut_w + cons_w);
        let op = if roll < ctor_w {
            let d = d?;
            let len = *rng.pick(&LENS);
            match rng.below(24) {
                0..=5 => Op::FromSlice { d, bs: payload(rng, len, text) },
                6..=11 => {
                    let extra = *rng.pick(&[0, 0, 0, 1, 5, 20, 40]);
                    Op::FromVec { d, bs: payload(rng, len, text), cap: len + extra }
                }
                12..=16 => {
                    let src = rng.below(s.srcs.len());
                    let sl = s.srcs[src].len();
                    let mut off = *rng.pick(&[0, 0, 1, 3, 10, sl / 2]);
                    off = floor_boundary(s.srcs[src], off.min(sl));
                    let mut l = (*rng.pick(&[sl - off, 0, 1, 5, 23, 24, 25, 30])).min(sl - off);
                    l = floor_boundary(s.srcs[src], off + l) - off;
                    Op::Borrowed { d, src, off, len: l }
                }
                17..=20 => Op::WithCap { d, n: *rng.pick(&[0, 10, 23, 24, 25, 30, 48, 64, 100]) },
                21 => Op::New { d },
                22 => Op::Inline { d, bs: payload(rng, if malformed { len } else { len.min(ICAP) }, text) },
                _ => Op::TryInline { d, bs: payload(rng, len, text) },
            }
        } else if roll < ctor_w + derive_w {
            let (h, d) = (pick_h(rng)?, d?);
            let v = cur(h);
            let len = v.len();
            match rng.below(30) {
                0..=6 => Op::Clone { h, d },
                7..=15 => {
                    let try_ = rng.chance(1, 3);
                    if malformed && rng.chance(1, 2) {
                        let (sb, eb) = match rng.below(3) {
                            0 => (bad_bound(rng, len), Bd::U),
                            1 => (Bd::I(rng.below(len + 1)), bad_bound(rng, len)),
                            _ => (bad_bound(rng, len), bad_bound(rng, len)),
                        };
                        Op::Slice { h, d, sb, eb, try_ }
                    } else {
                        let (a, b) = match rng.below(8) {
                            0 => (0, len),
                            1 => (0, 24.min(len)),
                            2 => (1.min(len), len),
                            3 => (len.saturating_sub(24), len),
                            4 => (len.saturating_sub(23), len),
                            5 => {
                                let a = rng.below(len + 1);
                                (a, (a + *rng.pick(&[23, 24, 25])).min(len))
                            }
                            _ => {
                                let a = rng.below(len + 1);
                                (a, a + rng.below(len - a + 1))
                            }
                        };
                        let (a, b) = if text { (floor_boundary(v, a), floor_boundary(v, b)) } else { (a, b) };
                        let (a, b) = (a.min(b), b);
                        let (sb, eb) = bounds_for(rng, a, b, len);
                        Op::Slice { h, d, sb, eb, try_ }
                    }
                }
                16..=20 => {
                    let try_ = rng.chance(1, 2);
                    if malformed || rng.chance(1, 4) {
                        match rng.below(4) {
                            0 => Op::SliceRef { h, d, neg: false, rel: FOREIGN_REL, plen: *rng.pick(&[0, 1, 24, 30]), try_ },
                            1 => Op::SliceRef { h, d, neg: true, rel: *rng.pick(&[1, 2, 10]), plen: *rng.pick(&[0, 1, 5, 24]), try_ },
                            2 => Op::SliceRef { h, d, neg: false, rel: len + *rng.pick(&[0, 1, 2]), plen: *rng.pick(&[0, 1, 3]), try_ },
                            _ => Op::SliceRef { h, d, neg: false, rel: rng.below(len + 1), plen: len + *rng.pick(&[1, 2, 5]), try_ },
                        }
                    } else {
                        let a = floor_boundary(v, rng.below(len + 1));
                        let b = floor_boundary(v, a + *rng.pick(&[0, 1, 23, 24, 25, len]));
                        Op::SliceRef { h, d, neg: false, rel: a, plen: b.max(a) - a, try_ }
                    }
                }
                21..=22 => {
                    let a = floor_boundary(v, rng.below(len + 1));
                    let b = floor_boundary(v, a + *rng.pick(&[0, 1, 23, 24, 25, len])).max(a);
                    Op::Adopt { h, d, off: a, len: b - a }
                }
                23 => Op::ToLower { h, d },
                24 => Op::ToUpper { h, d },
                25..=26 => {
                    let n = if malformed && len > 0 && rng.chance(1, 2) {
                        *rng.pick(&[usize::MAX, usize::MAX / 2 + 1, 1 << 63, usize::MAX - 1])
                    } else {
                        // counts with a non-trivial binary shape (6, 7, 10, 11: a doubling copy has a tail longer
                        // than one piece) and the counts landing on either side of the inline capacity for THIS length
                        let edge = if len > 0 { 23 / len } else { 4 };
                        *rng.pick(&[0, 1, 1, 2, 3, 5, 24, 6, 7, 10, 11, edge, edge + 1, 13, 23])
                    };
                    Op::Repeat { h, d, n }
                }
                _ => Op::IntoOwned { h, d },
            }
        } else if roll < ctor_w + derive_w + mut_w {
            let h = pick_h(rng)?;
            let v = cur(h);
            let len = v.len();
            let cap = s.pool[h].as_ref().unwrap().hb().capacity();
            match rng.below(40) {
                0..=10 => {
                    let room = cap.saturating_sub(len);
                    let n = *rng.pick(&[0, 1, 1, 2, 5, 24usize.saturating_sub(len), 23usize.saturating_sub(len), room, room + 1, 24, 30]);
                    Op::Push { h, bs: payload(rng, n.min(80), text) }
                }
                11..=13 => Op::Pop { h },
                14..=17 => {
                    let n = *rng.pick(&[0, 1, 22, 23, 24, 25, len.saturating_sub(1), len, len + 1, len / 2]);
                    Op::Truncate { h, n: if text { floor_boundary(v, n).max(if n > len { n } else { 0 }) } else { n } }
                }
                18 => Op::Clear { h },
                19..=20 => Op::ShrinkTo { h, n: *rng.pick(&[0, 10, 23, 24, len, len + 1, cap.saturating_sub(1), cap, cap + 1, usize::MAX]) },
                21..=22 => Op::ShrinkFit { h },
                23..=25 => Op::AsMut { h, i: *rng.pick(&[0, len.saturating_sub(1), len / 2, len]), b: *rng.pick(b"qQzZ#") },
                26..=28 => Op::ToMut { h, i: *rng.pick(&[0, len.saturating_sub(1), len / 2, len]), b: *rng.pick(b"qQzZ#") },
                29 => Op::Lower { h },
                30 => Op::Upper { h },
                31..=35 => {
                    let mut script = vec![];
                    if rng.chance(1, 8) {
                        // many single pushes: exercises Vec's amortised growth (minimum capacity 8, doubling)
                        if rng.chance(1, 2) {
                            script.push(VOp::Clear);
                        }
                        for _ in 0..(5 + rng.below(14)) {
                            script.push(VOp::Push(*rng.pick(b"pP7")));
                        }
                    }
                    for _ in 0..rng.below(4) {
                        script.push(match rng.below(6) {
                            0 => VOp::Push(*rng.pick(b"pP7")),
                            1 | 2 => {
                                let n = *rng.pick(&[0, 1, 5, 23, 24, 30, cap.saturating_sub(len), cap.saturating_sub(len) + 1]);
                                VOp::Ext(payload(rng, n.min(80), text))
                            }
                            3 | 4 => VOp::Trunc(floor_boundary(v, *rng.pick(&[0, 1, 23, 24, len.saturating_sub(1), len]))),
                            _ => VOp::Clear,
                        });
                    }
                    Op::Mutate { h, script, leak: rng.chance(1, 6) }
                }
                _ => Op::Spare { h },
            }
        } else {
            let h = pick_h(rng)?;
            match rng.below(12) {
                0..=1 => Op::IntoVec { h },
                2..=3 => Op::ToVec { h },
                4..=5 => Op::IntoBorrowed { h },
                _ => Op::Drop { h },
            }
        };
        if s.applicable(&op) {
            return Some(op);
        }
    }
    None
}

/// One random sequence; returns true if a disagreement was found (and reported).
fn random_sequence<T: Subject>(rng: &mut Rng, backend: &str, st: &mut Stats, lean: &mut Option<LeanDriver>, save: &Option<String>) -> Result<bool, String> {
    let ceil = if backend == "unique" || rng.chance(2, 5) { REAL_CEIL } else { *rng.pick(&[1, 1, 2, 3]) };
    let hdr = Hdr { ty: T::TY.into(), backend: backend.into(), ceil, srcs: default_srcs(T::text()) };
    let n = 6 + rng.below(35);
    let malformed = rng.chance(1, 5);
    let explicit_drops = rng.chance(1, 2);
    let mut ops: Vec<Op> = vec![];
    let mut found = None;
    {
        let mut s = Session::<T>::new(&hdr, lean.as_mut())?;
        let mut k = 0;
        while k < n + SLOTS {
            let op = if k < n {
                let mal = malformed && rng.chance(1, 2);
                match gen_op::<T>(rng, &s, mal) {
                    Some(op) => op,
                    None => break,
                }
            } else {
                if !explicit_drops {
                    break;
                }
                match s.live().first() {
                    Some(&h) => Op::Drop { h },
                    None => break,
                }
            };
            k += 1;
            match s.step(&op)? {
                StepRes::Skipped => {}
                StepRes::Done(info, d) => {
                    ops.push(op);
                    st.record(T::TY, backend, &info);
                    if d.is_some() {
                        found = d;
                        break;
                    }
                }
            }
        }
        found = s.finish(found)?;
    }
    st.sequences += 1;
    if let Some(d) = found {
        report::<T>(st, &hdr, ops, d, lean, save);
        return Ok(true);
    }
    Ok(false)
}

// ---------------------------------------------------------------------------------------------
// exhaustive enumeration over a boundary alphabet
// ---------------------------------------------------------------------------------------------

/// op templates resolved against the current state: target `t`, destination = first free slot
fn alphabet<T: Subject>(s: &Session<T>, t: usize) -> Vec<Op> {
    let text = T::text();
    let Some(v) = s.oracle.get(t).and_then(|o| o.as_deref()) else { return vec![] };
    let len = v.len();
    let Some(&d) = s.free().first() else { return vec![] };
    let pay = |n: usize| -> Vec<u8> { (0..n).map(|i| b"xYz"[i % 3]).collect() };
    let fb = |i: usize| floor_boundary(v, i);
    let mut a = vec![
        Op::Clone { h: t, d },
        Op::Slice { h: t, d, sb: Bd::U, eb: Bd::X(fb(24)), try_: false },
        Op::Slice { h: t, d, sb: Bd::I(fb(1)), eb: Bd::U, try_: false },
        Op::Slice { h: t, d, sb: Bd::U, eb: Bd::X(fb(23)), try_: true },
        Op::Slice { h: t, d, sb: Bd::I(fb(len.saturating_sub(24))), eb: Bd::U, try_: false },
        Op::Slice { h: t, d, sb: Bd::I(len + 1), eb: Bd::U, try_: true },
        Op::SliceRef { h: t, d, neg: false, rel: fb(1), plen: fb(len).saturating_sub(fb(1)), try_: true },
        Op::SliceRef { h: t, d, neg: false, rel: FOREIGN_REL, plen: 1, try_: true },
        Op::Adopt { h: t, d, off: 0, len: fb(24) },
        Op::Push { h: t, bs: pay(1) },
        Op::Push { h: t, bs: pay(24) },
        Op::Pop { h: t },
        Op::Truncate { h: t, n: fb(23) },
        Op::Truncate { h: t, n: fb(24) },
        Op::Truncate { h: t, n: fb(len.saturating_sub(1)) },
        Op::Clear { h: t },
        Op::ShrinkFit { h: t },
        Op::ShrinkTo { h: t, n: 30 },
        Op::AsMut { h: t, i: 0, b: b'#' },
        Op::ToMut { h: t, i: 0, b: b'#' },
        Op::Lower { h: t },
        Op::ToUpper { h: t, d },
        Op::Mutate { h: t, script: vec![], leak: false },
        Op::Mutate { h: t, script: vec![VOp::Ext(pay(1))], leak: false },
        Op::Mutate { h: t, script: vec![VOp::Ext(pay(24))], leak: false },
        Op::Mutate { h: t, script: vec![VOp::Clear], leak: false },
        Op::Mutate { h: t, script: vec![], leak: true },
        Op::IntoOwned { h: t, d },
        Op::IntoVec { h: t },
        Op::ToVec { h: t },
        Op::IntoBorrowed { h: t },
        Op::Repeat { h: t, d, n: 2 },
        Op::Repeat { h: t, d, n: 0 },
        Op::Spare { h: t },
        Op::WrapTrip { h: t },
        Op::Drop { h: t },
    ];
    if !text {
        a.push(Op::Mutate { h: t, script: vec![VOp::Trunc(23)], leak: false });
    }
    a.retain(|op| s.applicable(op));
    a
}

fn ctors(_text: bool) -> Vec<Op> {
    let pay = |n: usize| -> Vec<u8> {
        (0..n).map(|i| b"AbCdE"[i % 5]).collect()
    };
    vec![
        Op::FromSlice { d: 0, bs: pay(0) },
        Op::FromSlice { d: 0, bs: pay(1) },
        Op::FromSlice { d: 0, bs: pay(23) },
        Op::FromSlice { d: 0, bs: pay(24) },
        Op::FromSlice { d: 0, bs: pay(48) },
        Op::FromVec { d: 0, bs: pay(24), cap: 24 },
        Op::FromVec { d: 0, bs: pay(30), cap: 64 },
        Op::FromVec { d: 0, bs: pay(5), cap: 40 },
        Op::Borrowed { d: 0, src: 1, off: 0, len: 30 },
        Op::Borrowed { d: 0, src: 2, off: 1, len: 3 },
        Op::WithCap { d: 0, n: 24 },
        Op::WithCap { d: 0, n: 64 },
    ]
}

/// All sequences `ctor; op1; op2` (`depth` = 2) or `ctor; op1; op2; op3` over the alphabet,
/// ops addressing handle 0 or 1.  The implementation and the model are replayed from scratch
/// for each sequence (prefix states are not cloneable).
fn exhaustive<T: Subject>(backend: &str, ceil: u64, depth: usize, st: &mut Stats, lean: &mut Option<LeanDriver>, save: &Option<String>) -> Result<u64, String> {
    let hdr = Hdr { ty: T::TY.into(), backend: backend.into(), ceil, srcs: default_srcs(T::text()) };
    let mut count = 0u64;
    // enumerate by index paths; the alphabet at each level depends on the state reached
    fn rec<T: Subject>(
        hdr: &Hdr, prefix: &mut Vec<Op>, depth: usize, st: &mut Stats, lean: &mut Option<LeanDriver>, save: &Option<String>, count: &mut u64,
    ) -> Result<(), String> {
        if st.stop {
            return Ok(());
        }
        // run the prefix, compute the alphabet in the reached state
        let (alpha, dis) = {
            let mut s = Session::<T>::new(hdr, lean.as_mut())?;
            let mut dis = None;
            let last = prefix.len() - 1;
            for (k, op) in prefix.iter().enumerate() {
                if let StepRes::Done(info, d) = s.step(op)? {
                    if k == last {
                        st.record(T::TY, &hdr.backend, &info);
                    }
                    if d.is_some() {
                        dis = d;
                        break;
                    }
                }
            }
            let mut alpha = vec![];
            if dis.is_none() && prefix.len() <= depth {
                alpha = alphabet::<T>(&s, 0);
                alpha.extend(alphabet::<T>(&s, 1));
            }
            (alpha, s.finish(dis)?)
        };
        *count += 1;
        st.sequences += 1;
        if let Some(d) = dis {
            report::<T>(st, hdr, prefix.clone(), d, lean, save);
            return Ok(());
        }
        for op in alpha {
            if st.stop {
                break;
            }
            prefix.push(op);
            rec::<T>(hdr, prefix, depth, st, lean, save, count)?;
            prefix.pop();
        }
        Ok(())
    }
    for c in ctors(T::text()) {
        if !T::supports(&c) {
            continue;
        }
        let mut prefix = vec![c];
        rec::<T>(&hdr, &mut prefix, depth, st, lean, save, &mut count)?;
    }
    Ok(count)
}

/// Deterministic grid for the `HipStr` API proper: `truncate` at EVERY index 0..=len+1,
/// `try_slice`/`slice` at every pair of indices, `pop` down to empty, `push(char)` of every
/// class of scalar, `from_utf8`/`TryFrom` of every class of ill-formed sequence at every offset;
/// on inline, heap (exact and spare capacity), shared heap and borrowed values.
fn str_grid<T: Subject>(backend: &str, ceil: u64, st: &mut Stats, lean: &mut Option<LeanDriver>, save: &Option<String>) -> Result<u64, String> {
    if !T::text() {
        return Ok(0);
    }
    let t1 = "aé€🦀\u{BF}\u{FFFD}\u{10FFFF}e\u{301}".as_bytes().to_vec(); // 22 bytes: inline
    let mut t2 = t1.clone();
    t2.extend_from_slice("xyé€🦀z".as_bytes()); // 34 bytes: heap
    let hdr = Hdr { ty: T::TY.into(), backend: backend.into(), ceil, srcs: vec![t1.clone(), t2.clone()] };
    let reprs = |k: usize, t: &Vec<u8>| -> Vec<Vec<Op>> {
        vec![
            vec![Op::FromSlice { d: 0, bs: t.clone() }],
            vec![Op::Borrowed { d: 0, src: k, off: 0, len: t.len() }],
            vec![Op::FromVec { d: 0, bs: t.clone(), cap: t.len() + 9 }],
            vec![Op::FromSlice { d: 0, bs: t.clone() }, Op::Clone { h: 0, d: 1 }],
        ]
    };
    let mut seqs: Vec<Vec<Op>> = vec![];
    for (k, t) in [&t1, &t2].into_iter().enumerate() {
        let len = t.len();
        let nchars = std::str::from_utf8(t).unwrap().chars().count();
        for (ri, pre) in reprs(k, t).into_iter().enumerate() {
            for n in 0..=len + 1 {
                let mut q = pre.clone();
                q.push(Op::STruncate { h: 0, n });
                q.push(Op::SPop { h: 0 });
                seqs.push(q);
            }
            let mut q = pre.clone();
            for _ in 0..=nchars {
                q.push(Op::SPop { h: 0 });
            }
            seqs.push(q);
            for c in SCALARS {
                let mut q = pre.clone();
                q.push(Op::SPushChar { h: 0, c });
                q.push(Op::SPushChar { h: 0, c });
                seqs.push(q);
            }
            if ri == 2 {
                continue;
            }
            for a in 0..=len + 1 {
                for b in a.saturating_sub(1)..=len + 1 {
                    let mut q = pre.clone();
                    q.push(Op::SSlice { h: 0, d: 2, sb: Bd::I(a), eb: Bd::X(b), try_: true });
                    seqs.push(q);
                    if ri == 0 {
                        let mut q = pre.clone();
                        q.push(Op::SSlice { h: 0, d: 2, sb: if a > 0 { Bd::X(a - 1) } else { Bd::U }, eb: if b > 0 { Bd::I(b - 1) } else { Bd::X(0) }, try_: false });
                        seqs.push(q);
                    }
                }
            }
        }
    }
    let short = "aé€🦀".as_bytes().to_vec(); // 10 bytes
    let long = "0123456789abcdé€🦀é€🦀".as_bytes().to_vec(); // 32 bytes: the accepted prefix may be heap-sized
    for base in [&short, &long] {
        for frag in BAD_UTF8 {
            for at in 0..=base.len() {
                let mut v = base.clone();
                v.splice(at..at, frag.iter().copied());
                // the destination slot only varies the API route (hash of the line)
                seqs.push((0..4).map(|d| Op::SFromUtf8 { d, bs: v.clone() }).collect());
            }
        }
        for cut in 0..=base.len() {
            seqs.push((0..4).map(|d| Op::SFromUtf8 { d, bs: base[..cut].to_vec() }).collect());
        }
    }
    let n = seqs.len() as u64;
    for q in seqs {
        let r = run_ops::<T>(&hdr, &q, lean.as_mut())?;
        for i in &r.infos {
            st.record(T::TY, backend, i);
        }
        st.sequences += 1;
        if let Some(d) = r.dis {
            let applied: Vec<Op> = r.applied.iter().filter_map(|l| Op::parse(l)).collect();
            report::<T>(st, &hdr, applied, d, lean, save);
            if st.stop {
                break;
            }
        }
    }
    Ok(n)
}

/// Deterministic grid for `shrink_to` / `shrink_to_fit`: values of `with_capacity(k)` lineage (the
/// only non-normalised ones) and adopted Vecs with spare capacity, at len 0,1,5,22,23,24,30, sole
/// and shared, shrunk to n in {0, len, 22, 23, 24, 100} and to fit.
fn norm_grid<T: Subject>(backend: &str, st: &mut Stats, lean: &mut Option<LeanDriver>, save: &Option<String>) -> Result<u64, String> {
    let hdr = Hdr { ty: T::TY.into(), backend: backend.into(), ceil: REAL_CEIL, srcs: default_srcs(T::text()) };
    let pay = |n: usize| -> Vec<u8> { (0..n).map(|i| b"shRink"[i % 6]).collect() };
    let mut seqs: Vec<Vec<Op>> = vec![];
    for len in [0usize, 1, 5, 22, 23, 24, 30] {
        let mut ctors: Vec<Vec<Op>> = vec![];
        for k in [24usize, 64] {
            ctors.push(vec![Op::WithCap { d: 0, n: k }, Op::Push { h: 0, bs: pay(len) }]);
        }
        ctors.push(vec![Op::FromVec { d: 0, bs: pay(len), cap: len + 40 }]);
        for c in ctors {
            if !c.iter().all(|o| T::supports(o)) {
                continue;
            }
            for shared in [false, true] {
                let mut ops: Vec<Op> = [0, len, 22, 23, 24, 100].iter().map(|&n| Op::ShrinkTo { h: 0, n }).collect();
                ops.push(Op::ShrinkFit { h: 0 });
                for op in ops {
                    let mut q = c.clone();
                    if shared {
                        q.push(Op::Clone { h: 0, d: 1 });
                    }
                    q.push(op);
                    q.push(Op::ShrinkFit { h: 0 });
                    seqs.push(q);
                }
            }
        }
    }
    let n = seqs.len() as u64;
    for q in seqs {
        if st.stop {
            break;
        }
        let r = run_ops::<T>(&hdr, &q, lean.as_mut())?;
        for i in &r.infos {
            st.record(T::TY, backend, i);
        }
        st.sequences += 1;
        if let Some(d) = r.dis {
            let applied: Vec<Op> = r.applied.iter().filter_map(|l| Op::parse(l)).collect();
            report::<T>(st, &hdr, applied, d, lean, save);
        }
    }
    Ok(n)
}

/// Deterministic grid of impure ranges (`HipByt`/`HipStr` `slice`/`try_slice`): a valid first
/// reading (honest for 1 or 2 queries: debug builds read the range once more), then every
/// second reading over a small index grid (shorter, longer, off a char boundary, reversed, out of
/// range); haystacks with multi-byte scalars; inline, borrowed, heap, offset-heap values.
fn flip_grid<T: Subject>(backend: &str, st: &mut Stats, lean: &mut Option<LeanDriver>, save: &Option<String>) -> Result<u64, String> {
    let text = T::text();
    if !T::supports(&Op::Flip { h: 0, readings: vec![(Bd::U, Bd::U)], try_: true, s: text }) {
        return Ok(0);
    }
    let h1 = "€".as_bytes().to_vec();
    let h2 = "a€é🦀b".as_bytes().to_vec(); // 11 bytes
    let h3 = "0123€é🦀\u{10FFFF}abcdefgh\u{FFFD}\u{301}xyz€".as_bytes().to_vec(); // 38 bytes: heap
    let hdr = Hdr { ty: T::TY.into(), backend: backend.into(), ceil: REAL_CEIL, srcs: vec![h1.clone(), h2.clone(), h3.clone()] };
    let mut seqs: Vec<Vec<Op>> = vec![];
    for (k, hay) in [&h1, &h2, &h3].into_iter().enumerate() {
        let len = hay.len();
        // (constructor ops, handle to slice)
        let mut reprs: Vec<(Vec<Op>, usize)> = vec![
            (vec![Op::FromSlice { d: 0, bs: hay.clone() }], 0),
            (vec![Op::Borrowed { d: 0, src: k, off: 0, len }], 0),
            (vec![Op::FromVec { d: 0, bs: hay.clone(), cap: len + 30 }], 0),
        ];
        if len > 30 {
            // an offset view into a shared heap buffer
            reprs.push((vec![Op::FromSlice { d: 0, bs: hay.clone() }, Op::Slice { h: 0, d: 1, sb: Bd::I(4), eb: Bd::U, try_: false }], 1));
        }
        let mut idx: Vec<usize> = if !text {
            // no char boundaries to miss on raw bytes: a coarse grid
            vec![0, 1, len / 2, len.saturating_sub(1), len, len + 1]
        } else if len <= 11 {
            (0..=len + 1).collect()
        } else {
            vec![0, 1, 4, 5, 6, 7, len - 4, len - 1, len, len + 1]
        };
        idx.sort();
        idx.dedup();
        for (pre, h) in reprs {
            let vlen = if h == 1 { len - 4 } else { len };
            let view = if h == 1 { &hay[4..] } else { &hay[..] };
            let mut firsts = vec![(0usize, vlen)];
            if vlen > 3 {
                firsts.push((floor_boundary(view, 1), floor_boundary(view, vlen - 1)));
            }
            for (a0, b0) in firsts {
                for honest in 1..=2 {
                    for &a in &idx {
                        for &b in &idx {
                            if a > vlen + 1 || b > vlen + 1 {
                                continue;
                            }
                            let mut readings = vec![(Bd::I(a0), Bd::X(b0)); honest];
                            readings.push((Bd::I(a), Bd::X(b)));
                            let mut q = pre.clone();
                            q.push(Op::Flip { h, readings, try_: (a + b) % 4 != 0, s: text });
                            seqs.push(q);
                        }
                    }
                    let mut q = pre.clone();
                    q.push(Op::Flip { h, readings: vec![(Bd::I(a0), Bd::X(b0)), (Bd::I(usize::MAX), Bd::I(usize::MAX)), (Bd::U, Bd::X(1))], try_: true, s: text });
                    seqs.push(q);
                }
            }
        }
    }
    let n = seqs.len() as u64;
    for q in seqs {
        if st.stop {
            break;
        }
        let r = run_ops::<T>(&hdr, &q, lean.as_mut())?;
        for i in &r.infos {
            st.record(T::TY, backend, i);
        }
        st.sequences += 1;
        if let Some(d) = r.dis {
            let applied: Vec<Op> = r.applied.iter().filter_map(|l| Op::parse(l)).collect();
            report::<T>(st, &hdr, applied, d, lean, save);
        }
    }
    Ok(n)
}

// ---------------------------------------------------------------------------------------------
// replay, campaign, main
// ---------------------------------------------------------------------------------------------

/// dispatch on (type, backend) names
macro_rules! dispatch {
    ($ty:expr, $backend:expr, $f:ident, $($arg:expr),*) => {
        match ($ty, $backend) {
            ("byt", "arc") => $f::<HipByt<'static, Arc>>($($arg),*),
            ("byt", "rc") => $f::<HipByt<'static, Rc>>($($arg),*),
            ("byt", "unique") => $f::<HipByt<'static, Unique>>($($arg),*),
            ("str", "arc") => $f::<HipStr<'static, Arc>>($($arg),*),
            ("str", "rc") => $f::<HipStr<'static, Rc>>($($arg),*),
            ("str", "unique") => $f::<HipStr<'static, Unique>>($($arg),*),
            ("os", "arc") => $f::<HipOsStr<'static, Arc>>($($arg),*),
            ("os", "rc") => $f::<HipOsStr<'static, Rc>>($($arg),*),
            ("os", "unique") => $f::<HipOsStr<'static, Unique>>($($arg),*),
            ("path", "arc") => $f::<HipPath<'static, Arc>>($($arg),*),
            ("path", "rc") => $f::<HipPath<'static, Rc>>($($arg),*),
            ("path", "unique") => $f::<HipPath<'static, Unique>>($($arg),*),
            (t, b) => Err(format!("unknown type/backend {t}/{b}")),
        }
    };
}

fn replay_one<T: Subject>(hdr: &Hdr, ops: &[Op], st: &mut Stats, lean: &mut Option<LeanDriver>, save: &Option<String>) -> Result<bool, String> {
    let r = run_ops::<T>(hdr, ops, lean.as_mut())?;
    for i in &r.infos {
        st.record(T::TY, &hdr.backend, i);
    }
    st.sequences += 1;
    if let Some(d) = r.dis {
        let applied: Vec<Op> = r.applied.iter().filter_map(|l| Op::parse(l)).collect();
        report::<T>(st, hdr, applied, d, lean, save);
        return Ok(true);
    }
    Ok(false)
}

fn replay_lines(lines: &[String], st: &mut Stats, lean: &mut Option<LeanDriver>, save: &Option<String>) -> Result<bool, String> {
    let (mut hdr, ops) = parse_sequence(lines)?;
    if hdr.srcs.is_empty() {
        hdr.srcs = default_srcs(hdr.ty == "str");
    }
    let (ty, backend) = (hdr.ty.clone(), hdr.backend.clone());
    dispatch!(ty.as_str(), backend.as_str(), replay_one, &hdr, &ops, st, lean, save)
}

/// `--replay`: a `.ops` text file, or JSON: `{"input":[…]}`, a disagreement record, or a whole
/// stats file (every disagreement is replayed).
fn replay_file(path: &str, st: &mut Stats, lean: &mut Option<LeanDriver>, save: &Option<String>) -> Result<(), String> {
    let text = std::fs::read_to_string(path).map_err(|e| format!("{path}: {e}"))?;
    let mut seqs: Vec<Vec<String>> = vec![];
    if let Ok(v) = serde_json::from_str::<serde_json::Value>(&text) {
        let get = |v: &serde_json::Value| -> Option<Vec<String>> {
            v.get("input")?.as_array().map(|a| a.iter().filter_map(|x| x.as_str().map(str::to_string)).collect())
        };
        if let Some(i) = get(&v) {
            seqs.push(i);
        } else if let Some(ds) = v.get("disagreements").and_then(|d| d.as_array()) {
            seqs.extend(ds.iter().filter_map(get));
        }
        if seqs.is_empty() {
            return Err(format!("{path}: no `input` array found"));
        }
    } else {
        seqs.push(text.lines().flat_map(|l| l.split(" ; ")).map(str::to_string).collect());
    }
    for s in seqs {
        let bad = replay_lines(&s, st, lean, save)?;
        eprintln!("replay: {} line(s): {}", s.len(), if bad { "DISAGREEMENT" } else { "agreement" });
    }
    Ok(())
}

fn campaign<T: Subject>(backend: &str, n: usize, seed: u64, st: &mut Stats, lean: &mut Option<LeanDriver>, save: &Option<String>) -> Result<(), String> {
    // one PRNG stream per (type, backend), all derived from the seed
    let salt = T::TY.bytes().chain(backend.bytes()).fold(0u64, |a, b| a.wrapping_mul(131).wrapping_add(b as u64));
    let mut rng = Rng::new(seed.wrapping_mul(0x9E37_79B9).wrapping_add(salt));
    for _ in 0..n {
        random_sequence::<T>(&mut rng, backend, st, lean, save)?;
        if st.stop {
            break;
        }
    }
    Ok(())
}

fn run_all(cli: &hipverif_harness::util::Cli, st: &mut Stats, lean: &mut Option<LeanDriver>, save: &Option<String>) -> Result<String, String> {
    let thorough = cli.tier == "thorough";
    let mult = if thorough { 12 } else { 1 };
    // development aids: `--div N` divides the random counts, `--no-exhaustive`
    let div: usize = cli.extra.iter().position(|a| a == "--div").and_then(|i| cli.extra.get(i + 1)).and_then(|v| v.parse().ok()).unwrap_or(1);
    let no_exh = cli.extra.iter().any(|a| a == "--no-exhaustive");
    let verbose = cli.extra.iter().any(|a| a == "--verbose");
    // corpus of minimised past failures first
    let corpus = "/verif/corpus/core";
    let mut corpus_n = 0;
    if let Ok(rd) = std::fs::read_dir(corpus) {
        let mut files: Vec<_> = rd.filter_map(|e| e.ok()).map(|e| e.path()).filter(|p| p.extension().map_or(false, |x| x == "ops")).collect();
        files.sort();
        for f in files {
            let text = std::fs::read_to_string(&f).map_err(|e| format!("{}: {e}", f.display()))?;
            let lines: Vec<String> = text.lines().map(str::to_string).collect();
            replay_lines(&lines, st, lean, save).map_err(|e| format!("{}: {e}", f.display()))?;
            corpus_n += 1;
        }
    }
    let mut exh = 0u64;
    for b in ["arc", "rc", "unique"] {
        let t0 = std::time::Instant::now();
        // the deterministic grids first: their failing inputs are the smallest
        for ty in ["byt", "str", "os", "path"] {
            exh += dispatch!(ty, b, norm_grid, b, st, lean, save)?;
        }
        exh += dispatch!("str", b, str_grid, b, REAL_CEIL, st, lean, save)?;
        exh += dispatch!("byt", b, flip_grid, b, st, lean, save)?;
        exh += dispatch!("str", b, flip_grid, b, st, lean, save)?;
        dispatch!("byt", b, campaign, b, 1500 * mult / div, cli.seed, st, lean, save)?;
        dispatch!("str", b, campaign, b, 800 * mult / div, cli.seed, st, lean, save)?;
        dispatch!("os", b, campaign, b, 400 * mult / div, cli.seed, st, lean, save)?;
        dispatch!("path", b, campaign, b, 300 * mult / div, cli.seed, st, lean, save)?;
        if verbose {
            eprintln!("{b}: random done, {} steps, {:.1}s", st.evaluations, t0.elapsed().as_secs_f64());
        }

        if no_exh {
            continue;
        }
        let depth = if thorough { 3 } else { 2 };
        exh += dispatch!("byt", b, exhaustive, b, REAL_CEIL, depth, st, lean, save)?;
        if b != "unique" {
            exh += dispatch!("byt", b, exhaustive, b, 1, 2, st, lean, save)?;
        }
        if b == "arc" {
            exh += dispatch!("str", b, exhaustive, b, REAL_CEIL, 2, st, lean, save)?;
            exh += dispatch!("os", b, exhaustive, b, REAL_CEIL, 2, st, lean, save)?;
            exh += dispatch!("path", b, exhaustive, b, REAL_CEIL, 2, st, lean, save)?;
        }
        if verbose {
            eprintln!("{b}: exhaustive done, {exh} sequences, {} steps, {:.1}s", st.evaluations, t0.elapsed().as_secs_f64());
        }
    }
    Ok(format!(
        "per backend (Arc, Rc, Unique): {} random sequences of <= 46 ops (HipByt {}, HipStr {}, HipOsStr {}, HipPath {}), one PRNG from --seed, \
         type-directed generator biased to lengths 0,1,22..26,46..49, sharing pools of <= {SLOTS} handles, 1/5 of the sequences with a malformed stream \
         (bad ranges incl. usize::MAX, foreign/before/after slice_ref probes, oversized inline, overflowing repeat); 3/5 of the Arc/Rc sequences run with a \
         model ceiling of 1..3 stored counts and the real counter offset to hit the real ceiling at the same moment (C09); \
         plus exhaustive enumeration of every sequence ctor;op1;op2{} over a boundary alphabet of 12 constructors and ~36 op templates on handles 0/1 \
         (HipByt all backends, also with ceiling 1; HipStr/HipOsStr/HipPath on Arc), and a HipStr grid per backend for the HipStr API proper \
         (s_truncate at every index 0..=len+1, s_try_slice/s_slice at every index pair, s_pop to empty, s_push_char of 12 scalar classes, \
         s_from_utf8 via from_utf8/TryFrom<&[u8]>/TryFrom<Vec<u8>> of 26 classes of ill-formed sequence at every offset; inline/heap/shared/borrowed; \
         arguments NOT restricted to char boundaries; oracle = String/str; monitor: every live HipStr is well-formed UTF-8 after every step); \
         {exh} enumerated sequences in all; 3/10 of the random HipStr ops are such unrestricted s_* ops; corpus files replayed first: {corpus_n}. \
         Every step: implementation vs Lean model (return value, 5 allocator event counters, per-handle tag/len/capacity/uniqueness/share count/owner Vec len/\
         canonical block/offset/bytes), implementation vs std oracle (return value, contents of every handle, Display/Debug text), Lean spec vs std oracle, \
         heap monitors (views inside live blocks, red zones, poisoned quarantine, layouts, end-of-sequence balance). \
         distinct_nontrivial = distinct (op, representation of the target before the op [I|B|H u/s=unique/shared o=offset view t=stale tail], \
         outcome class [result representation / return class / allocator events]).",
        3000 * mult, 1500 * mult, 800 * mult, 400 * mult, 300 * mult,
        if thorough { ";op3 (HipByt, real ceiling)" } else { "" },
    ))
}

fn main() {
    let cli = parse_cli();
    // panics of the implementation (inside the counted region) are expected outcomes and stay
    // silent; a panic anywhere else is a harness bug and must be visible
    std::panic::set_hook(Box::new(|info| {
        if alloc::current_mode() != alloc::COUNT && !QUIET.load(std::sync::atomic::Ordering::Relaxed) {
            let prev = alloc::set_mode(alloc::OFF);
            eprintln!("coredrive: harness panic: {info}");
            alloc::set_mode(prev);
        }
    }));
    let started = std::time::Instant::now();
    let mut st = Stats::default();
    st.out = cli.out.clone();
    st.started = Some(started);
    for (k, v) in [
        ("rule", serde_json::json!("run in progress (stats written early because a disagreement was recorded)")),
        ("exhaustive", false.into()),
        ("tier", cli.tier.clone().into()),
        ("seed", cli.seed.into()),
        ("profile", profile().into()),
        ("with_model", cli.lean.is_some().into()),
        ("complete", false.into()),
    ] {
        st.meta.insert(k.into(), v);
    }
    let mut lean = match &cli.lean {
        Some(p) => match LeanDriver::spawn(p) {
            Ok(l) => Some(l),
            Err(e) => {
                eprintln!("cannot start lean driver {p}: {e}");
                std::process::exit(2);
            }
        },
        None => None,
    };
    let save = cli.extra.iter().position(|a| a == "--save-corpus").and_then(|i| cli.extra.get(i + 1).cloned());
    let res = match &cli.replay {
        Some(f) => replay_file(f, &mut st, &mut lean, &save).map(|_| format!("replay of {f}")),
        None => run_all(&cli, &mut st, &mut lean, &save),
    };
    let rule = match res {
        Ok(r) => r,
        Err(e) => {
            st.flush();
            eprintln!("internal error: {e}");
            std::process::exit(2);
        }
    };
    st.meta.insert("rule".into(), rule.into());
    st.meta.insert("complete".into(), true.into());
    st.flush();
    if cli.out.is_none() {
        println!("{}", st.json());
    }
    eprintln!(
        "coredrive[{}]: {} steps in {} sequences, {} distinct (op,repr,outcome), {} disagreement(s), {:.1}s",
        profile(), st.evaluations, st.sequences, st.triples.len(), st.disagreements.len(), started.elapsed().as_secs_f64()
    );
    std::process::exit(if st.disagreements.is_empty() { 0 } else { 1 });
}
