//! C12 differential: `Eq`/`Ord`/`Hash`/`Borrow` of the Hip types vs std on the std views vs the Lean
//! model (`lean/HipVerif/Model/Views.lean` through `views_driver`).
//!
//! CLI (CONVENTIONS.md): `cmpdrive --tier quick|thorough --seed N --lean <views_driver> --out stats.json
//! [--replay file.json] [--mode all|diff|probe] [--repo <dir>] [--keep]`; exit 0 = no disagreement, 1 = disagreement(s), 2 = internal error.
//!
//! Inputs: every ordered pair of byte strings of length ≤ 3 over {a, b, /, ., 0x80} (0x80 only where
//! the type is not UTF-8) plus heap-sized (> 23 bytes) strings with common prefixes.
//! Impl side: every comparison impl the crate offers — Hip×Hip for all backend pairs, Hip×std in both
//! operand orders for every std type of the `symmetric_*!` tables — on borrowed / inline / heap
//! representations: `==`, `!=`, `partial_cmp`, `<`, `<=`, `>`, `>=`, `cmp`; `Hash::hash` with a
//! recording `Hasher`; `HashMap`/`BTreeMap` lookups and the `Borrow` laws through every `Borrow` impl.
//! Oracle: std (and bstr) on the std view types. Model: `eqV`/`cmpV`/`hashStreamV` on the view Lean's
//! `stdView` table assigns to the operand pair.
//!
//! Modes (`--mode all|diff|probe`, default `all`; `--repo <dir>` = tree the probe program is built
//! against, default `/repo`; `--keep` keeps the generated crate):
//! * `diff`: the hand-written differential described above.
//! * `probe`: GENERATED runtime probes. The row list is read at run time from the driver
//!   (`probe_rows`: every row of `Gen/CmpImpls.table` and `.borrows` with operand types, the std view
//!   the model expects, ok|KNOWN|BAD, `file:line`); for each row a block is generated that only
//!   instantiates the generic law checks of `probes/cmp_prelude.rs` with the row's types
//!   (`borrow_laws::<O, T>`, `eq_row/eq_sym::<A, B>`, `ord_row/ord_sym`, `cmp_row`, `hash_row`,
//!   `eq_marker`) on a fixed corpus; one throw-away crate under `/tmp/scratch/cmpprobe-<pid>/`
//!   (path-depends on the repo, offline) is built and run once. A violated law is an
//!   `impl-vs-oracle` disagreement (source `impl`) carrying the row's `file:line` and the sample,
//!   except on the rows the model marks KNOWN (D7/D8), which feed `known_findings_reproduced`.
//!   A row the generator cannot spell, or whose block rustc rejects (stale table), is a `monitor`
//!   disagreement with source `coverage` (fail closed); the other rows still run.
//!   So a NEW impl listed by the translator is probed without touching this file; an impl that has
//!   neither hand-written calls nor an executed probe is an internal error.
//!
//! The two known findings (D7 `Borrow<OsStr> for HipPath`, D8 `Borrow<BStr> for HipStr`) are
//! re-confirmed on the implementation and reported under `known_findings_reproduced`; any other
//! incoherence is a disagreement. The set of impls exercised is checked against the generated table
//! (`rows` / `borrows` of the driver): an impl the harness does not exercise is an internal error.

use std::borrow::{Borrow, Cow};
use std::cmp::Ordering;
use std::collections::{BTreeMap, BTreeSet, HashMap};
use std::ffi::{OsStr, OsString};
use std::hash::{BuildHasherDefault, DefaultHasher, Hash, Hasher};
use std::io::{BufRead, BufReader, Write};
use std::os::unix::ffi::OsStrExt;
use std::panic::{catch_unwind, AssertUnwindSafe};
use std::path::{Path, PathBuf};
use std::process::{Child, ChildStdin, ChildStdout, Command, Stdio};

use bstr::{BStr, BString};
use hipstr::bytes::HipByt;
use hipstr::os_string::HipOsStr;
use hipstr::path::HipPath;
use hipstr::string::HipStr;
use hipstr::{Arc, Backend, Rc, Unique};
use hipverif_harness::util::{hex, parse_cli, unhex};
use serde_json::{json, Value};

// ---------------------------------------------------------------------------------------------
// Lean driver (pipelined)

struct Lean {
    child: Child,
    stdin: Option<ChildStdin>,
    stdout: BufReader<ChildStdout>,
}

impl Lean {
    fn spawn(path: &str) -> std::io::Result<Lean> {
        let mut child = Command::new(path).stdin(Stdio::piped()).stdout(Stdio::piped()).stderr(Stdio::inherit()).spawn()?;
        let stdin = child.stdin.take();
        let stdout = BufReader::new(child.stdout.take().unwrap());
        Ok(Lean { child, stdin, stdout })
    }
    fn read_line(&mut self) -> Result<String, String> {
        let mut s = String::new();
        let n = self.stdout.read_line(&mut s).map_err(|e| e.to_string())?;
        if n == 0 {
            return Err("lean driver closed its output".into());
        }
        while s.ends_with('\n') || s.ends_with('\r') {
            s.pop();
        }
        Ok(s)
    }
    /// Sends all lines (writer thread) and reads one answer line per input line.
    fn batch(&mut self, lines: Vec<String>) -> Result<Vec<String>, String> {
        let n = lines.len();
        let mut stdin = self.stdin.take().ok_or("lean stdin gone")?;
        let writer = std::thread::spawn(move || {
            let mut buf = String::new();
            for l in &lines {
                buf.push_str(l);
                buf.push('\n');
                if buf.len() > 1 << 16 {
                    if stdin.write_all(buf.as_bytes()).is_err() {
                        return stdin;
                    }
                    buf.clear();
                }
            }
            let _ = stdin.write_all(buf.as_bytes());
            let _ = stdin.flush();
            stdin
        });
        let mut out = Vec::with_capacity(n);
        let mut err = None;
        for _ in 0..n {
            match self.read_line() {
                Ok(l) => out.push(l),
                Err(e) => {
                    err = Some(e);
                    break;
                }
            }
        }
        self.stdin = Some(writer.join().map_err(|_| "writer thread panicked")?);
        match err {
            Some(e) => Err(e),
            None => Ok(out),
        }
    }
    fn ask(&mut self, line: &str) -> Result<String, String> {
        Ok(self.batch(vec![line.to_string()])?.pop().unwrap())
    }
    /// `rows` / `borrows`: lines until the one starting with `end `.
    fn ask_multi(&mut self, line: &str) -> Result<Vec<String>, String> {
        let stdin = self.stdin.as_mut().ok_or("lean stdin gone")?;
        stdin.write_all(line.as_bytes()).and_then(|_| stdin.write_all(b"\n")).and_then(|_| stdin.flush()).map_err(|e| e.to_string())?;
        let mut out = vec![];
        loop {
            let l = self.read_line()?;
            let end = l.starts_with("end ");
            out.push(l);
            if end {
                return Ok(out);
            }
        }
    }
}

impl Drop for Lean {
    fn drop(&mut self) {
        self.stdin.take();
        let _ = self.child.kill();
        let _ = self.child.wait();
    }
}

// ---------------------------------------------------------------------------------------------
// views, model tables

#[derive(Clone, Copy, PartialEq, Eq, Hash, Debug, PartialOrd, Ord)]
enum View {
    Bytes = 0,
    Str = 1,
    OsStr = 2,
    Path = 3,
}

const VIEWS: [View; 4] = [View::Bytes, View::Str, View::OsStr, View::Path];

impl View {
    fn name(self) -> &'static str {
        ["bytes", "str", "osstr", "path"][self as usize]
    }
    fn parse(s: &str) -> Option<View> {
        VIEWS.iter().copied().find(|v| v.name() == s)
    }
}

fn ord_name(o: Ordering) -> &'static str {
    match o {
        Ordering::Less => "lt",
        Ordering::Equal => "eq",
        Ordering::Greater => "gt",
    }
}

fn parse_ord(s: &str) -> Option<Ordering> {
    Some(match s {
        "lt" => Ordering::Less,
        "eq" => Ordering::Equal,
        "gt" => Ordering::Greater,
        _ => return None,
    })
}

/// Everything the run needs from the model, fetched up front in a few pipelined batches.
struct Model {
    n: usize,
    /// `[view][i * n + j]` = (eqV, cmpV)
    rel: Vec<Vec<(bool, Ordering)>>,
    /// `[view][i]` = hashStreamV
    hash: Vec<Vec<Vec<u8>>>,
    /// pathHashLoop
    hashloop: Vec<Vec<u8>>,
    /// `components` line
    comps: Vec<String>,
    views: HashMap<(String, String), Option<View>>,
    hashviews: HashMap<String, View>,
}

impl Model {
    fn fetch(lean: &mut Lean, pool: &[Vec<u8>]) -> Result<Model, String> {
        let n = pool.len();
        let hx: Vec<String> = pool.iter().map(|b| hex(b)).collect();
        let mut rel = vec![];
        for v in VIEWS {
            let mut lines = Vec::with_capacity(n * n);
            for i in 0..n {
                for j in 0..n {
                    lines.push(format!("rel {} {} {}", v.name(), hx[i], hx[j]));
                }
            }
            let ans = lean.batch(lines)?;
            let mut t = Vec::with_capacity(n * n);
            for a in ans {
                let mut it = a.split(' ');
                let e = match it.next() {
                    Some("true") => true,
                    Some("false") => false,
                    _ => return Err(format!("bad `rel` answer `{a}`")),
                };
                let c = it.next().and_then(parse_ord).ok_or_else(|| format!("bad `rel` answer `{a}`"))?;
                t.push((e, c));
            }
            rel.push(t);
        }
        let mut hash = vec![];
        for v in VIEWS {
            let ans = lean.batch(hx.iter().map(|h| format!("hash {} {h}", v.name())).collect())?;
            hash.push(ans.iter().map(|a| unhex(a).ok_or_else(|| format!("bad `hash` answer `{a}`"))).collect::<Result<Vec<_>, _>>()?);
        }
        let ans = lean.batch(hx.iter().map(|h| format!("hashloop {h}")).collect())?;
        let hashloop = ans.iter().map(|a| unhex(a).ok_or_else(|| format!("bad `hashloop` answer `{a}`"))).collect::<Result<Vec<_>, _>>()?;
        let comps = lean.batch(hx.iter().map(|h| format!("components {h}")).collect())?;
        Ok(Model { n, rel, hash, hashloop, comps, views: HashMap::new(), hashviews: HashMap::new() })
    }
    fn rel(&self, v: View, i: usize, j: usize) -> (bool, Ordering) {
        self.rel[v as usize][i * self.n + j]
    }
    fn view(&mut self, lean: &mut Lean, l: &str, r: &str) -> Result<Option<View>, String> {
        if let Some(v) = self.views.get(&(l.to_string(), r.to_string())) {
            return Ok(*v);
        }
        let a = lean.ask(&format!("view {l} {r}"))?;
        let v = if a == "none" { None } else { Some(View::parse(&a).ok_or_else(|| format!("bad `view` answer `{a}`"))?) };
        self.views.insert((l.to_string(), r.to_string()), v);
        Ok(v)
    }
    fn hashview(&mut self, lean: &mut Lean, l: &str) -> Result<View, String> {
        if let Some(v) = self.hashviews.get(l) {
            return Ok(*v);
        }
        let a = lean.ask(&format!("hashview {l}"))?;
        let v = View::parse(&a).ok_or_else(|| format!("bad `hashview` answer `{a}`"))?;
        self.hashviews.insert(l.to_string(), v);
        Ok(v)
    }
}

// ---------------------------------------------------------------------------------------------
// recording hasher

#[derive(Default)]
struct Rec(Vec<u8>);

impl Hasher for Rec {
    fn write(&mut self, bytes: &[u8]) {
        self.0.extend_from_slice(bytes);
    }
    fn finish(&self) -> u64 {
        0
    }
}

fn stream<T: Hash + ?Sized>(t: &T) -> Vec<u8> {
    let mut r = Rec::default();
    t.hash(&mut r);
    r.0
}

type FixedState = BuildHasherDefault<DefaultHasher>;

// ---------------------------------------------------------------------------------------------
// the four Hip kinds behind one interface

trait HipKind<'a>: Sized + Clone {
    fn accepts(b: &[u8]) -> bool;
    fn borrowed(b: &'a [u8]) -> Self;
    fn owned(b: &[u8]) -> Self;
    fn rep(&self) -> &'static str;
    /// sub-value `[a..b]` sharing the buffer when the representation allows it (zero-copy view)
    fn sub(&self, a: usize, b: usize) -> Self;
    fn prefix(&self, k: usize) -> Self {
        self.sub(0, k)
    }
    fn bytes(&self) -> Vec<u8>;
    /// the lines of `text` as zero-copy views of ONE heap value (through `HipStr::lines`)
    fn line_views(text: &str) -> Vec<Self>;
}

fn str_lines<'a, B: Backend>(text: &str) -> Vec<HipStr<'a, B>> {
    let t: HipStr<'a, B> = HipStr::from(text.to_string());
    t.lines().collect()
}

fn rep3(inline: bool, borrowed: bool, allocated: bool) -> &'static str {
    match (inline, borrowed, allocated) {
        (true, false, false) => "inline",
        (false, true, false) => "borrowed",
        (false, false, true) => "heap",
        _ => "invalid-rep",
    }
}

impl<'a, B: Backend> HipKind<'a> for HipByt<'a, B> {
    fn accepts(_: &[u8]) -> bool {
        true
    }
    fn borrowed(b: &'a [u8]) -> Self {
        HipByt::borrowed(b)
    }
    fn owned(b: &[u8]) -> Self {
        HipByt::from(b)
    }
    fn rep(&self) -> &'static str {
        rep3(self.is_inline(), self.is_borrowed(), self.is_allocated())
    }
    fn sub(&self, a: usize, b: usize) -> Self {
        self.slice(a..b)
    }
    fn bytes(&self) -> Vec<u8> {
        self.as_slice().to_vec()
    }
    fn line_views(text: &str) -> Vec<Self> {
        str_lines::<B>(text).into_iter().map(HipByt::from).collect()
    }
}

impl<'a, B: Backend> HipKind<'a> for HipStr<'a, B> {
    fn accepts(b: &[u8]) -> bool {
        std::str::from_utf8(b).is_ok()
    }
    fn borrowed(b: &'a [u8]) -> Self {
        HipStr::borrowed(std::str::from_utf8(b).unwrap())
    }
    fn owned(b: &[u8]) -> Self {
        HipStr::from(std::str::from_utf8(b).unwrap())
    }
    fn rep(&self) -> &'static str {
        rep3(self.is_inline(), self.is_borrowed(), self.is_allocated())
    }
    fn sub(&self, a: usize, b: usize) -> Self {
        self.slice(a..b)
    }
    fn bytes(&self) -> Vec<u8> {
        self.as_str().as_bytes().to_vec()
    }
    fn line_views(text: &str) -> Vec<Self> {
        str_lines::<B>(text)
    }
}

impl<'a, B: Backend> HipKind<'a> for HipOsStr<'a, B> {
    fn accepts(_: &[u8]) -> bool {
        true
    }
    fn borrowed(b: &'a [u8]) -> Self {
        HipOsStr::borrowed(OsStr::from_bytes(b))
    }
    fn owned(b: &[u8]) -> Self {
        HipOsStr::from(OsStr::from_bytes(b))
    }
    fn rep(&self) -> &'static str {
        rep3(self.is_inline(), self.is_borrowed(), self.is_allocated())
    }
    fn sub(&self, a: usize, b: usize) -> Self {
        let sub = OsStr::from_bytes(&self.as_os_str().as_bytes()[a..b]);
        self.slice_ref(sub)
    }
    fn bytes(&self) -> Vec<u8> {
        self.as_os_str().as_bytes().to_vec()
    }
    fn line_views(text: &str) -> Vec<Self> {
        str_lines::<B>(text).into_iter().map(HipOsStr::from).collect()
    }
}

impl<'a, B: Backend> HipKind<'a> for HipPath<'a, B> {
    fn accepts(_: &[u8]) -> bool {
        true
    }
    fn borrowed(b: &'a [u8]) -> Self {
        HipPath::borrowed(Path::new(OsStr::from_bytes(b)))
    }
    fn owned(b: &[u8]) -> Self {
        HipPath::from(Path::new(OsStr::from_bytes(b)))
    }
    fn rep(&self) -> &'static str {
        rep3(self.is_inline(), self.is_borrowed(), self.is_allocated())
    }
    fn sub(&self, a: usize, b: usize) -> Self {
        let os: HipOsStr<'a, B> = self.clone().into_os_str();
        HipPath::from(HipKind::sub(&os, a, b))
    }
    fn bytes(&self) -> Vec<u8> {
        self.as_os_str().as_bytes().to_vec()
    }
    fn line_views(text: &str) -> Vec<Self> {
        str_lines::<B>(text).into_iter().map(HipPath::from).collect()
    }
}

/// All representations of pool string `i` for one kind/backend: (rep, value).
fn reps<'a, K: HipKind<'a>>(b: &'a [u8]) -> Vec<(&'static str, K)> {
    if !K::accepts(b) {
        return vec![];
    }
    let bo = K::borrowed(b);
    let ow = K::owned(b);
    vec![(bo.rep(), bo), (ow.rep(), ow)]
}

// ---------------------------------------------------------------------------------------------
// std values of every pool string

struct StdVals<'a> {
    bytes: &'a [u8],
    vec: Vec<u8>,
    boxed: Box<[u8]>,
    cow_b: Cow<'a, [u8]>,
    cow_o: Cow<'a, [u8]>,
    st: Option<&'a str>,
    string: Option<String>,
    box_str: Option<Box<str>>,
    cow_str_b: Option<Cow<'a, str>>,
    cow_str_o: Option<Cow<'a, str>>,
    os: &'a OsStr,
    os_string: OsString,
    box_os: Box<OsStr>,
    cow_os_b: Cow<'a, OsStr>,
    cow_os_o: Cow<'a, OsStr>,
    path: &'a Path,
    path_buf: PathBuf,
    box_path: Box<Path>,
    cow_path_b: Cow<'a, Path>,
    cow_path_o: Cow<'a, Path>,
    bstr: &'a BStr,
    bstring: BString,
}

impl<'a> StdVals<'a> {
    fn new(b: &'a [u8]) -> Self {
        let st = std::str::from_utf8(b).ok();
        let os = OsStr::from_bytes(b);
        let path = Path::new(os);
        StdVals {
            bytes: b,
            vec: b.to_vec(),
            boxed: b.into(),
            cow_b: Cow::Borrowed(b),
            cow_o: Cow::Owned(b.to_vec()),
            st,
            string: st.map(String::from),
            box_str: st.map(Box::from),
            cow_str_b: st.map(Cow::Borrowed),
            cow_str_o: st.map(|s| Cow::Owned(s.to_string())),
            os,
            os_string: os.to_os_string(),
            box_os: os.into(),
            cow_os_b: Cow::Borrowed(os),
            cow_os_o: Cow::Owned(os.to_os_string()),
            path,
            path_buf: path.to_path_buf(),
            box_path: path.into(),
            cow_path_b: Cow::Borrowed(path),
            cow_path_o: Cow::Owned(path.to_path_buf()),
            bstr: BStr::new(b),
            bstring: BString::from(b),
        }
    }
}

// ---------------------------------------------------------------------------------------------
// bookkeeping

#[derive(Clone, Debug)]
struct Disagreement {
    kind: &'static str,
    /// "impl": a concrete failing input on the implementation; "model-table": evidence is the Lean
    /// driver's `rows`/`borrows` evaluation of the generated table; "model": model-internal check
    source: &'static str,
    op: String,
    expected: String,
    observed: String,
    size: usize,
}

struct Cx {
    evaluations: u64,
    distinct: BTreeSet<String>,
    distribution: BTreeMap<String, u64>,
    samples: Vec<String>,
    /// first (smallest) hit per (kind, op name) → label, + count
    disagreements: BTreeMap<(&'static str, &'static str), BTreeMap<String, (Disagreement, u64)>>,
    /// impls exercised, in the driver's `rows` naming
    covered: BTreeSet<String>,
    covered_borrows: BTreeSet<String>,
    /// violations of a Borrow law per impl name: first witness + count
    borrow_violations: BTreeMap<String, (String, u64)>,
    internal: Vec<String>,
    trace: Option<String>,
}

impl Cx {
    fn new() -> Cx {
        Cx {
            evaluations: 0,
            distinct: BTreeSet::new(),
            distribution: BTreeMap::new(),
            samples: vec![],
            disagreements: BTreeMap::new(),
            covered: BTreeSet::new(),
            covered_borrows: BTreeSet::new(),
            borrow_violations: BTreeMap::new(),
            internal: vec![],
            trace: None,
        }
    }
    /// Records a disagreement; `mk` builds (op line, expected, observed) only when it is kept (the
    /// first or a smaller witness for this kind / operator / impl label).
    fn disagree_with(&mut self, kind: &'static str, label: &str, opname: &'static str, size: usize, mk: impl FnOnce() -> (String, String, String)) {
        let per = self.disagreements.entry((kind, opname)).or_default();
        match per.get_mut(label) {
            Some((d, n)) => {
                *n += 1;
                if size < d.size {
                    let (op, expected, observed) = mk();
                    *d = Disagreement { kind, source: source_of(kind, label, opname), op, expected, observed, size };
                }
            }
            None => {
                let (op, expected, observed) = mk();
                per.insert(label.to_string(), (Disagreement { kind, source: source_of(kind, label, opname), op, expected, observed, size }, 1));
            }
        }
    }
    fn disagree(&mut self, kind: &'static str, label: &str, opname: &'static str, op: String, expected: String, observed: String, size: usize) {
        self.disagree_with(kind, label, opname, size, || (op, expected, observed));
    }
    fn all_disagreements(&self) -> Vec<(&Disagreement, u64)> {
        let mut v: Vec<(&Disagreement, u64)> = self.disagreements.values().flat_map(|m| m.values().map(|(d, n)| (d, *n))).collect();
        v.sort_by(|a, b| (a.0.size, &a.0.op).cmp(&(b.0.size, &b.0.op)));
        v
    }
}

/// Where the evidence of a disagreement comes from (see `Disagreement::source`).
fn source_of(kind: &str, label: &str, opname: &str) -> &'static str {
    match (kind, label, opname) {
        (_, "Gen.CmpImpls", "rowOk") => "model-table",
        ("impl-vs-model", _, "borrow") => "model-table",
        (_, "model", "hashloop") => "model",
        ("monitor", _, "coverage") => "coverage",
        _ => "impl",
    }
}

/// One observation of an operator: compared with the oracle (std) and with the model (Lean).
#[allow(clippy::too_many_arguments)]
fn observe(cx: &mut Cx, label: &str, rep: &str, opname: &'static str, a: &[u8], b: &[u8], obs: &str, oracle: &str, model: &str) {
    cx.evaluations += 1;
    let sample = cx.evaluations % 20_000_003 == 1 && cx.samples.len() < 12;
    if obs != oracle || obs != model || cx.trace.is_some() || sample {
        let mk = || format!("{opname} {label} {rep} {} {}", hex(a), hex(b));
        if sample {
            cx.samples.push(format!("{} impl={obs} oracle={oracle} model={model}", mk()));
        }
        if let Some(t) = &cx.trace {
            let op = mk();
            if op.starts_with(t.as_str()) || t.is_empty() {
                println!("{op} impl={obs} oracle={oracle} model={model}");
            }
        }
        // aggregate checks (set sizes) sort after the concrete pairs
        let size = if opname.ends_with("-dedup") { 10_000 } else { a.len() + b.len() };
        if obs != oracle {
            cx.disagree_with("impl-vs-oracle", label, opname, size, || (mk(), oracle.to_string(), obs.to_string()));
        }
        if obs != model {
            cx.disagree_with("impl-vs-model", label, opname, size, || (mk(), model.to_string(), obs.to_string()));
        }
    }
}

/// `observe` for byte-string results: hex only when something has to be printed.
#[allow(clippy::too_many_arguments)]
fn observe_bytes(cx: &mut Cx, label: &str, rep: &str, opname: &'static str, a: &[u8], b: &[u8], obs: &[u8], oracle: &[u8], model: &[u8]) {
    if obs == oracle && obs == model && cx.trace.is_none() && (cx.evaluations + 1) % 20_000_003 != 1 {
        cx.evaluations += 1;
        return;
    }
    observe(cx, label, rep, opname, a, b, &hex(obs), &hex(oracle), &hex(model));
}

fn b2s(b: bool) -> &'static str {
    if b {
        "true"
    } else {
        "false"
    }
}

fn po2s(o: Option<Ordering>) -> &'static str {
    match o {
        None => "none",
        Some(o) => ord_name(o),
    }
}

fn guarded<R>(cx: &mut Cx, label: &str, f: impl FnOnce(&mut Cx) -> R) -> Option<R> {
    match catch_unwind(AssertUnwindSafe(|| f(cx))) {
        Ok(r) => Some(r),
        Err(_) => {
            cx.disagree("impl-vs-oracle", label, "panic", format!("panic {label}"), "no panic".into(), "panic".into(), 0);
            None
        }
    }
}

/// `==`, `!=` in both operand orders.
#[allow(clippy::too_many_arguments)]
fn check_eq<H: ?Sized, S: ?Sized>(cx: &mut Cx, label: &str, rep: &str, a: &[u8], b: &[u8], h: &H, s: &S, oracle: bool, model: bool)
where
    H: PartialEq<S>,
    S: PartialEq<H>,
{
    guarded(cx, label, |cx| {
        observe(cx, label, rep, "eq", a, b, b2s(h == s), b2s(oracle), b2s(model));
        observe(cx, label, rep, "ne", a, b, b2s(h != s), b2s(!oracle), b2s(!model));
        observe(cx, label, rep, "eq-swapped", a, b, b2s(s == h), b2s(oracle), b2s(model));
        observe(cx, label, rep, "ne-swapped", a, b, b2s(s != h), b2s(!oracle), b2s(!model));
    });
}

/// `partial_cmp` and the four operators in both operand orders.
#[allow(clippy::too_many_arguments)]
fn check_ord<H: ?Sized, S: ?Sized>(cx: &mut Cx, label: &str, rep: &str, a: &[u8], b: &[u8], h: &H, s: &S, oracle: Ordering, model: Ordering)
where
    H: PartialOrd<S>,
    S: PartialOrd<H>,
{
    guarded(cx, label, |cx| {
        observe(cx, label, rep, "partial_cmp", a, b, po2s(h.partial_cmp(s)), ord_name(oracle), ord_name(model));
        observe(cx, label, rep, "partial_cmp-swapped", a, b, po2s(s.partial_cmp(h)), ord_name(oracle.reverse()), ord_name(model.reverse()));
        observe(cx, label, rep, "lt", a, b, b2s(h < s), b2s(oracle.is_lt()), b2s(model.is_lt()));
        observe(cx, label, rep, "le", a, b, b2s(h <= s), b2s(oracle.is_le()), b2s(model.is_le()));
        observe(cx, label, rep, "gt", a, b, b2s(h > s), b2s(oracle.is_gt()), b2s(model.is_gt()));
        observe(cx, label, rep, "ge", a, b, b2s(h >= s), b2s(oracle.is_ge()), b2s(model.is_ge()));
        observe(cx, label, rep, "lt-swapped", a, b, b2s(s < h), b2s(oracle.is_gt()), b2s(model.is_gt()));
        observe(cx, label, rep, "le-swapped", a, b, b2s(s <= h), b2s(oracle.is_ge()), b2s(model.is_ge()));
        observe(cx, label, rep, "gt-swapped", a, b, b2s(s > h), b2s(oracle.is_lt()), b2s(model.is_lt()));
        observe(cx, label, rep, "ge-swapped", a, b, b2s(s >= h), b2s(oracle.is_le()), b2s(model.is_le()));
    });
}

// ---------------------------------------------------------------------------------------------
// oracles: std on the std view types, as a function of (hip kind, class of the other operand)

#[derive(Clone, Copy, PartialEq, Eq, Debug)]
enum Class {
    Slice,
    Str,
    OsStr,
    Path,
    BStr,
}

fn os(b: &[u8]) -> &OsStr {
    OsStr::from_bytes(b)
}
fn pa(b: &[u8]) -> &Path {
    Path::new(OsStr::from_bytes(b))
}
fn st(b: &[u8]) -> &str {
    std::str::from_utf8(b).unwrap()
}

/// `(hip-view(a) == other-view(b), hip-view(a).partial_cmp(other-view(b)))` computed by std / bstr
/// themselves on the unsized view types.
fn oracle(kind: &str, class: Class, a: &[u8], b: &[u8]) -> (bool, Ordering) {
    let rev = |o: Option<Ordering>| o.unwrap().reverse();
    match (kind, class) {
        ("byt", Class::Slice) => (a == b, a.partial_cmp(b).unwrap()),
        // bstr: `impl PartialEq<[u8]> for BStr`, `impl PartialOrd<[u8]> for BStr`
        ("byt", Class::BStr) => (BStr::new(b) == a, rev(BStr::new(b).partial_cmp(a))),
        ("str", Class::Str) => (st(a) == st(b), st(a).partial_cmp(st(b)).unwrap()),
        // std: `impl PartialEq<str> for OsStr`, `impl PartialOrd<str> for OsStr`
        ("str", Class::OsStr) => (os(b) == st(a), rev(os(b).partial_cmp(st(a)))),
        // bstr: `impl PartialEq<str> for BStr`, `impl PartialOrd<str> for BStr`
        ("str", Class::BStr) => (BStr::new(b) == st(a), rev(BStr::new(b).partial_cmp(st(a)))),
        ("os", Class::OsStr) => (os(a) == os(b), os(a).partial_cmp(os(b)).unwrap()),
        // std: `impl PartialEq<Path> for OsStr`, `impl PartialOrd<Path> for OsStr`
        ("os", Class::Path) => (os(a) == pa(b), os(a).partial_cmp(pa(b)).unwrap()),
        ("path", Class::Path) => (pa(a) == pa(b), pa(a).partial_cmp(pa(b)).unwrap()),
        // std: `impl PartialEq<OsStr> for Path`, `impl PartialOrd<OsStr> for Path`
        ("path", Class::OsStr) => (pa(a) == os(b), pa(a).partial_cmp(os(b)).unwrap()),
        _ => panic!("no oracle for {kind} × {class:?}"),
    }
}

/// Name of an operand as the driver prints it in `rows` (`HipByt`, `&vec`, …).
fn lean_operand_name(op: &str) -> String {
    let parts: Vec<&str> = op.split(':').collect();
    match parts.as_slice() {
        ["hip", "byt"] => "HipByt".into(),
        ["hip", "str"] => "HipStr".into(),
        ["hip", "os"] => "HipOsStr".into(),
        ["hip", "path"] => "HipPath".into(),
        ["std", t] => t.to_string(),
        ["std", t, "ref"] => format!("&{t}"),
        _ => op.to_string(),
    }
}

struct Env<'a> {
    pool: &'a [Vec<u8>],
    stds: &'a [StdVals<'a>],
    model: Model,
    lean: Lean,
}

/// One Hip × std block: all representations of every accepted pool string against the std operand
/// produced by `$get` from the `StdVals` of every pool string, both operand orders.
macro_rules! block {
    ($cx:expr, $env:expr, $hips:expr, $kind:expr, $bname:expr, $other:expr, $class:expr, ord = $ord:tt, refd = $refd:tt, |$sv:ident| $get:expr) => {{
        let hipop = format!("hip:{}", $kind);
        let view = $env.model.view(&mut $env.lean, &hipop, $other)?.ok_or_else(|| format!("model has no view for {hipop} × {}", $other))?;
        let label = format!("{}:{} {}", hipop, $bname, $other);
        let (ln, rn) = (lean_operand_name(&hipop), lean_operand_name($other));
        $cx.covered.insert(format!("PartialEq<{rn}> for {ln}"));
        $cx.covered.insert(format!("PartialEq<{ln}> for {rn}"));
        if $ord {
            $cx.covered.insert(format!("PartialOrd<{rn}> for {ln}"));
            $cx.covered.insert(format!("PartialOrd<{ln}> for {rn}"));
        }
        let before = $cx.evaluations;
        for (i, hs) in $hips.iter().enumerate() {
            let a = &$env.pool[i][..];
            for (rep, h) in hs {
                for (j, $sv) in $env.stds.iter().enumerate() {
                    let b = &$env.pool[j][..];
                    let s0 = match $get {
                        Some(s) => s,
                        None => continue,
                    };
                    let o = oracle($kind, $class, a, b);
                    let m = $env.model.rel(view, i, j);
                    block!(@go $refd, $ord, $cx, &label, rep, a, b, h, s0, o, m);
                    $cx.distinct.insert(format!("{} {} {} {}", $kind, $other, rep, ord_name(o.1)));
                }
            }
        }
        *$cx.distribution.entry(format!("{} x {}", hipop, $other)).or_insert(0) += $cx.evaluations - before;
    }};
    (@go false, $ord:tt, $cx:expr, $label:expr, $rep:expr, $a:expr, $b:expr, $h:expr, $s:expr, $o:expr, $m:expr) => {
        check_eq($cx, $label, $rep, $a, $b, $h, $s, $o.0, $m.0);
        block!(@ord $ord, $cx, $label, $rep, $a, $b, $h, $s, $o.1, $m.1);
    };
    (@go true, $ord:tt, $cx:expr, $label:expr, $rep:expr, $a:expr, $b:expr, $h:expr, $s:expr, $o:expr, $m:expr) => {
        check_eq($cx, $label, $rep, $a, $b, $h, &$s, $o.0, $m.0);
        block!(@ord $ord, $cx, $label, $rep, $a, $b, $h, &$s, $o.1, $m.1);
    };
    (@ord true, $cx:expr, $label:expr, $rep:expr, $a:expr, $b:expr, $h:expr, $s:expr, $o:expr, $m:expr) => {
        check_ord($cx, $label, $rep, $a, $b, $h, $s, $o, $m);
    };
    (@ord false, $cx:expr, $label:expr, $rep:expr, $a:expr, $b:expr, $h:expr, $s:expr, $o:expr, $m:expr) => {};
}

type Hips<K> = Vec<Vec<(&'static str, K)>>;

fn build<'a, K: HipKind<'a>>(pool: &'a [Vec<u8>]) -> Hips<K> {
    pool.iter().map(|b| reps::<K>(b)).collect()
}

fn run_byt_std<'a, B: Backend>(cx: &mut Cx, env: &mut Env<'a>, bname: &str) -> Result<(), String> {
    let hips: Hips<HipByt<'a, B>> = build(env.pool);
    let k = "byt";
    block!(cx, env, hips, k, bname, "std:slice", Class::Slice, ord = true, refd = false, |sv| Some(sv.bytes));
    block!(cx, env, hips, k, bname, "std:slice:ref", Class::Slice, ord = true, refd = true, |sv| Some(sv.bytes));
    block!(cx, env, hips, k, bname, "std:vec", Class::Slice, ord = true, refd = false, |sv| Some(&sv.vec));
    block!(cx, env, hips, k, bname, "std:vec:ref", Class::Slice, ord = true, refd = true, |sv| Some(&sv.vec));
    block!(cx, env, hips, k, bname, "std:boxSlice", Class::Slice, ord = true, refd = false, |sv| Some(&sv.boxed));
    block!(cx, env, hips, k, bname, "std:boxSlice:ref", Class::Slice, ord = true, refd = true, |sv| Some(&sv.boxed));
    block!(cx, env, hips, k, bname, "std:cowSlice", Class::Slice, ord = true, refd = false, |sv| Some(&sv.cow_b));
    block!(cx, env, hips, k, bname, "std:cowSlice", Class::Slice, ord = true, refd = false, |sv| Some(&sv.cow_o));
    block!(cx, env, hips, k, bname, "std:cowSlice:ref", Class::Slice, ord = true, refd = true, |sv| Some(&sv.cow_o));
    block!(cx, env, hips, k, bname, "std:bstr", Class::BStr, ord = true, refd = false, |sv| Some(sv.bstr));
    block!(cx, env, hips, k, bname, "std:bstr:ref", Class::BStr, ord = true, refd = true, |sv| Some(sv.bstr));
    block!(cx, env, hips, k, bname, "std:bstring", Class::BStr, ord = true, refd = false, |sv| Some(&sv.bstring));
    block!(cx, env, hips, k, bname, "std:bstring:ref", Class::BStr, ord = true, refd = true, |sv| Some(&sv.bstring));
    // arrays `[u8; N]` / `&[u8; N]`: N is a const, so a few lengths only
    macro_rules! arrays {
        ($($n:literal),*) => {$(
            block!(cx, env, hips, k, bname, "std:array", Class::Slice, ord = true, refd = false,
                |sv| <&[u8; $n]>::try_from(sv.bytes).ok());
            block!(cx, env, hips, k, bname, "std:array:ref", Class::Slice, ord = true, refd = true,
                |sv| <&[u8; $n]>::try_from(sv.bytes).ok());
        )*};
    }
    arrays!(0, 1, 2, 3, 24, 25, 26);
    Ok(())
}

fn run_str_std<'a, B: Backend>(cx: &mut Cx, env: &mut Env<'a>, bname: &str) -> Result<(), String> {
    let hips: Hips<HipStr<'a, B>> = build(env.pool);
    let k = "str";
    block!(cx, env, hips, k, bname, "std:str", Class::Str, ord = true, refd = false, |sv| sv.st);
    block!(cx, env, hips, k, bname, "std:str:ref", Class::Str, ord = true, refd = true, |sv| sv.st);
    block!(cx, env, hips, k, bname, "std:string", Class::Str, ord = true, refd = false, |sv| sv.string.as_ref());
    block!(cx, env, hips, k, bname, "std:boxStr", Class::Str, ord = false, refd = false, |sv| sv.box_str.as_ref());
    block!(cx, env, hips, k, bname, "std:cowStr", Class::Str, ord = false, refd = false, |sv| sv.cow_str_b.as_ref());
    block!(cx, env, hips, k, bname, "std:cowStr", Class::Str, ord = false, refd = false, |sv| sv.cow_str_o.as_ref());
    block!(cx, env, hips, k, bname, "std:osStr", Class::OsStr, ord = true, refd = false, |sv| Some(sv.os));
    block!(cx, env, hips, k, bname, "std:osStr:ref", Class::OsStr, ord = true, refd = true, |sv| Some(sv.os));
    block!(cx, env, hips, k, bname, "std:osString", Class::OsStr, ord = true, refd = false, |sv| Some(&sv.os_string));
    block!(cx, env, hips, k, bname, "std:osString:ref", Class::OsStr, ord = true, refd = true, |sv| Some(&sv.os_string));
    block!(cx, env, hips, k, bname, "std:bstr", Class::BStr, ord = true, refd = false, |sv| Some(sv.bstr));
    block!(cx, env, hips, k, bname, "std:bstr:ref", Class::BStr, ord = true, refd = true, |sv| Some(sv.bstr));
    block!(cx, env, hips, k, bname, "std:bstring", Class::BStr, ord = true, refd = false, |sv| Some(&sv.bstring));
    block!(cx, env, hips, k, bname, "std:bstring:ref", Class::BStr, ord = true, refd = true, |sv| Some(&sv.bstring));
    Ok(())
}

fn run_os_std<'a, B: Backend>(cx: &mut Cx, env: &mut Env<'a>, bname: &str) -> Result<(), String> {
    let hips: Hips<HipOsStr<'a, B>> = build(env.pool);
    let k = "os";
    block!(cx, env, hips, k, bname, "std:osStr", Class::OsStr, ord = true, refd = false, |sv| Some(sv.os));
    block!(cx, env, hips, k, bname, "std:osStr:ref", Class::OsStr, ord = true, refd = true, |sv| Some(sv.os));
    block!(cx, env, hips, k, bname, "std:boxOsStr", Class::OsStr, ord = true, refd = false, |sv| Some(&sv.box_os));
    block!(cx, env, hips, k, bname, "std:boxOsStr:ref", Class::OsStr, ord = true, refd = true, |sv| Some(&sv.box_os));
    block!(cx, env, hips, k, bname, "std:cowOsStr", Class::OsStr, ord = true, refd = false, |sv| Some(&sv.cow_os_b));
    block!(cx, env, hips, k, bname, "std:cowOsStr", Class::OsStr, ord = true, refd = false, |sv| Some(&sv.cow_os_o));
    block!(cx, env, hips, k, bname, "std:cowOsStr:ref", Class::OsStr, ord = true, refd = true, |sv| Some(&sv.cow_os_o));
    block!(cx, env, hips, k, bname, "std:osString", Class::OsStr, ord = true, refd = false, |sv| Some(&sv.os_string));
    block!(cx, env, hips, k, bname, "std:osString:ref", Class::OsStr, ord = true, refd = true, |sv| Some(&sv.os_string));
    block!(cx, env, hips, k, bname, "std:path", Class::Path, ord = true, refd = false, |sv| Some(sv.path));
    block!(cx, env, hips, k, bname, "std:path:ref", Class::Path, ord = true, refd = true, |sv| Some(sv.path));
    block!(cx, env, hips, k, bname, "std:boxPath", Class::Path, ord = true, refd = false, |sv| Some(&sv.box_path));
    block!(cx, env, hips, k, bname, "std:boxPath:ref", Class::Path, ord = true, refd = true, |sv| Some(&sv.box_path));
    block!(cx, env, hips, k, bname, "std:cowPath", Class::Path, ord = true, refd = false, |sv| Some(&sv.cow_path_b));
    block!(cx, env, hips, k, bname, "std:cowPath", Class::Path, ord = true, refd = false, |sv| Some(&sv.cow_path_o));
    block!(cx, env, hips, k, bname, "std:cowPath:ref", Class::Path, ord = true, refd = true, |sv| Some(&sv.cow_path_o));
    block!(cx, env, hips, k, bname, "std:pathBuf", Class::Path, ord = true, refd = false, |sv| Some(&sv.path_buf));
    block!(cx, env, hips, k, bname, "std:pathBuf:ref", Class::Path, ord = true, refd = true, |sv| Some(&sv.path_buf));
    Ok(())
}

fn run_path_std<'a, B: Backend>(cx: &mut Cx, env: &mut Env<'a>, bname: &str) -> Result<(), String> {
    let hips: Hips<HipPath<'a, B>> = build(env.pool);
    let k = "path";
    block!(cx, env, hips, k, bname, "std:path", Class::Path, ord = true, refd = false, |sv| Some(sv.path));
    block!(cx, env, hips, k, bname, "std:path:ref", Class::Path, ord = true, refd = true, |sv| Some(sv.path));
    block!(cx, env, hips, k, bname, "std:pathBuf", Class::Path, ord = true, refd = false, |sv| Some(&sv.path_buf));
    block!(cx, env, hips, k, bname, "std:pathBuf:ref", Class::Path, ord = true, refd = true, |sv| Some(&sv.path_buf));
    block!(cx, env, hips, k, bname, "std:boxPath", Class::Path, ord = true, refd = false, |sv| Some(&sv.box_path));
    block!(cx, env, hips, k, bname, "std:boxPath:ref", Class::Path, ord = true, refd = true, |sv| Some(&sv.box_path));
    block!(cx, env, hips, k, bname, "std:cowPath", Class::Path, ord = true, refd = false, |sv| Some(&sv.cow_path_b));
    block!(cx, env, hips, k, bname, "std:cowPath", Class::Path, ord = true, refd = false, |sv| Some(&sv.cow_path_o));
    block!(cx, env, hips, k, bname, "std:cowPath:ref", Class::Path, ord = true, refd = true, |sv| Some(&sv.cow_path_o));
    block!(cx, env, hips, k, bname, "std:osStr", Class::OsStr, ord = true, refd = false, |sv| Some(sv.os));
    block!(cx, env, hips, k, bname, "std:osStr:ref", Class::OsStr, ord = true, refd = true, |sv| Some(sv.os));
    block!(cx, env, hips, k, bname, "std:osString", Class::OsStr, ord = true, refd = false, |sv| Some(&sv.os_string));
    block!(cx, env, hips, k, bname, "std:osString:ref", Class::OsStr, ord = true, refd = true, |sv| Some(&sv.os_string));
    block!(cx, env, hips, k, bname, "std:boxOsStr", Class::OsStr, ord = true, refd = false, |sv| Some(&sv.box_os));
    block!(cx, env, hips, k, bname, "std:boxOsStr:ref", Class::OsStr, ord = true, refd = true, |sv| Some(&sv.box_os));
    block!(cx, env, hips, k, bname, "std:cowOsStr", Class::OsStr, ord = true, refd = false, |sv| Some(&sv.cow_os_b));
    block!(cx, env, hips, k, bname, "std:cowOsStr", Class::OsStr, ord = true, refd = false, |sv| Some(&sv.cow_os_o));
    block!(cx, env, hips, k, bname, "std:cowOsStr:ref", Class::OsStr, ord = true, refd = true, |sv| Some(&sv.cow_os_o));
    Ok(())
}

// ---------------------------------------------------------------------------------------------
// Hip × Hip (all backend pairs), Ord::cmp, Hash, pointer-sharing cases

/// `lhs` (kind K1, backend B1) against `rhs` (K2, B2) for all pairs and representations.
#[allow(clippy::too_many_arguments)]
fn hip_hip<'a, K1, K2>(cx: &mut Cx, env: &mut Env<'a>, k1: &'static str, b1: &str, k2: &'static str, b2: &str, class2: Class, l: &Hips<K1>, r: &Hips<K2>) -> Result<(), String>
where
    K1: HipKind<'a> + PartialEq<K2> + PartialOrd<K2>,
    K2: HipKind<'a> + PartialEq<K1> + PartialOrd<K1>,
{
    let (o1, o2) = (format!("hip:{k1}"), format!("hip:{k2}"));
    let view = env.model.view(&mut env.lean, &o1, &o2)?.ok_or_else(|| format!("model has no view for {o1} × {o2}"))?;
    let label = format!("{o1}:{b1} {o2}:{b2}");
    let (ln, rn) = (lean_operand_name(&o1), lean_operand_name(&o2));
    for t in ["PartialEq", "PartialOrd"] {
        cx.covered.insert(format!("{t}<{rn}> for {ln}"));
        cx.covered.insert(format!("{t}<{ln}> for {rn}"));
    }
    let before = cx.evaluations;
    for (i, hs) in l.iter().enumerate() {
        let a = &env.pool[i][..];
        for (rep1, h) in hs {
            for (j, ss) in r.iter().enumerate() {
                let b = &env.pool[j][..];
                for (rep2, s) in ss {
                    let o = oracle(k1, class2, a, b);
                    let m = env.model.rel(view, i, j);
                    let rep = format!("{rep1}/{rep2}");
                    check_eq(cx, &label, &rep, a, b, h, s, o.0, m.0);
                    check_ord(cx, &label, &rep, a, b, h, s, o.1, m.1);
                    cx.distinct.insert(format!("{k1} hip:{k2} {rep} {}", ord_name(o.1)));
                }
            }
        }
    }
    *cx.distribution.entry(format!("{o1} x {o2}")).or_insert(0) += cx.evaluations - before;
    Ok(())
}

/// Same kind, same backend: `Ord::cmp`, `Eq`, clones (pointer-equal windows), `Hash`.
fn hip_self<'a, K>(cx: &mut Cx, env: &mut Env<'a>, k: &'static str, bname: &str, class: Class, hs: &Hips<K>) -> Result<(), String>
where
    K: HipKind<'a> + Ord + Hash,
{
    let o1 = format!("hip:{k}");
    let view = env.model.view(&mut env.lean, &o1, &o1)?.ok_or("no view")?;
    // a fixed third operand for `clamp`
    let third: Option<(usize, K)> = hs.iter().enumerate().find_map(|(i, v)| if env.pool[i].len() == 2 { v.first().map(|(_, h)| (i, h.clone())) } else { None });
    let hview = env.model.hashview(&mut env.lean, &o1)?;
    let label = format!("{o1}:{bname} {o1}:{bname}");
    let ln = lean_operand_name(&o1);
    cx.covered.insert(format!("Ord<{ln}> for {ln}"));
    cx.covered.insert(format!("Eq<{ln}> for {ln}"));
    cx.covered.insert(format!("Hash<{ln}> for {ln}"));
    let before = cx.evaluations;
    for (i, xs) in hs.iter().enumerate() {
        let a = &env.pool[i][..];
        for (rep1, h) in xs {
            // Hash: stream fed to the hasher vs std view vs model
            let obs = stream(h);
            let orc = match k {
                "byt" => stream(a),
                "str" => stream(st(a)),
                "os" => stream(os(a)),
                _ => stream(pa(a)),
            };
            let mdl = &env.model.hash[hview as usize][i];
            guarded(cx, &label, |cx| observe(cx, &format!("{o1}:{bname}"), rep1, "hash", a, &[], &hex(&obs), &hex(&orc), &hex(mdl)));
            if k == "path" {
                // the byte-loop transcription of std's `Path::hash` agrees as well
                observe(cx, &format!("{o1}:{bname}"), rep1, "hashloop", a, &[], &hex(&obs), &hex(&orc), &hex(&env.model.hashloop[i]));
            }
            // a clone: same window for shared heap values
            let c = h.clone();
            let m = env.model.rel(view, i, i);
            let o = oracle(k, class, a, a);
            check_eq(cx, &label, &format!("{rep1}/clone"), a, a, h, &c, o.0, m.0);
            guarded(cx, &label, |cx| observe(cx, &label, &format!("{rep1}/clone"), "cmp", a, a, ord_name(h.cmp(&c)), ord_name(o.1), ord_name(m.1)));
            for (j, ys) in hs.iter().enumerate() {
                let b = &env.pool[j][..];
                for (r2, (rep2, s)) in ys.iter().enumerate() {
                    let rep2_first = r2 == 0;
                    let o = oracle(k, class, a, b);
                    let m = env.model.rel(view, i, j);
                    let rep = format!("{rep1}/{rep2}");
                    guarded(cx, &label, |cx| {
                        observe(cx, &label, &rep, "cmp", a, b, ord_name(h.cmp(s)), ord_name(o.1), ord_name(m.1));
                        observe(cx, &label, &rep, "max-is-rhs", a, b, b2s(h.max(s) as *const K == s as *const K), b2s(o.1 != Ordering::Greater), b2s(m.1 != Ordering::Greater));
                        // provided methods called on the real type (an override would be exercised)
                        observe(cx, &label, &rep, "partial_cmp-vs-cmp", a, b, po2s(h.partial_cmp(s)), ord_name(o.1), ord_name(m.1));
                        if rep2_first {
                            let (mx, mn) = (K::max(h.clone(), s.clone()).bytes(), K::min(h.clone(), s.clone()).bytes());
                            let (emx, emn) = (if o.1 == Ordering::Greater { a } else { b }, if o.1 == Ordering::Greater { b } else { a });
                            let (mmx, mmn) = (if m.1 == Ordering::Greater { a } else { b }, if m.1 == Ordering::Greater { b } else { a });
                            observe_bytes(cx, &label, &rep, "max", a, b, &mx, emx, mmx);
                            observe_bytes(cx, &label, &rep, "min", a, b, &mn, emn, mmn);
                            if let Some((t, tv)) = &third {
                                // clamp(self = h, lo, hi) with {lo, hi} = {s, third} ordered by the oracle
                                let c = &env.pool[*t][..];
                                let (lo_i, hi_i, lo, hi) = if oracle(k, class, b, c).1 == Ordering::Greater { (*t, j, tv, s) } else { (j, *t, s, tv) };
                                let want = |cmp: &dyn Fn(usize, usize) -> Ordering| -> usize {
                                    if cmp(i, lo_i) == Ordering::Less {
                                        lo_i
                                    } else if cmp(i, hi_i) == Ordering::Greater {
                                        hi_i
                                    } else {
                                        i
                                    }
                                };
                                let eo = want(&|x, y| oracle(k, class, &env.pool[x], &env.pool[y]).1);
                                let em = want(&|x, y| env.model.rel(view, x, y).1);
                                // `clamp` asserts lo <= hi with the crate's own `cmp`; a wrong order shows as a panic
                                let got = h.clone().clamp(lo.clone(), hi.clone()).bytes();
                                observe_bytes(cx, &label, &rep, "clamp", a, b, &got, &env.pool[eo], &env.pool[em]);
                            }
                        }
                    });
                }
            }
        }
    }
    *cx.distribution.entry(format!("{o1} cmp/hash")).or_insert(0) += cx.evaluations - before;
    Ok(())
}

/// RELATED operands: values that share one heap buffer. For every pool string `c` of more than 23
/// bytes (so that views stay `Allocated`): two zero-copy views with equal content at different
/// offsets of ONE buffer holding `c ++ c` (plus the views at offsets 4 and 8 when `c` has period 4,
/// e.g. `"ab./".repeat(12)` sliced at 0..24, 4..28, 8..32), the same two views of a borrowed buffer,
/// a clone of a view, an independent heap copy and its clone, a borrowed value, and duplicate lines
/// of one text through `lines()`. Every ordered pair within such a family must compare, order and
/// hash like the std view of the (equal) bytes; a `HashSet`/`BTreeSet` of all of them dedups to the
/// number of distinct contents.
fn related<'a, K>(cx: &mut Cx, env: &mut Env<'a>, k: &'static str, bname: &str, class: Class) -> Result<(), String>
where
    K: HipKind<'a> + PartialEq<K> + PartialOrd<K> + Ord + Hash,
{
    let o1 = format!("hip:{k}");
    let view = env.model.view(&mut env.lean, &o1, &o1)?.ok_or("no view")?;
    let label = format!("{o1}:{bname} {o1}:{bname}");
    let before = cx.evaluations;
    let mut all: Vec<(usize, K)> = vec![];
    let doubles: Vec<Option<Vec<u8>>> = env.pool.iter().map(|c| if c.len() > 23 && K::accepts(c) { Some([&c[..], &c[..]].concat()) } else { None }).collect();
    for (i, c) in env.pool.iter().enumerate() {
        let Some(dbl) = &doubles[i] else { continue };
        let n = c.len();
        let heap = K::owned(dbl);
        let mut fam: Vec<(String, K)> = vec![];
        let mut offs = vec![0, n];
        for off in [4usize, 8] {
            if off < n && dbl[off..off + n] == c[..] {
                offs.push(off);
            }
        }
        for &off in &offs {
            let v = heap.sub(off, off + n);
            fam.push((format!("{}-view@{off}", v.rep()), v));
        }
        fam.push(("view-clone".into(), fam[0].1.clone()));
        let copy = K::owned(c);
        fam.push((format!("{}-copy-clone", copy.rep()), copy.clone()));
        fam.push((format!("{}-copy", copy.rep()), copy));
        fam.push(("borrowed".into(), K::borrowed(&env.pool[i])));
        if let Ok(text) = std::str::from_utf8(c) {
            if !text.contains('\n') && !text.contains('\r') {
                for (li, v) in K::line_views(&format!("{text}\n{text}\n{text}\n")).into_iter().enumerate() {
                    fam.push((format!("{}-line#{li}", v.rep()), v));
                }
            }
        }
        let a = &c[..];
        let o = oracle(k, class, a, a);
        let m = env.model.rel(view, i, i);
        for (t1, x) in &fam {
            let sx = stream(x);
            for (t2, y) in &fam {
                let rep = format!("related:{t1}/{t2}");
                check_eq(cx, &label, &rep, a, a, x, y, o.0, m.0);
                check_ord(cx, &label, &rep, a, a, x, y, o.1, m.1);
                guarded(cx, &label, |cx| {
                    observe(cx, &label, &rep, "cmp", a, a, ord_name(x.cmp(y)), ord_name(o.1), ord_name(m.1));
                    observe(cx, &label, &rep, "hash-equal", a, a, b2s(sx == stream(y)), "true", "true");
                });
                cx.distinct.insert(format!("{k} related {t1}/{t2}"));
            }
        }
        all.extend(fam.into_iter().map(|(_, v)| (i, v)));
    }
    // dedup through the collections: as many keys as distinct contents (per the std view)
    let mut reps_o: Vec<usize> = vec![];
    let mut reps_m: Vec<usize> = vec![];
    for (i, _) in &all {
        if !reps_o.iter().any(|j| oracle(k, class, &env.pool[*i], &env.pool[*j]).0) {
            reps_o.push(*i);
        }
        if !reps_m.iter().any(|j| env.model.rel(view, *i, *j).0) {
            reps_m.push(*i);
        }
    }
    let hs: std::collections::HashSet<K, FixedState> = all.iter().map(|(_, v)| v.clone()).collect();
    let bs: BTreeSet<K> = all.iter().map(|(_, v)| v.clone()).collect();
    let mut dd: Vec<K> = all.iter().map(|(_, v)| v.clone()).collect();
    dd.dedup();
    let mut runs = 0usize;
    let mut last: Option<usize> = None;
    for (i, _) in &all {
        if last.map_or(true, |l| !oracle(k, class, &env.pool[l], &env.pool[*i]).0) {
            runs += 1;
        }
        last = Some(*i);
    }
    observe(cx, &label, "related", "hashset-dedup", &[], &[], &hs.len().to_string(), &reps_o.len().to_string(), &reps_m.len().to_string());
    observe(cx, &label, "related", "btreeset-dedup", &[], &[], &bs.len().to_string(), &reps_o.len().to_string(), &reps_m.len().to_string());
    observe(cx, &label, "related", "vec-dedup", &[], &[], &dd.len().to_string(), &runs.to_string(), &runs.to_string());
    *cx.distribution.entry(format!("{o1} related")).or_insert(0) += cx.evaluations - before;
    Ok(())
}

/// Prefixes of one long buffer: same start address, different lengths (borrowed and shared heap).
fn shared_prefixes<'a, K>(cx: &mut Cx, env: &mut Env<'a>, k: &'static str, bname: &str, class: Class, master: usize, prefix_idx: &[(usize, usize)]) -> Result<(), String>
where
    K: HipKind<'a> + PartialEq<K> + PartialOrd<K>,
{
    let o1 = format!("hip:{k}");
    let view = env.model.view(&mut env.lean, &o1, &o1)?.ok_or("no view")?;
    let label = format!("{o1}:{bname} {o1}:{bname}");
    let mb = &env.pool[master][..];
    let masters: Vec<K> = vec![K::borrowed(mb), K::owned(mb)];
    let before = cx.evaluations;
    for mval in &masters {
        for &(len1, i) in prefix_idx {
            let x = mval.prefix(len1);
            for &(len2, j) in prefix_idx {
                let y = mval.prefix(len2);
                let (a, b) = (&env.pool[i][..], &env.pool[j][..]);
                let o = oracle(k, class, a, b);
                let m = env.model.rel(view, i, j);
                let rep = format!("{}-prefix/{}-prefix", x.rep(), y.rep());
                check_eq(cx, &label, &rep, a, b, &x, &y, o.0, m.0);
                check_ord(cx, &label, &rep, a, b, &x, &y, o.1, m.1);
                cx.distinct.insert(format!("{k} shared {rep} {}", ord_name(o.1)));
            }
        }
    }
    *cx.distribution.entry(format!("{o1} shared-prefix")).or_insert(0) += cx.evaluations - before;
    Ok(())
}

// ---------------------------------------------------------------------------------------------
// Borrow

/// Laws of one `impl Borrow<T> for K` and map lookups through it.
fn borrow_checks<'a, K, T>(cx: &mut Cx, env: &Env<'a>, k: &'static str, bname: &str, tname: &'static str, hs: &Hips<K>)
where
    K: HipKind<'a> + Borrow<T> + Ord + Hash,
    T: ?Sized + Ord + Hash,
{
    let impl_name = format!("Borrow<{tname}> for {}", lean_operand_name(&format!("hip:{k}")));
    cx.covered_borrows.insert(impl_name.clone());
    let label = format!("hip:{k}:{bname}");
    let violation = |cx: &mut Cx, what: &str, rep: &str, a: &[u8], b: &[u8], expected: String, observed: String| {
        let w = format!("borrow-{what} {label} {tname} {rep} {} {} expected={expected} observed={observed}", hex(a), hex(b));
        if let Some(t) = &cx.trace {
            if t.is_empty() || w.starts_with(t.as_str()) {
                println!("{w}");
            }
        }
        match cx.borrow_violations.get_mut(&impl_name) {
            Some((_, n)) => *n += 1,
            None => {
                cx.borrow_violations.insert(impl_name.clone(), (w, 1));
            }
        }
    };
    let before = cx.evaluations;
    // flat list of values
    let vals: Vec<(usize, &'static str, &K)> = hs.iter().enumerate().flat_map(|(i, v)| v.iter().map(move |(r, h)| (i, *r, h))).collect();
    // laws: x.borrow() == y.borrow() ⇔ x == y ; same for cmp ; hash(x) == hash(x.borrow())
    for &(i, rep1, x) in &vals {
        let a = &env.pool[i][..];
        let bx: &T = x.borrow();
        cx.evaluations += 1;
        let (so, sb) = (stream(x), stream(bx));
        if so != sb {
            violation(cx, "hash", rep1, a, &[], hex(&so), hex(&sb));
        }
        for &(j, _rep2, y) in &vals {
            let b = &env.pool[j][..];
            let by: &T = y.borrow();
            cx.evaluations += 2;
            if (x == y) != (bx == by) {
                violation(cx, "eq", rep1, a, b, b2s(x == y).into(), b2s(bx == by).into());
            }
            if x.cmp(y) != bx.cmp(by) {
                violation(cx, "cmp", rep1, a, b, ord_name(x.cmp(y)).into(), ord_name(bx.cmp(by)).into());
            }
        }
    }
    // maps with every pool string as key (first representative of each `==` class wins)
    let keys: Vec<(usize, &K)> = hs.iter().enumerate().filter_map(|(i, v)| v.last().map(|(_, h)| (i, h))).collect();
    let mut hm: HashMap<K, usize, FixedState> = HashMap::default();
    let mut bt: BTreeMap<K, usize> = BTreeMap::new();
    for &(i, h) in &keys {
        hm.entry(h.clone()).or_insert(i);
        bt.entry(h.clone()).or_insert(i);
    }
    for &(j, rep, q) in &vals {
        let b = &env.pool[j][..];
        let want_h = hm.get::<K>(q).copied();
        let want_b = bt.get::<K>(q).copied();
        let got_h = hm.get::<T>(q.borrow()).copied();
        let got_b = bt.get::<T>(q.borrow()).copied();
        cx.evaluations += 2;
        let show = |o: Option<usize>| o.map_or("none".to_string(), |i| hex(&env.pool[i]));
        if want_h.is_none() || want_b.is_none() {
            // the key was inserted: its own `Eq`/`Hash`/`Ord` are inconsistent
            violation(cx, "map-get-own-key", rep, &[], b, "found".into(), format!("hashmap {} btreemap {}", show(want_h), show(want_b)));
        }
        if got_h != want_h {
            violation(cx, "hashmap-get", rep, &[], b, show(want_h), show(got_h));
        }
        if got_b != want_b {
            violation(cx, "btreemap-get", rep, &[], b, show(want_b), show(got_b));
        }
    }
    // single-key maps: `get(q.borrow())` finds the key iff `key == q`
    for &(i, h) in &keys {
        let mut hm1: HashMap<K, usize, FixedState> = HashMap::default();
        hm1.insert(h.clone(), i);
        let mut bt1: BTreeMap<K, usize> = BTreeMap::new();
        bt1.insert(h.clone(), i);
        let a = &env.pool[i][..];
        for &(j, q) in &keys {
            let b = &env.pool[j][..];
            let want = h == q;
            cx.evaluations += 2;
            if hm1.get::<T>(q.borrow()).is_some() != want {
                violation(cx, "hashmap1-get", "-", a, b, b2s(want).into(), b2s(!want).into());
            }
            if bt1.get::<T>(q.borrow()).is_some() != want {
                violation(cx, "btreemap1-get", "-", a, b, b2s(want).into(), b2s(!want).into());
            }
        }
    }
    *cx.distribution.entry(format!("borrow {impl_name}")).or_insert(0) += cx.evaluations - before;
    cx.distinct.insert(format!("borrow {impl_name} {bname}"));
}

// ---------------------------------------------------------------------------------------------
// per-backend drivers

fn run_backend<'a, B: Backend>(cx: &mut Cx, env: &mut Env<'a>, bname: &str, master: usize, prefix_idx: &[(usize, usize)]) -> Result<(), String> {
    run_byt_std::<B>(cx, env, bname)?;
    run_str_std::<B>(cx, env, bname)?;
    run_os_std::<B>(cx, env, bname)?;
    run_path_std::<B>(cx, env, bname)?;

    let byt: Hips<HipByt<'a, B>> = build(env.pool);
    let stv: Hips<HipStr<'a, B>> = build(env.pool);
    let osv: Hips<HipOsStr<'a, B>> = build(env.pool);
    let pav: Hips<HipPath<'a, B>> = build(env.pool);
    hip_self(cx, env, "byt", bname, Class::Slice, &byt)?;
    hip_self(cx, env, "str", bname, Class::Str, &stv)?;
    hip_self(cx, env, "os", bname, Class::OsStr, &osv)?;
    hip_self(cx, env, "path", bname, Class::Path, &pav)?;
    shared_prefixes::<HipByt<'a, B>>(cx, env, "byt", bname, Class::Slice, master, prefix_idx)?;
    shared_prefixes::<HipStr<'a, B>>(cx, env, "str", bname, Class::Str, master, prefix_idx)?;
    shared_prefixes::<HipOsStr<'a, B>>(cx, env, "os", bname, Class::OsStr, master, prefix_idx)?;
    shared_prefixes::<HipPath<'a, B>>(cx, env, "path", bname, Class::Path, master, prefix_idx)?;
    related::<HipByt<'a, B>>(cx, env, "byt", bname, Class::Slice)?;
    related::<HipStr<'a, B>>(cx, env, "str", bname, Class::Str)?;
    related::<HipOsStr<'a, B>>(cx, env, "os", bname, Class::OsStr)?;
    related::<HipPath<'a, B>>(cx, env, "path", bname, Class::Path)?;

    borrow_checks::<_, [u8]>(cx, env, "byt", bname, "[u8]", &byt);
    borrow_checks::<_, BStr>(cx, env, "byt", bname, "BStr", &byt);
    borrow_checks::<_, str>(cx, env, "str", bname, "str", &stv);
    borrow_checks::<_, BStr>(cx, env, "str", bname, "BStr", &stv);
    borrow_checks::<_, OsStr>(cx, env, "os", bname, "OsStr", &osv);
    borrow_checks::<_, Path>(cx, env, "path", bname, "Path", &pav);
    borrow_checks::<_, OsStr>(cx, env, "path", bname, "OsStr", &pav);
    Ok(())
}

fn run_backend_pair<'a, B1: Backend, B2: Backend>(cx: &mut Cx, env: &mut Env<'a>, b1: &str, b2: &str) -> Result<(), String> {
    let byt1: Hips<HipByt<'a, B1>> = build(env.pool);
    let byt2: Hips<HipByt<'a, B2>> = build(env.pool);
    hip_hip(cx, env, "byt", b1, "byt", b2, Class::Slice, &byt1, &byt2)?;
    drop((byt1, byt2));
    let st1: Hips<HipStr<'a, B1>> = build(env.pool);
    let st2: Hips<HipStr<'a, B2>> = build(env.pool);
    hip_hip(cx, env, "str", b1, "str", b2, Class::Str, &st1, &st2)?;
    drop((st1, st2));
    let os1: Hips<HipOsStr<'a, B1>> = build(env.pool);
    let os2: Hips<HipOsStr<'a, B2>> = build(env.pool);
    hip_hip(cx, env, "os", b1, "os", b2, Class::OsStr, &os1, &os2)?;
    let pa1: Hips<HipPath<'a, B1>> = build(env.pool);
    let pa2: Hips<HipPath<'a, B2>> = build(env.pool);
    hip_hip(cx, env, "path", b1, "path", b2, Class::Path, &pa1, &pa2)?;
    // `(HipPath<B1>, HipOsStr<B2>) = path_eq / path_partial_cmp`
    hip_hip(cx, env, "path", b1, "os", b2, Class::OsStr, &pa1, &os2)?;
    Ok(())
}

// ---------------------------------------------------------------------------------------------
// pool

fn extra_push(pool: &mut Vec<Vec<u8>>, s: Vec<u8>) {
    if !pool.contains(&s) {
        pool.push(s);
    }
}

/// Second pool: 8–40-byte operands that differ at 1, 2 or 3 positions inside the first 8 bytes (in
/// opposite directions, so that a word-at-a-time comparison with the wrong endianness gets the
/// order wrong), at the word boundary (7 / 8 / 9), and only in the tail. All ordered pairs.
fn make_word_pool() -> (Vec<Vec<u8>>, usize, Vec<(usize, usize)>) {
    let mut pool: Vec<Vec<u8>> = vec![b"incoming".to_vec(), b"outgoing".to_vec(), b"incoming/".to_vec(), b"outgoing/".to_vec()];
    for len in [8usize, 9, 16, 40] {
        let base: Vec<u8> = (0..len).map(|i| b'b' + (i % 24) as u8).collect();
        let mut mods: Vec<Vec<(usize, i8)>> = vec![
            vec![],
            vec![(0, 1)],
            vec![(3, 1)],
            vec![(7, 1)],
            vec![(0, 1), (7, -1)],
            vec![(1, -1), (6, 1)],
            vec![(0, 1), (3, -1), (7, 1)],
            vec![(2, -1), (4, 1), (5, -1)],
            vec![(len - 1, 1)],
        ];
        if len > 8 {
            mods.extend([vec![(8, 1)], vec![(7, 1), (8, -1)], vec![(7, -1), (8, 1)]]);
        }
        if len > 9 {
            mods.extend([vec![(9, 1)], vec![(len - 2, -1)], vec![(0, -1), (len - 1, 1)]]);
        }
        for m in mods {
            let mut t = base.clone();
            for (p, d) in m {
                t[p] = (t[p] as i16 + d as i16) as u8;
            }
            extra_push(&mut pool, t);
        }
    }
    (pool, 0, vec![(8, 0)])
}

fn make_pool(tier: &str, seed: u64) -> (Vec<Vec<u8>>, usize, Vec<(usize, usize)>) {
    let alpha: [u8; 5] = [b'a', b'b', b'/', b'.', 0x80];
    let mut pool: Vec<Vec<u8>> = vec![vec![]];
    let mut layer: Vec<Vec<u8>> = vec![vec![]];
    for _ in 0..3 {
        let mut next = vec![];
        for s in &layer {
            for &c in &alpha {
                let mut t = s.clone();
                t.push(c);
                next.push(t);
            }
        }
        pool.extend(next.iter().cloned());
        layer = next;
    }
    let short2: Vec<Vec<u8>> = pool.iter().filter(|s| s.len() <= 2).cloned().collect();
    let p1 = vec![b'a'; 24];
    let p2 = b"ab/./ab//ab/../ab/ab/a/./".to_vec();
    let p3 = b"/ab/./ab//ab/../ab/ab/a/.".to_vec();
    assert!(p2.len() > 23 && p3.len() > 23);
    let suffixes: Vec<Vec<u8>> = if tier == "thorough" {
        short2
    } else {
        [&b""[..], b"a", b"b", b"/", b".", &[0x80], b"a/", b"/a", b"/.", b"./", b"..", b"ab", b"ba", b"//"].iter().map(|s| s.to_vec()).collect()
    };
    let prefixes: Vec<&Vec<u8>> = if tier == "thorough" { vec![&p1, &p2, &p3] } else { vec![&p1, &p2] };
    for p in prefixes {
        for s in &suffixes {
            let mut t = p.clone();
            t.extend_from_slice(s);
            pool.push(t);
        }
    }
    // Strings that tell exact comparisons from lossy / normalising ones:
    // * valid UTF-8 containing U+FFFD (what `to_string_lossy` turns an invalid byte into), to be paired
    //   with the non-UTF-8 strings above (`80`, `61 80`, `80 2f`, heap-sized ones ending in `80`):
    //   `OsStr(b"\x80") == HipStr("\u{FFFD}")` must be false;
    // * case variants (`"A"` vs `"a"`), and a trailing NUL (`"a\0"` vs `"a"`).
    // Every Hip × std block runs over all ordered pairs of the pool, so these meet every impl in
    // which one side can hold non-UTF-8 (`[u8]`/`OsStr`/`Path`/`BStr` families) and the other is str-like.
    let fffd = "\u{FFFD}".as_bytes();
    let mut extra: Vec<Vec<u8>> = vec![
        fffd.to_vec(),
        [b"a", fffd].concat(),
        [fffd, b"/"].concat(),
        [fffd, fffd].concat(),
        [b"/", fffd].concat(),
        b"A".to_vec(),
        b"B".to_vec(),
        b"Ab".to_vec(),
        b"aB".to_vec(),
        b"A/".to_vec(),
        b"\0".to_vec(),
        b"a\0".to_vec(),
        b"a\0/".to_vec(),
        b"a ".to_vec(),
    ];
    for p in [&p1, &p2] {
        extra.push([&p[..], fffd].concat()); // lossy image of `p ++ 80`
        extra.push([&p[..], b"\0"].concat());
    }
    extra.push(vec![b'A'; 24]); // case variant of the heap-sized `p1`
    extra.push([&[0x80u8][..], &p1[..]].concat()); // invalid byte first, heap-sized
    extra.push([fffd, &p1[..]].concat());
    for s in extra {
        if !pool.contains(&s) {
            pool.push(s);
        }
    }
    // periodic heap-sized content: `"ab./".repeat(12)` holds it at offsets 0, 4, 8, … (see `related`)
    extra_push(&mut pool, b"ab./".repeat(6));
    extra_push(&mut pool, b"a/b/".repeat(7));
    // seeded random strings over the same alphabet (lengths 4..=40)
    let mut rng = hipverif_harness::util::Rng::new(seed);
    let n_random = if tier == "thorough" { 60 } else { 10 };
    for _ in 0..n_random {
        let len = 4 + rng.below(37);
        let utf8_only = rng.chance(1, 2);
        let s: Vec<u8> = (0..len).map(|_| alpha[rng.below(if utf8_only { 4 } else { 5 })]).collect();
        if !pool.contains(&s) {
            pool.push(s);
        }
    }
    // master buffer and its prefixes (same start address, growing length)
    let mut master = p2.clone();
    master.extend_from_slice(b"b/.");
    let mut prefix_idx = vec![];
    let lens: Vec<usize> = vec![0, 1, 2, 3, 22, 23, 24, 25, 26, master.len() - 1, master.len()];
    for &k in &lens {
        let s = master[..k].to_vec();
        let idx = match pool.iter().position(|p| *p == s) {
            Some(i) => i,
            None => {
                pool.push(s);
                pool.len() - 1
            }
        };
        prefix_idx.push((k, idx));
    }
    let midx = prefix_idx.last().unwrap().1;
    (pool, midx, prefix_idx)
}

// ---------------------------------------------------------------------------------------------

fn run(cx: &mut Cx, env: &mut Env<'_>, master: usize, prefix_idx: &[(usize, usize)]) -> Result<(), String> {
    run_backend::<Arc>(cx, env, "arc", master, prefix_idx)?;
    run_backend::<Rc>(cx, env, "rc", master, prefix_idx)?;
    run_backend::<Unique>(cx, env, "unique", master, prefix_idx)?;
    run_backend_pair::<Arc, Arc>(cx, env, "arc", "arc")?;
    run_backend_pair::<Arc, Rc>(cx, env, "arc", "rc")?;
    run_backend_pair::<Arc, Unique>(cx, env, "arc", "unique")?;
    run_backend_pair::<Rc, Arc>(cx, env, "rc", "arc")?;
    run_backend_pair::<Rc, Rc>(cx, env, "rc", "rc")?;
    run_backend_pair::<Rc, Unique>(cx, env, "rc", "unique")?;
    run_backend_pair::<Unique, Arc>(cx, env, "unique", "arc")?;
    run_backend_pair::<Unique, Rc>(cx, env, "unique", "rc")?;
    run_backend_pair::<Unique, Unique>(cx, env, "unique", "unique")?;
    // the model's two formulations of `Path::hash` agree, and the model's components are what std iterates
    for (i, b) in env.pool.iter().enumerate() {
        cx.evaluations += 2;
        if env.model.hashloop[i] != env.model.hash[View::Path as usize][i] {
            cx.disagree("monitor", "model", "hashloop", format!("hashloop {}", hex(b)), hex(&env.model.hash[3][i]), hex(&env.model.hashloop[i]), b.len());
        }
        let std_comps: Vec<String> = pa(b)
            .components()
            .map(|c| match c {
                std::path::Component::RootDir => "root".to_string(),
                std::path::Component::CurDir => "cur".to_string(),
                std::path::Component::ParentDir => "parent".to_string(),
                std::path::Component::Normal(n) => format!("n:{}", hex(n.as_bytes())),
                std::path::Component::Prefix(_) => "prefix".to_string(),
            })
            .collect();
        let want = if std_comps.is_empty() { "-".to_string() } else { std_comps.join(" ") };
        if env.model.comps[i] != want {
            cx.disagree("impl-vs-model", "std::path::Path", "components", format!("components {}", hex(b)), env.model.comps[i].clone(), want, b.len());
        }
    }
    Ok(())
}

/// Re-confirms the Lean witnesses of D7 / D8 on the implementation.
fn replay_witnesses(lean: &mut Lean) -> Result<Vec<Value>, String> {
    let w = lean.ask("witnesses")?;
    let parts: Vec<Vec<&str>> = w.split(" ; ").map(|p| p.split(' ').collect()).collect();
    let get = |id: &str, kind: &str| -> Result<Vec<Vec<u8>>, String> {
        let p = parts.iter().find(|p| p.len() >= 3 && p[0] == id && p[1] == kind).ok_or_else(|| format!("witness {id} {kind} missing in `{w}`"))?;
        p[2..].iter().map(|h| unhex(h).ok_or_else(|| format!("bad witness hex {h}"))).collect()
    };
    let mut out = vec![];
    // D7
    {
        let eqw = get("D7", "eq")?;
        let hw = get("D7", "hash")?;
        let (x, y) = (&eqw[0], &eqw[1]);
        let (hx, hy): (HipPath<'_, Arc>, HipPath<'_, Arc>) = (HipPath::from(pa(x)), HipPath::from(pa(y)));
        let owner_eq = hx == hy;
        let borrowed_eq = <HipPath<'_, Arc> as Borrow<OsStr>>::borrow(&hx) == <HipPath<'_, Arc> as Borrow<OsStr>>::borrow(&hy);
        let hh: HipPath<'_, Arc> = HipPath::from(pa(&hw[0]));
        let s_owner = stream(&hh);
        let s_borrowed = stream(<HipPath<'_, Arc> as Borrow<OsStr>>::borrow(&hh));
        let mut m: HashMap<HipPath<'_, Arc>, u8, FixedState> = HashMap::default();
        m.insert(hh.clone(), 1);
        let by_owner = m.get(&hh).is_some();
        let by_osstr = m.get(os(&hw[0])).is_some();
        let mut bt: BTreeMap<HipPath<'_, Arc>, u8> = BTreeMap::new();
        bt.insert(hx.clone(), 1);
        let bt_owner = bt.get(&hy).is_some();
        let bt_osstr = bt.get(os(y)).is_some();
        let reproduced = owner_eq && !borrowed_eq && s_owner != s_borrowed && by_owner && !by_osstr && bt_owner && !bt_osstr;
        out.push(json!({
            "id": "D7", "impl": "Borrow<OsStr> for HipPath", "reproduced": reproduced,
            "witness": {
                "eq": [hex(x), hex(y)], "owner_eq": owner_eq, "borrowed_eq": borrowed_eq,
                "hash": hex(&hw[0]), "owner_stream": hex(&s_owner), "borrowed_stream": hex(&s_borrowed),
                "hashmap_get_by_owner": by_owner, "hashmap_get_by_osstr": by_osstr,
                "btreemap_get_by_owner": bt_owner, "btreemap_get_by_osstr": bt_osstr,
            }
        }));
    }
    // D8
    {
        let hw = get("D8", "hash")?;
        let h: HipStr<'_, Arc> = HipStr::from(st(&hw[0]));
        let s_owner = stream(&h);
        let s_borrowed = stream(<HipStr<'_, Arc> as Borrow<BStr>>::borrow(&h));
        let mut m: HashMap<HipStr<'_, Arc>, u8, FixedState> = HashMap::default();
        m.insert(h.clone(), 1);
        let by_owner = m.get(&h).is_some();
        let by_str = m.get(st(&hw[0])).is_some();
        let by_bstr = m.get(BStr::new(&hw[0])).is_some();
        let reproduced = s_owner != s_borrowed && by_owner && by_str && !by_bstr;
        out.push(json!({
            "id": "D8", "impl": "Borrow<BStr> for HipStr", "reproduced": reproduced,
            "witness": {
                "hash": hex(&hw[0]), "owner_stream": hex(&s_owner), "borrowed_stream": hex(&s_borrowed),
                "hashmap_get_by_owner": by_owner, "hashmap_get_by_str": by_str, "hashmap_get_by_bstr": by_bstr,
            }
        }));
    }
    Ok(out)
}

// ---------------------------------------------------------------------------------------------
// generated runtime probes (`--mode probe|all`): one generic law check per row of Gen/CmpImpls

const CMP_PRELUDE: &str = include_str!("../../probes/cmp_prelude.rs");

#[derive(Clone, Debug)]
struct ProbeRow {
    borrow: bool,
    loc: String,
    tr: String,
    lhs: String,
    rhs: String,
    view: String,
    status: String,
    feature: String,
    /// hash view of the owner (borrow rows), for reporting
    raw: String,
}

impl ProbeRow {
    /// the name the driver's `rows`/`borrows` listings use
    fn name(&self) -> String {
        if self.borrow {
            let t = match self.rhs.as_str() {
                "slice" => "[u8]",
                "str" => "str",
                "osStr" => "OsStr",
                "path" => "Path",
                "bstr" => "BStr",
                o => o,
            };
            format!("Borrow<{t}> for {}", lean_operand_name(&self.lhs))
        } else {
            format!("{}<{}> for {}", self.tr, lean_operand_name(&self.rhs), lean_operand_name(&self.lhs))
        }
    }
}

fn parse_probe_rows(lines: &[String]) -> Result<Vec<ProbeRow>, String> {
    let mut out = vec![];
    for l in &lines[..lines.len() - 1] {
        let ws: Vec<&str> = l.split(' ').collect();
        match ws.as_slice() {
            ["cmp", loc, tr, lhs, rhs, view, status, feat] => out.push(ProbeRow {
                borrow: false,
                loc: loc.to_string(),
                tr: tr.to_string(),
                lhs: lhs.to_string(),
                rhs: rhs.to_string(),
                view: view.to_string(),
                status: status.to_string(),
                feature: feat.to_string(),
                raw: l.clone(),
            }),
            ["borrow", loc, owner, target, status, _eqv, _hv, feat] => out.push(ProbeRow {
                borrow: true,
                loc: loc.to_string(),
                tr: "Borrow".into(),
                lhs: owner.to_string(),
                rhs: target.to_string(),
                view: "-".into(),
                status: status.to_string(),
                feature: feat.to_string(),
                raw: l.clone(),
            }),
            _ => return Err(format!("bad `probe_rows` line `{l}`")),
        }
    }
    Ok(out)
}

/// Rust spelling of an operand: (type `T` of the impl, is `T` unsized). Arrays yield one spelling
/// per probed length. `None` = the generator cannot spell it (fail closed → coverage monitor).
fn spell_operand(op: &str, backend: &str) -> Option<Vec<(String, bool)>> {
    let parts: Vec<&str> = op.split(':').collect();
    let one = |s: String, unsized_: bool| Some(vec![(s, unsized_)]);
    match parts.as_slice() {
        ["hip", k] => {
            let t = match *k {
                "byt" => "HipByt",
                "str" => "HipStr",
                "os" => "HipOsStr",
                "path" => "HipPath",
                _ => return None,
            };
            one(format!("{t}<'static, {backend}>"), false)
        }
        ["std", t] | ["std", t, "ref"] => {
            let is_ref = parts.len() == 3;
            let base: Vec<(String, bool)> = match *t {
                "slice" => vec![("[u8]".into(), true)],
                "array" => (0..4).map(|n| (format!("[u8; {n}]"), false)).collect(),
                "vec" => vec![("Vec<u8>".into(), false)],
                "boxSlice" => vec![("Box<[u8]>".into(), false)],
                "cowSlice" => vec![("Cow<'static, [u8]>".into(), false)],
                "str" => vec![("str".into(), true)],
                "string" => vec![("String".into(), false)],
                "boxStr" => vec![("Box<str>".into(), false)],
                "cowStr" => vec![("Cow<'static, str>".into(), false)],
                "osStr" => vec![("OsStr".into(), true)],
                "osString" => vec![("OsString".into(), false)],
                "boxOsStr" => vec![("Box<OsStr>".into(), false)],
                "cowOsStr" => vec![("Cow<'static, OsStr>".into(), false)],
                "path" => vec![("Path".into(), true)],
                "pathBuf" => vec![("PathBuf".into(), false)],
                "boxPath" => vec![("Box<Path>".into(), false)],
                "cowPath" => vec![("Cow<'static, Path>".into(), false)],
                "bstr" => vec![("BStr".into(), true)],
                "bstring" => vec![("BString".into(), false)],
                _ => return None,
            };
            Some(if is_ref { base.into_iter().map(|(s, _)| (format!("&'static {s}"), false)).collect() } else { base })
        }
        _ => None,
    }
}

fn spell_target(t: &str) -> Option<&'static str> {
    Some(match t {
        "slice" => "[u8]",
        "str" => "str",
        "osStr" => "OsStr",
        "path" => "Path",
        "bstr" => "BStr",
        _ => return None,
    })
}

/// `let <var>: Vec<(Bytes, &T)> = …;` from samples of the holder type (`&'static T` when `T` is unsized).
fn refs_of(var: &str, t: &str, unsized_: bool) -> String {
    if unsized_ {
        format!("let {var}_s = samples::<&'static {t}>(); let {var}: Vec<(Bytes, &{t})> = {var}_s.iter().map(|(b, v)| (*b, *v)).collect();")
    } else {
        format!("let {var}_s = samples::<{t}>(); let {var}: Vec<(Bytes, &{t})> = {var}_s.iter().map(|(b, v)| (*b, v)).collect();")
    }
}

struct ProbeBlock {
    row: usize,
    first_line: usize,
    last_line: usize,
}

struct ProbeOutcome {
    rows: Vec<ProbeRow>,
    /// rows (index) the generator could not spell, with the reason
    unspellable: Vec<(usize, String)>,
    /// rows (index) whose block did not compile, with rustc's message
    uncompilable: Vec<(usize, String)>,
    blocks: usize,
    executed_rows: BTreeSet<usize>,
    checks: u64,
    /// (row index, backend, law) → (count, first witness line)
    violations: BTreeMap<(usize, String), (u64, String)>,
    build_ms: u128,
    run_ms: u128,
}

fn probe_phase(lean: &mut Lean, repo_dir: &Path, tier: &str, keep: bool) -> Result<ProbeOutcome, String> {
    let rows = parse_probe_rows(&lean.ask_multi("probe_rows")?)?;
    let keyset: BTreeSet<(String, String, String)> = rows.iter().filter(|r| !r.borrow).map(|r| (r.tr.clone(), r.lhs.clone(), r.rhs.clone())).collect();
    let mut skip: BTreeSet<usize> = BTreeSet::new();
    let mut uncompilable: Vec<(usize, String)> = vec![];
    let dir = std::path::PathBuf::from(format!("/tmp/scratch/cmpprobe-{}", std::process::id()));
    let cleanup = |dir: &Path| {
        if !keep {
            let _ = std::fs::remove_dir_all(dir);
        }
    };
    let t0 = std::time::Instant::now();
    // rows whose block does not compile (stale table / impl not as listed) are reported and left out
    // of a second build, so that the other rows still run
    let (blocks, unspellable) = loop {
    let mut main_src = String::from("fn main() {\n");
    let prelude_lines = CMP_PRELUDE.lines().count();
    let mut line = prelude_lines + 2; // 1-based line of the next line to be written
    let mut blocks: Vec<ProbeBlock> = vec![];
    let mut unspellable = vec![];
    let all_b = ["Arc", "Rc", "Unique"];
    let one_b: &[&str] = if tier == "thorough" { &all_b } else { &all_b[..1] };
    let pair_b: &[(&str, &str)] = &[("Arc", "Arc"), ("Rc", "Rc"), ("Unique", "Unique"), ("Arc", "Rc"), ("Rc", "Unique"), ("Unique", "Arc")];
    for (ri, r) in rows.iter().enumerate() {
        if skip.contains(&ri) {
            continue;
        }
        if !matches!(r.feature.as_str(), "-" | "std" | "bstr" | "std+bstr" | "bstr+std") {
            unspellable.push((ri, format!("unknown cfg feature `{}`", r.feature)));
            continue;
        }
        let mut emit = |body: String, blocks: &mut Vec<ProbeBlock>, line: &mut usize| {
            let n = body.lines().count();
            blocks.push(ProbeBlock { row: ri, first_line: *line, last_line: *line + n - 1 });
            main_src.push_str(&body);
            *line += n;
        };
        let rowtag = |b: &str| format!("{}|{}|{}", ri, r.name(), b);
        if r.borrow {
            let Some(t) = spell_target(&r.rhs) else {
                unspellable.push((ri, format!("unknown Borrow target `{}`", r.rhs)));
                continue;
            };
            for b in all_b {
                let Some(o) = spell_operand(&r.lhs, b) else {
                    unspellable.push((ri, format!("unknown owner `{}`", r.lhs)));
                    break;
                };
                let o = &o[0].0;
                emit(format!("    {{ let xs = samples::<{o}>();\n      borrow_laws::<{o}, {t}>({:?}, &xs); }}\n", rowtag(b)), &mut blocks, &mut line);
            }
            continue;
        }
        let lhs_hip = r.lhs.starts_with("hip:");
        let rhs_hip = r.rhs.starts_with("hip:");
        match r.tr.as_str() {
            "PartialEq" | "PartialOrd" => {
                if r.view == "none" {
                    unspellable.push((ri, "the model names no std view for this operand pair".into()));
                    continue;
                }
                let backs: Vec<(&str, &str)> = if lhs_hip && rhs_hip { pair_b.to_vec() } else { one_b.iter().map(|b| (*b, *b)).collect() };
                let has_rev = keyset.contains(&(r.tr.clone(), r.rhs.clone(), r.lhs.clone())) && r.lhs <= r.rhs;
                let (f_row, f_sym) = if r.tr == "PartialEq" { ("eq_row", "eq_sym") } else { ("ord_row", "ord_sym") };
                'b: for (b1, b2) in backs {
                    let (Some(ls), Some(rs)) = (spell_operand(&r.lhs, b1), spell_operand(&r.rhs, b2)) else {
                        unspellable.push((ri, format!("unknown operand `{}` or `{}`", r.lhs, r.rhs)));
                        break 'b;
                    };
                    let btag = if lhs_hip && rhs_hip { format!("{b1}/{b2}") } else { b1.to_string() };
                    for (lt, lu) in &ls {
                        for (rt, ru) in &rs {
                            // same type on both sides: ONE sample vector, so that related values (views of one
                            // buffer, clones) meet each other
                            let ys = if lt == rt { format!("let yr: Vec<(Bytes, &{rt})> = xr.clone();") } else { refs_of("yr", rt, *ru) };
                            let mut body = format!("    {{ {}\n      {ys}\n      {f_row}::<{lt}, {rt}>({:?}, {:?}, &xr, &yr);\n", refs_of("xr", lt, *lu), rowtag(&btag), r.view);
                            if has_rev {
                                body.push_str(&format!("      {f_sym}::<{lt}, {rt}>({:?}, &xr, &yr);\n", rowtag(&btag)));
                            }
                            body.push_str("    }\n");
                            emit(body, &mut blocks, &mut line);
                        }
                    }
                }
            }
            "Ord" | "Eq" | "Hash" => {
                if !lhs_hip || r.lhs != r.rhs {
                    unspellable.push((ri, format!("`{}` row between different / non-Hip types", r.tr)));
                    continue;
                }
                if r.tr != "Eq" && r.view == "none" {
                    unspellable.push((ri, "the model names no std view for this row".into()));
                    continue;
                }
                for b in all_b {
                    let Some(o) = spell_operand(&r.lhs, b) else {
                        unspellable.push((ri, format!("unknown operand `{}`", r.lhs)));
                        break;
                    };
                    let o = &o[0].0;
                    let call = match r.tr.as_str() {
                        "Ord" => format!("cmp_row::<{o}>({:?}, {:?}, &xs);", rowtag(b), r.view),
                        "Hash" => format!("hash_row::<{o}>({:?}, {:?}, &xs);", rowtag(b), r.view),
                        _ => format!("eq_marker::<{o}>({:?}, &xs);", rowtag(b)),
                    };
                    emit(format!("    {{ let xs = samples::<{o}>();\n      {call} }}\n"), &mut blocks, &mut line);
                }
            }
            t => unspellable.push((ri, format!("unknown trait `{t}`"))),
        }
    }
    main_src.push_str(&format!("    println!(\"DONE\\t{}\");\n}}\n", blocks.len()));

    // ---- the throw-away crate
    if skip.is_empty() {
        let _ = std::fs::remove_dir_all(&dir);
    }
    let wr = |p: std::path::PathBuf, c: &str| -> Result<(), String> {
        if let Some(d) = p.parent() {
            std::fs::create_dir_all(d).map_err(|e| format!("mkdir {d:?}: {e}"))?;
        }
        std::fs::write(&p, c).map_err(|e| format!("write {p:?}: {e}"))
    };
    let repo_abs = std::fs::canonicalize(repo_dir).map_err(|e| format!("--repo {repo_dir:?}: {e}"))?;
    wr(
        dir.join("Cargo.toml"),
        &format!(
            "[package]\nname = \"probe_cmp\"\nversion = \"0.0.0\"\nedition = \"2021\"\npublish = false\n\n[workspace]\n\n[dependencies]\nhipstr = {{ path = {:?}, features = [\"bstr\"] }}\nbstr = {{ version = \"1.3\", default-features = false, features = [\"alloc\"] }}\n\n[profile.dev]\nopt-level = 0\ndebug = false\n",
            repo_abs.to_string_lossy()
        ),
    )?;
    wr(dir.join(".cargo/config.toml"), "[net]\noffline = true\n")?;
    let lock = [repo_abs.join("Cargo.lock"), std::path::PathBuf::from(concat!(env!("CARGO_MANIFEST_DIR"), "/Cargo.lock"))].into_iter().find(|p| p.exists()).ok_or("no Cargo.lock in the repo or next to the harness")?;
    std::fs::copy(&lock, dir.join("Cargo.lock")).map_err(|e| format!("copy {lock:?}: {e}"))?;
    wr(dir.join("src/main.rs"), &format!("{CMP_PRELUDE}\n{main_src}"))?;

    let out = Command::new("cargo")
        .args(["build", "--message-format=json"])
        .current_dir(&dir)
        .env("CARGO_TARGET_DIR", dir.join("target"))
        .env_remove("RUSTFLAGS")
        .output()
        .map_err(|e| format!("cannot run cargo: {e}"))?;
    let mut newly: Vec<usize> = vec![];
    let mut other_errors = vec![];
    for l in String::from_utf8_lossy(&out.stdout).lines() {
        let Ok(v) = serde_json::from_str::<Value>(l) else { continue };
        if v["reason"] != "compiler-message" || v["message"]["level"] != "error" {
            continue;
        }
        let text = v["message"]["message"].as_str().unwrap_or("").to_string();
        if text.starts_with("aborting due to") || text.starts_with("could not compile") {
            continue;
        }
        let ln = v["message"]["spans"].as_array().and_then(|s| s.iter().find(|s| s["is_primary"] == true)).and_then(|s| s["line_start"].as_u64()).unwrap_or(0) as usize;
        let target = v["target"]["name"].as_str().unwrap_or("");
        match blocks.iter().find(|b| target == "probe_cmp" && b.first_line <= ln && ln <= b.last_line) {
            Some(b) => {
                if !uncompilable.iter().any(|(r, _)| *r == b.row) {
                    uncompilable.push((b.row, text));
                    newly.push(b.row);
                }
            }
            None => other_errors.push(format!("{target}:{ln}: {text}")),
        }
    }
    if !out.status.success() && (newly.is_empty() || skip.len() > 64) {
        let err = String::from_utf8_lossy(&out.stderr);
        cleanup(&dir);
        return Err(format!("the probe crate does not build: {} {}", other_errors.join(" | "), err.lines().rev().take(5).collect::<Vec<_>>().join(" | ")));
    }
    if out.status.success() {
        break (blocks, unspellable);
    }
    skip.extend(newly);
    };
    let build_ms = t0.elapsed().as_millis();
    let mut outcome = ProbeOutcome {
        rows,
        unspellable,
        uncompilable,
        blocks: blocks.len(),
        executed_rows: BTreeSet::new(),
        checks: 0,
        violations: BTreeMap::new(),
        build_ms,
        run_ms: 0,
    };
    let t1 = std::time::Instant::now();
    let run = Command::new(dir.join("target/debug/probe_cmp")).output().map_err(|e| format!("cannot run the probe program: {e}"))?;
    outcome.run_ms = t1.elapsed().as_millis();
    let stdout = String::from_utf8_lossy(&run.stdout).to_string();
    cleanup(&dir);
    let mut done = false;
    for l in stdout.lines() {
        let f: Vec<&str> = l.split('\t').collect();
        let row_of = |tag: &str| -> Option<(usize, String)> {
            let mut it = tag.splitn(3, '|');
            let ri: usize = it.next()?.parse().ok()?;
            let _name = it.next()?;
            Some((ri, it.next()?.to_string()))
        };
        match f.as_slice() {
            ["R", tag, n] => {
                let (ri, _) = row_of(tag).ok_or_else(|| format!("bad probe output `{l}`"))?;
                outcome.executed_rows.insert(ri);
                outcome.checks += n.parse::<u64>().unwrap_or(0);
            }
            ["V", tag, law, x, y, detail] => {
                let (ri, b) = row_of(tag).ok_or_else(|| format!("bad probe output `{l}`"))?;
                let e = outcome.violations.entry((ri, law.to_string())).or_insert((0, String::new()));
                if e.1.is_empty() {
                    let show = |h: &str| match unhex(h) {
                        Some(bytes) => format!("{h}({:?})", String::from_utf8_lossy(&bytes)),
                        None => h.to_string(),
                    };
                    e.1 = format!("[{b}] {law} violated for x={} y={}: {detail}", show(x), show(y));
                }
            }
            ["C", tag, law, n] => {
                let (ri, _) = row_of(tag).ok_or_else(|| format!("bad probe output `{l}`"))?;
                let e = outcome.violations.entry((ri, law.to_string())).or_insert((0, String::new()));
                e.0 += n.parse::<u64>().unwrap_or(0);
            }
            ["DONE", _] => done = true,
            _ => return Err(format!("bad probe output `{l}`")),
        }
    }
    if !run.status.success() || !done {
        return Err(format!("the probe program failed ({}): {}", run.status, String::from_utf8_lossy(&run.stderr).lines().rev().take(3).collect::<Vec<_>>().join(" | ")));
    }
    Ok(outcome)
}

fn main() {
    let cli = parse_cli();
    let code = match real_main(&cli) {
        Ok(c) => c,
        Err(e) => {
            eprintln!("cmpdrive: internal error: {e}");
            if let Some(out) = &cli.out {
                let _ = std::fs::write(out, json!({"internal_error": e}).to_string());
            }
            2
        }
    };
    std::process::exit(code);
}

fn real_main(cli: &hipverif_harness::util::Cli) -> Result<i32, String> {
    let lean_path = cli.lean.clone().ok_or("--lean <views_driver> is required")?;
    let mut lean = Lean::spawn(&lean_path).map_err(|e| format!("spawn {lean_path}: {e}"))?;
    // silence the default panic message of caught panics
    std::panic::set_hook(Box::new(|_| {}));

    // `--mode all|diff|probe` (default all), `--repo <dir>` (default /repo: the tree the generated probe
    // program is built against), `--keep` (keep the generated crate)
    let mut mode = "all".to_string();
    let mut repo_dir = PathBuf::from("/repo");
    let mut keep = false;
    let mut i = 0;
    while i < cli.extra.len() {
        match cli.extra[i].as_str() {
            "--mode" => {
                i += 1;
                mode = cli.extra.get(i).cloned().ok_or("--mode value")?;
            }
            "--repo" => {
                i += 1;
                repo_dir = PathBuf::from(cli.extra.get(i).ok_or("--repo value")?);
            }
            "--keep" => keep = true,
            o => return Err(format!("unknown argument {o}")),
        }
        i += 1;
    }
    if !matches!(mode.as_str(), "all" | "diff" | "probe") {
        return Err(format!("unknown --mode {mode}"));
    }
    let do_diff = mode != "probe";
    let do_probe = mode != "diff" && cli.replay.is_none();

    let mut cx = Cx::new();
    let (pool, master, prefix_idx) = if !do_diff {
        (vec![], 0usize, vec![])
    } else if let Some(file) = &cli.replay {
        // replay: the recorded op line(s) give the two byte strings and the label prefix to trace
        let txt = std::fs::read_to_string(file).map_err(|e| format!("read {file}: {e}"))?;
        let v: Value = serde_json::from_str(&txt).map_err(|e| format!("parse {file}: {e}"))?;
        let line = v["input"][0].as_str().or_else(|| v["disagreements"][0]["input"][0].as_str()).ok_or("replay file has no input[0] op line")?.to_string();
        let ws: Vec<&str> = line.split(' ').collect();
        // `<op> <lhs label> <rhs label> <rep> <hexA> <hexB>` or `borrow-<what> <label> <T> <rep> <hexA> <hexB> …`
        if ws.len() < 6 {
            return Err(format!("cannot parse op line `{line}`"));
        }
        let a = unhex(ws[4]).ok_or("bad hex")?;
        let b = unhex(ws[5]).ok_or("bad hex")?;
        cx.trace = Some(ws[..6].join(" "));
        let mut pool = vec![a.clone()];
        if b != a {
            pool.push(b);
        }
        let master = 0;
        (pool, master, vec![(0usize, 0usize); 0])
    } else {
        make_pool(&cli.tier, cli.seed)
    };
    let replaying = cli.replay.is_some();
    let prefix_idx: Vec<(usize, usize)> = if replaying { vec![(pool[0].len(), 0)] } else { prefix_idx };

    let t0 = std::time::Instant::now();
    let model = Model::fetch(&mut lean, &pool)?;
    let t_model = t0.elapsed();
    let stds: Vec<StdVals> = pool.iter().map(|b| StdVals::new(b)).collect();
    let mut env = Env { pool: &pool, stds: &stds, model, lean };
    if do_diff {
        run(&mut cx, &mut env, master, &prefix_idx)?;
    }
    let mut lean = env.lean;
    // second pass: the word-boundary family (all impls again, small pool)
    let (pool2, master2, prefix2) = if do_diff && !replaying { make_word_pool() } else { (vec![], 0, vec![]) };
    let stds2: Vec<StdVals> = pool2.iter().map(|b| StdVals::new(b)).collect();
    if !pool2.is_empty() {
        let model2 = Model::fetch(&mut lean, &pool2)?;
        let mut env2 = Env { pool: &pool2, stds: &stds2, model: model2, lean };
        run(&mut cx, &mut env2, master2, &prefix2)?;
        lean = env2.lean;
    }

    // generated generic probes: every row the driver lists
    let probe = if do_probe { Some(probe_phase(&mut lean, &repo_dir, &cli.tier, keep)?) } else { None };
    let probed_names: BTreeSet<String> = probe.as_ref().map_or(BTreeSet::new(), |p| p.executed_rows.iter().map(|ri| p.rows[*ri].name()).collect());

    // coverage of the generated table by the harness
    let rows = lean.ask_multi("rows")?;
    let mut uncovered = vec![];
    let mut bad_rows = vec![];
    for l in &rows[..rows.len() - 1] {
        // `<loc> <Trait<rhs> for lhs> ok|BAD expected=… got=…`
        let ws: Vec<&str> = l.split(' ').collect();
        if ws.len() < 6 {
            return Err(format!("bad `rows` line `{l}`"));
        }
        let name = ws[1..4].join(" ");
        if !cx.covered.contains(&name) {
            uncovered.push(format!("{} {}", ws[0], name));
        }
        if ws[4] != "ok" {
            bad_rows.push(l.clone());
        }
    }
    let borrows = lean.ask_multi("borrows")?;
    let mut model_known: BTreeSet<String> = BTreeSet::new();
    let mut model_ok: BTreeSet<String> = BTreeSet::new();
    for l in &borrows[..borrows.len() - 1] {
        let ws: Vec<&str> = l.split(' ').collect();
        if ws.len() < 5 {
            return Err(format!("bad `borrows` line `{l}`"));
        }
        let name = ws[1..4].join(" ");
        if !cx.covered_borrows.contains(&name) {
            uncovered.push(format!("{} {}", ws[0], name));
        }
        match ws[4] {
            "ok" => {
                model_ok.insert(name);
            }
            "KNOWN" => {
                model_known.insert(name);
            }
            _ => bad_rows.push(l.clone()),
        }
    }
    // an impl without hand-written calls is acceptable only when the generated probes executed it
    let uncovered_by_hand = uncovered.clone();
    // (rows the probe generator could not spell / rustc rejected are reported as `monitor` coverage below)
    let cov_reported: BTreeSet<String> = probe.as_ref().map_or(BTreeSet::new(), |p| p.unspellable.iter().chain(p.uncompilable.iter()).map(|(ri, _)| p.rows[*ri].name()).collect());
    uncovered.retain(|u| {
        let name = u.splitn(2, ' ').nth(1).unwrap_or("");
        !probed_names.contains(name) && !cov_reported.contains(name)
    });
    if !replaying && (do_diff || do_probe) {
        for u in &uncovered {
            cx.internal.push(format!("impl in Gen/CmpImpls exercised neither by hand-written calls nor by a generated probe: {u}"));
        }
    }
    // probe verdicts
    let mut probe_known: BTreeMap<String, (u64, String)> = BTreeMap::new();
    if let Some(p) = &probe {
        for (ri, why) in &p.unspellable {
            let r = &p.rows[*ri];
            cx.disagree("monitor", &r.name(), "coverage", format!("probe_rows {}", r.raw), "a generated runtime probe for this row".into(), format!("cannot be generated: {why} @ {}", r.loc), 0);
        }
        for (ri, msg) in &p.uncompilable {
            let r = &p.rows[*ri];
            cx.disagree("monitor", &r.name(), "coverage", format!("probe_rows {}", r.raw), "the generated probe for this row compiles (the impl exists as listed)".into(), format!("rustc: {msg} @ {}", r.loc), 0);
        }
        for ((ri, law), (n, first)) in &p.violations {
            let r = &p.rows[*ri];
            let name = r.name();
            if r.borrow && r.status == "KNOWN" {
                let e = probe_known.entry(name).or_insert((0, String::new()));
                e.0 += n;
                if e.1.is_empty() {
                    e.1 = format!("{}: {first} @ {}", r.name(), r.loc);
                }
                continue;
            }
            let law_s: &'static str = Box::leak(law.clone().into_boxed_str());
            cx.disagree("impl-vs-oracle", &name, law_s, format!("probe {} {name} {first}", r.loc), format!("law holds: {law}"), format!("{n} violation(s) @ {}", r.loc), 0);
        }
        // a row the model accepts as a known finding must actually misbehave; a row it rejects (BAD)
        // is already reported through `rows_c12` / the table theorems
        cx.evaluations += p.checks;
        *cx.distribution.entry("generated probes".into()).or_insert(0) += p.checks;
    }

    // Borrow violations: known findings vs disagreements
    let known_ids: [(&str, &str); 2] = [("D7", "Borrow<OsStr> for HipPath"), ("D8", "Borrow<BStr> for HipStr")];
    let mut known = replay_witnesses(&mut lean)?;
    let mut not_reproduced = vec![];
    for (id, name) in known_ids {
        let entry = known.iter_mut().find(|k| k["id"] == id).unwrap();
        let sweep = cx.borrow_violations.remove(name);
        let pk = probe_known.get(name);
        entry["probe_violations"] = json!(pk.map_or(0, |p| p.0));
        if let Some(p) = pk {
            entry["probe_first"] = json!(p.1);
        }
        entry["model_says_incoherent"] = json!(model_known.contains(name));
        match &sweep {
            Some((w, n)) => {
                entry["sweep_violations"] = json!(n);
                entry["sweep_first"] = json!(w);
            }
            None => entry["sweep_violations"] = json!(0),
        }
        let reproduced = entry["reproduced"] == json!(true) && (sweep.is_some() || replaying || !do_diff) && (pk.is_some() || !do_probe);
        entry["reproduced"] = json!(reproduced);
        if !reproduced {
            not_reproduced.push(id);
        }
        if !model_known.contains(name) && !replaying {
            cx.disagree("impl-vs-model", name, "borrow", format!("borrows {name}"), "incoherent (known finding)".into(), "model says coherent".into(), 0);
        }
    }
    let remaining: Vec<(String, (String, u64))> = cx.borrow_violations.iter().map(|(k, v)| (k.clone(), v.clone())).collect();
    for (name, (w, n)) in remaining {
        cx.disagree("monitor", &name, "borrow", w, "Borrow contract holds (x==y ⇔ x.borrow()==y.borrow(), same cmp, same hash stream, map lookups hit)".into(), format!("{n} violation(s)"), 0);
    }
    for r in &bad_rows {
        cx.disagree("monitor", "Gen.CmpImpls", "rowOk", r.clone(), "ok".into(), "BAD".into(), 0);
    }

    let all = cx.all_disagreements();
    let n_groups = all.len();
    let disagreements: Vec<Value> = all
        .iter()
        .map(|(d, n)| json!({"kind": d.kind, "source": d.source, "input": [d.op], "expected": d.expected, "observed": d.observed, "count": n,
                             "profile": if cfg!(debug_assertions) { "debug" } else { "release" }}))
        .collect();
    let first: Vec<String> = all.iter().take(20).map(|(d, n)| format!("DISAGREEMENT {} source={} x{n}: {} expected={} observed={}", d.kind, d.source, d.op, d.expected, d.observed)).collect();
    let stats = json!({
        "evaluations": cx.evaluations,
        "distinct_nontrivial": cx.distinct.len(),
        "rule": "exhaustive ordered pairs of byte strings of length <= 3 over {a,b,/,.,0x80} (0x80 dropped for str-typed operands) plus heap-sized strings with common prefixes plus U+FFFD / case-variant / trailing-NUL strings (lossy or normalising comparisons) plus seeded random strings (len 4..40); a second all-pairs pass over 8-40-byte operands differing at 1-3 positions inside the first word / at the word boundary / in the tail; related operands (views of one heap buffer at different offsets, clones, copies, lines()); every comparison impl (Hip x Hip all backend pairs, Hip x std both orders) x representations; ==, !=, partial_cmp, <,<=,>,>=, cmp; recording-Hasher streams; Borrow laws and HashMap/BTreeMap lookups through every Borrow impl",
        "exhaustive": true,
        "tier": cli.tier,
        "seed": cli.seed,
        "pool_size": pool.len(),
        "word_family_pool_size": pool2.len(),
        "model_fetch_ms": t_model.as_millis() as u64,
        "total_ms": t0.elapsed().as_millis() as u64,
        "distribution": cx.distribution,
        "samples": cx.samples,
        "table_rows": rows.len() - 1,
        "borrow_rows": borrows.len() - 1,
        "uncovered_impls": uncovered,
        "mode": mode,
        "impls_without_handwritten_calls": uncovered_by_hand,
        "probe": probe.as_ref().map(|p| json!({
            "rows_listed": p.rows.len(),
            "rows_executed": p.executed_rows.len(),
            "blocks": p.blocks,
            "checks": p.checks,
            "unspellable_rows": p.unspellable.len(),
            "uncompilable_rows": p.uncompilable.len(),
            "build_ms": p.build_ms as u64,
            "run_ms": p.run_ms as u64,
        })),
        "known_findings_reproduced": known.iter().filter(|k| k["reproduced"] == json!(true)).collect::<Vec<_>>(),
        "known_findings_not_reproduced": known.iter().filter(|k| k["reproduced"] != json!(true)).collect::<Vec<_>>(),
        "internal_errors": cx.internal,
        "disagreements": disagreements,
    });
    if let Some(out) = &cli.out {
        std::fs::write(out, serde_json::to_string_pretty(&stats).unwrap()).map_err(|e| format!("write {out}: {e}"))?;
    }
    for k in &known {
        if k["reproduced"] == json!(true) {
            println!("KNOWN-FINDING-REPRODUCED {} {}", k["id"].as_str().unwrap(), k["impl"].as_str().unwrap());
        } else {
            println!("KNOWN-FINDING-NOT-REPRODUCED {} {}", k["id"].as_str().unwrap(), k["impl"].as_str().unwrap());
        }
    }
    println!(
        "cmpdrive: {} evaluations, {} distinct, {} disagreement group(s), {} internal error(s), {} ms",
        cx.evaluations,
        cx.distinct.len(),
        n_groups,
        cx.internal.len(),
        t0.elapsed().as_millis()
    );
    for l in &first {
        println!("{l}");
    }
    for e in cx.internal.iter().take(20) {
        println!("INTERNAL {e}");
    }
    if !cx.internal.is_empty() {
        return Ok(2);
    }
    Ok(if n_groups == 0 { 0 } else { 1 })
}
