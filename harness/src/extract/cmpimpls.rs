//! `Gen/CmpImpls.lean` (property C12): one row per `PartialEq`/`PartialOrd`/`Ord`/`Eq`/`Hash`/`Borrow`
//! impl the crate offers on `HipByt`/`HipStr`/`HipOsStr`/`HipPath`, recording **what the source says**.
//!
//! * `symmetric_eq!` / `symmetric_ord!` invocations are parsed structurally: every row
//!   `[gen] [where …] (A, B) = f;` yields one table row per impl template of the macro (two: both
//!   operand orders). The templates themselves are read from the `macro_rules!` definitions in
//!   `src/macros.rs` (Self type, parameter type, argument order of the `$f(…)` call, whether
//!   `.map(core::cmp::Ordering::reverse)` is applied).
//! * each helper `f` is resolved (same file, or through a `use super::…::{f}`), its signature gives
//!   the two `impl AsRef<…>` targets and its body the operator (`==` / `partial_cmp`).
//! * every hand-written impl of those traits for a Hip type is classified by the shape of its body
//!   (`self.inherent_eq(other)`, `self.0 == other.0`, `[ptr::eq(..) ||] self.acc() op other.acc()`,
//!   `self.acc().hash(state)`, `self.acc()` / `BStr::new(self.acc())` for `Borrow`).
//! * plus the facts those bodies rely on: what `.0` is (`newtypes`), what each accessor returns
//!   (`accessorSigs`) and the statements of `HipByt::inherent_eq` (`inherentEq`).
//!
//! The translator never decides through which view an impl compares: `viewOf`/`rowOk` in
//! `HipVerif/Model/Views.lean` do. Any unrecognised shape is an `Err` (fail closed).

use proc_macro2::{Delimiter, Group, Ident, Span, TokenStream, TokenTree};
use syn::parse::{Parse, ParseStream};
use syn::{Expr, FnArg, GenericArgument, ImplItem, Item, ItemFn, ItemImpl, Pat, PathArguments, Stmt, Type};

use super::repo::{loc, SrcFile};
use super::{GenFile, Repo, HEADER};

// ---------------------------------------------------------------------------------------------
// small vocabulary shared with HipVerif/Model/ViewsTy.lean

#[derive(Clone, Copy, PartialEq, Eq, Debug, PartialOrd, Ord)]
enum Hip {
    Byt,
    Str,
    Os,
    Path,
}

impl Hip {
    fn lean(self) -> &'static str {
        match self {
            Hip::Byt => ".byt",
            Hip::Str => ".str",
            Hip::Os => ".os",
            Hip::Path => ".path",
        }
    }
    fn from_ident(s: &str) -> Option<Hip> {
        Some(match s {
            "HipByt" => Hip::Byt,
            "HipStr" => Hip::Str,
            "HipOsStr" => Hip::Os,
            "HipPath" => Hip::Path,
            _ => return None,
        })
    }
    fn rust(self) -> &'static str {
        match self {
            Hip::Byt => "HipByt",
            Hip::Str => "HipStr",
            Hip::Os => "HipOsStr",
            Hip::Path => "HipPath",
        }
    }
}

#[derive(Clone, PartialEq, Eq, Debug)]
enum Operand {
    Hip(Hip),
    Std(&'static str, bool),
}

impl Operand {
    fn lean(&self) -> String {
        match self {
            Operand::Hip(h) => format!(".hip {}", h.lean()),
            Operand::Std(s, r) => format!(".std .{s} {r}"),
        }
    }
}

#[derive(Clone, Copy, PartialEq, Eq, Debug)]
enum Target {
    Slice,
    Str,
    OsStr,
    Path,
    BStr,
}

impl Target {
    fn lean(self) -> &'static str {
        match self {
            Target::Slice => ".slice",
            Target::Str => ".str",
            Target::OsStr => ".osStr",
            Target::Path => ".path",
            Target::BStr => ".bstr",
        }
    }
}

#[derive(Clone, Copy, PartialEq, Eq, Debug)]
enum Op {
    EqEq,
    PartialCmp,
    Cmp,
}

impl Op {
    fn lean(self) -> &'static str {
        match self {
            Op::EqEq => ".eqeq",
            Op::PartialCmp => ".partialCmp",
            Op::Cmp => ".cmp",
        }
    }
}

#[derive(Clone, Copy, PartialEq, Eq, Debug)]
enum Trait {
    PartialEq,
    PartialOrd,
    Ord,
    Eq,
    Hash,
    Borrow,
}

impl Trait {
    fn lean(self) -> &'static str {
        match self {
            Trait::PartialEq => ".partialEq",
            Trait::PartialOrd => ".partialOrd",
            Trait::Ord => ".ord",
            Trait::Eq => ".eq",
            Trait::Hash => ".hash",
            Trait::Borrow => ".borrow",
        }
    }
    fn from_ident(s: &str) -> Option<Trait> {
        Some(match s {
            "PartialEq" => Trait::PartialEq,
            "PartialOrd" => Trait::PartialOrd,
            "Ord" => Trait::Ord,
            "Eq" => Trait::Eq,
            "Hash" => Trait::Hash,
            "Borrow" => Trait::Borrow,
            _ => return None,
        })
    }
}

#[derive(Clone, Copy, PartialEq, Eq, Debug)]
enum Arg {
    SelfArg,
    Other,
}

impl Arg {
    fn lean(self) -> &'static str {
        match self {
            Arg::SelfArg => ".self",
            Arg::Other => ".other",
        }
    }
}

#[derive(Clone, Copy, PartialEq, Eq, Debug, PartialOrd, Ord)]
enum Accessor {
    AsSlice,
    AsBytes,
    AsStr,
    AsOsStr,
    AsPath,
}

impl Accessor {
    fn lean(self) -> &'static str {
        match self {
            Accessor::AsSlice => ".asSlice",
            Accessor::AsBytes => ".asBytes",
            Accessor::AsStr => ".asStr",
            Accessor::AsOsStr => ".asOsStr",
            Accessor::AsPath => ".asPath",
        }
    }
    fn rust(self) -> &'static str {
        match self {
            Accessor::AsSlice => "as_slice",
            Accessor::AsBytes => "as_bytes",
            Accessor::AsStr => "as_str",
            Accessor::AsOsStr => "as_os_str",
            Accessor::AsPath => "as_path",
        }
    }
    fn from_ident(s: &str) -> Option<Accessor> {
        Some(match s {
            "as_slice" => Accessor::AsSlice,
            "as_bytes" => Accessor::AsBytes,
            "as_str" => Accessor::AsStr,
            "as_os_str" => Accessor::AsOsStr,
            "as_path" => Accessor::AsPath,
            _ => return None,
        })
    }
}

fn lean_str(s: &str) -> String {
    format!("\"{}\"", s.replace('\\', "\\\\").replace('"', "\\\""))
}

// ---------------------------------------------------------------------------------------------
// generic syn helpers

fn last_ident(p: &syn::Path) -> String {
    p.segments.last().map(|s| s.ident.to_string()).unwrap_or_default()
}

fn path_is_single(e: &Expr, name: &str) -> bool {
    matches!(e, Expr::Path(p) if p.qself.is_none() && p.path.is_ident(name))
}

fn type_args(seg: &syn::PathSegment) -> Vec<&Type> {
    match &seg.arguments {
        PathArguments::AngleBracketed(a) => a
            .args
            .iter()
            .filter_map(|g| if let GenericArgument::Type(t) = g { Some(t) } else { None })
            .collect(),
        _ => vec![],
    }
}

fn is_u8(t: &Type) -> bool {
    matches!(t, Type::Path(p) if p.qself.is_none() && p.path.is_ident("u8"))
}

/// The unsized view type named by `t` (`[u8]`, `str`, `OsStr`, `Path`, `BStr`, any path prefix).
fn target_of_type(t: &Type) -> Option<Target> {
    match t {
        Type::Slice(s) if is_u8(&s.elem) => Some(Target::Slice),
        Type::Path(p) if p.qself.is_none() => {
            let seg = p.path.segments.last()?;
            if !matches!(seg.arguments, PathArguments::None) {
                return None;
            }
            match seg.ident.to_string().as_str() {
                "str" => Some(Target::Str),
                "OsStr" => Some(Target::OsStr),
                "Path" => Some(Target::Path),
                "BStr" => Some(Target::BStr),
                _ => None,
            }
        }
        _ => None,
    }
}

fn hip_of_type(t: &Type) -> Option<Hip> {
    match t {
        Type::Path(p) if p.qself.is_none() => Hip::from_ident(&last_ident(&p.path)),
        _ => None,
    }
}

/// Operand type of a macro row / trait argument.
fn operand_of_type(t: &Type, ctx: &str) -> Result<Operand, String> {
    let bad = || format!("{ctx}: unsupported operand type `{}`", quote::quote!(#t));
    match t {
        Type::Reference(r) => {
            if r.mutability.is_some() {
                return Err(bad());
            }
            match operand_of_type(&r.elem, ctx)? {
                Operand::Std(s, false) => Ok(Operand::Std(s, true)),
                _ => Err(bad()),
            }
        }
        Type::Slice(s) if is_u8(&s.elem) => Ok(Operand::Std("slice", false)),
        Type::Array(a) if is_u8(&a.elem) => Ok(Operand::Std("array", false)),
        Type::Path(p) if p.qself.is_none() => {
            let seg = p.path.segments.last().ok_or_else(bad)?;
            let name = seg.ident.to_string();
            if let Some(h) = Hip::from_ident(&name) {
                return Ok(Operand::Hip(h));
            }
            let args = type_args(seg);
            let inner_target = |args: &[&Type]| -> Option<Target> {
                if args.len() == 1 {
                    target_of_type(args[0])
                } else {
                    None
                }
            };
            let std = match (name.as_str(), args.len()) {
                ("str", 0) => "str",
                ("String", 0) => "string",
                ("OsStr", 0) => "osStr",
                ("OsString", 0) => "osString",
                ("Path", 0) => "path",
                ("PathBuf", 0) => "pathBuf",
                ("BStr", 0) => "bstr",
                ("BString", 0) => "bstring",
                ("Vec", 1) if is_u8(args[0]) => "vec",
                ("Box", 1) => match inner_target(&args) {
                    Some(Target::Slice) => "boxSlice",
                    Some(Target::Str) => "boxStr",
                    Some(Target::OsStr) => "boxOsStr",
                    Some(Target::Path) => "boxPath",
                    _ => return Err(bad()),
                },
                ("Cow", 1) => match inner_target(&args) {
                    Some(Target::Slice) => "cowSlice",
                    Some(Target::Str) => "cowStr",
                    Some(Target::OsStr) => "cowOsStr",
                    Some(Target::Path) => "cowPath",
                    _ => return Err(bad()),
                },
                _ => return Err(bad()),
            };
            Ok(Operand::Std(std, false))
        }
        _ => Err(bad()),
    }
}

/// `#[cfg(feature = "x")]` → Some("x"); `#[cfg(test)]` → Err marker handled by caller.
enum Cfg {
    None,
    Feature(String),
    Test,
    Verif,
}

fn cfg_of_attrs(attrs: &[syn::Attribute], ctx: &str) -> Result<Cfg, String> {
    let mut out = Cfg::None;
    for a in attrs {
        if !a.path().is_ident("cfg") {
            continue;
        }
        if !matches!(out, Cfg::None) {
            return Err(format!("{ctx}: more than one #[cfg] attribute"));
        }
        let meta: syn::Meta = a.parse_args().map_err(|e| format!("{ctx}: cfg: {e}"))?;
        out = match &meta {
            syn::Meta::Path(p) if p.is_ident("test") => Cfg::Test,
            syn::Meta::Path(p) if p.is_ident("hipstr_verif") => Cfg::Verif,
            syn::Meta::NameValue(nv) if nv.path.is_ident("feature") => match &nv.value {
                Expr::Lit(syn::ExprLit { lit: syn::Lit::Str(s), .. }) => Cfg::Feature(s.value()),
                _ => return Err(format!("{ctx}: unsupported cfg value")),
            },
            _ => return Err(format!("{ctx}: unsupported cfg `{}`", quote::quote!(#meta))),
        };
    }
    Ok(out)
}

/// Module path of a source file: `src/bytes/cmp.rs` → ["bytes","cmp"], `src/lib.rs` → [].
fn module_path(rel: &str) -> Result<Vec<String>, String> {
    let p = rel.strip_prefix("src/").ok_or_else(|| format!("{rel}: not under src/"))?;
    let p = p.strip_suffix(".rs").ok_or_else(|| format!("{rel}: not a .rs file"))?;
    let mut segs: Vec<String> = p.split('/').map(str::to_string).collect();
    if segs.last().map(String::as_str) == Some("mod") {
        segs.pop();
    }
    if segs == ["lib"] {
        segs.clear();
    }
    Ok(segs)
}

fn file_of_module<'a>(repo: &'a Repo, m: &[String]) -> Result<&'a SrcFile, String> {
    if m.is_empty() {
        return repo.file("src/lib.rs");
    }
    let a = format!("src/{}.rs", m.join("/"));
    let b = format!("src/{}/mod.rs", m.join("/"));
    repo.file(&a).or_else(|_| repo.file(&b)).map_err(|_| format!("no source file for module {}", m.join("::")))
}

/// Features guarding a whole file: the `#[cfg(feature=…)]` on its `mod` declaration and on those
/// of its ancestors (outermost first).
fn file_features(repo: &Repo, rel: &str) -> Result<Vec<String>, String> {
    let m = module_path(rel)?;
    let mut feats = vec![];
    for depth in 0..m.len() {
        let parent = file_of_module(repo, &m[..depth])?;
        let name = &m[depth];
        let decl = parent.ast.items.iter().find_map(|it| match it {
            Item::Mod(md) if md.ident == name && md.content.is_none() => Some(md),
            _ => None,
        });
        let decl = decl.ok_or_else(|| format!("{}: no `mod {name};` found", parent.rel))?;
        match cfg_of_attrs(&decl.attrs, &format!("{}: mod {name}", parent.rel))? {
            Cfg::None => {}
            Cfg::Feature(f) => {
                if !feats.contains(&f) {
                    feats.push(f)
                }
            }
            Cfg::Test | Cfg::Verif => return Err(format!("{rel}: module is cfg(test)/cfg(hipstr_verif)")),
        }
    }
    Ok(feats)
}

fn join_features(file: &[String], item: &Cfg) -> String {
    let mut v: Vec<String> = file.to_vec();
    if let Cfg::Feature(f) = item {
        if !v.contains(f) {
            v.push(f.clone());
        }
    }
    v.join("+")
}

// ---------------------------------------------------------------------------------------------
// macro definitions: `symmetric_eq!` / `symmetric_ord!`

#[derive(Debug, Clone)]
struct Template {
    macro_name: String,
    tr: Trait,
    self_is_a: bool,
    arg1: Arg,
    arg2: Arg,
    reverse: bool,
    loc: String,
}

fn is_punct(t: &TokenTree, c: char) -> bool {
    matches!(t, TokenTree::Punct(p) if p.as_char() == c)
}

fn contains_ident(ts: &TokenStream, names: &[&str]) -> bool {
    ts.clone().into_iter().any(|t| match t {
        TokenTree::Ident(i) => names.iter().any(|n| i == n),
        TokenTree::Group(g) => contains_ident(&g.stream(), names),
        _ => false,
    })
}

/// Rewrites a transcriber into plain Rust: `$x` → `__mv_x`, `$crate` → `crate`, every `$( … ) sep? op`
/// repetition is dropped — provided it mentions none of `forbidden` (the `$a`/`$b`/`$f` metavariables,
/// `impl`, `fn`), so that nothing that matters can hide in a dropped group.
fn strip_transcriber(ts: TokenStream, forbidden: &[&str], ctx: &str) -> Result<TokenStream, String> {
    let toks: Vec<TokenTree> = ts.into_iter().collect();
    let mut out: Vec<TokenTree> = vec![];
    let mut i = 0;
    while i < toks.len() {
        if is_punct(&toks[i], '$') {
            match toks.get(i + 1) {
                Some(TokenTree::Ident(id)) => {
                    let name = id.to_string();
                    let new = if name == "crate" { "crate".to_string() } else { format!("__mv_{name}") };
                    out.push(TokenTree::Ident(Ident::new(&new, id.span())));
                    i += 2;
                }
                Some(TokenTree::Group(g)) if g.delimiter() == Delimiter::Parenthesis => {
                    if contains_ident(&g.stream(), forbidden) {
                        return Err(format!(
                            "{ctx}: a `$( … )` repetition mentions one of {forbidden:?}; unsupported macro shape"
                        ));
                    }
                    i += 2;
                    // optional separator, then the repetition operator
                    let is_op = |t: Option<&TokenTree>| t.map_or(false, |t| is_punct(t, '?') || is_punct(t, '*') || is_punct(t, '+'));
                    if is_op(toks.get(i)) {
                        i += 1;
                    } else if is_op(toks.get(i + 1)) {
                        i += 2;
                    } else {
                        return Err(format!("{ctx}: repetition without operator"));
                    }
                }
                _ => return Err(format!("{ctx}: stray `$`")),
            }
        } else if let TokenTree::Group(g) = &toks[i] {
            let inner = strip_transcriber(g.stream(), forbidden, ctx)?;
            let mut ng = Group::new(g.delimiter(), inner);
            ng.set_span(g.span());
            out.push(TokenTree::Group(ng));
            i += 1;
        } else {
            out.push(toks[i].clone());
            i += 1;
        }
    }
    Ok(out.into_iter().collect())
}

/// Finds `( $A:ty , $B:ty ) = $F:path ;` in the matcher and returns the three metavariable names.
fn matcher_vars(ts: &TokenStream, ctx: &str) -> Result<(String, String, String), String> {
    let toks: Vec<TokenTree> = ts.clone().into_iter().collect();
    let frag = |ts: &[TokenTree], at: usize, kind: &str| -> Option<String> {
        // `$ name : kind`
        if ts.len() >= at + 4 && is_punct(&ts[at], '$') && is_punct(&ts[at + 2], ':') {
            if let (TokenTree::Ident(n), TokenTree::Ident(k)) = (&ts[at + 1], &ts[at + 3]) {
                if k == kind {
                    return Some(n.to_string());
                }
            }
        }
        None
    };
    let mut found = None;
    for (i, t) in toks.iter().enumerate() {
        if let TokenTree::Group(g) = t {
            if g.delimiter() != Delimiter::Parenthesis || (i > 0 && is_punct(&toks[i - 1], '$')) {
                continue;
            }
            let inner: Vec<TokenTree> = g.stream().into_iter().collect();
            if inner.len() != 9 || !is_punct(&inner[4], ',') {
                continue;
            }
            let (Some(a), Some(b)) = (frag(&inner, 0, "ty"), frag(&inner, 5, "ty")) else { continue };
            // `= $f:path ;`
            if toks.len() >= i + 7 && is_punct(&toks[i + 1], '=') && is_punct(&toks[i + 6], ';') {
                if let Some(f) = frag(&toks, i + 2, "path") {
                    if found.is_some() {
                        return Err(format!("{ctx}: ambiguous matcher"));
                    }
                    found = Some((a, b, f));
                }
            }
        }
    }
    found.ok_or_else(|| format!("{ctx}: matcher does not have the shape `($a:ty, $b:ty) = $f:path ;`"))
}

fn mv_type(t: &Type) -> Option<String> {
    match t {
        Type::Path(p) if p.qself.is_none() => p.path.get_ident().map(|i| i.to_string()),
        _ => None,
    }
}

fn parse_macro_def(file: &SrcFile, name: &str) -> Result<Vec<Template>, String> {
    let ctx = format!("{}: macro_rules! {name}", file.rel);
    let mac = file
        .ast
        .items
        .iter()
        .find_map(|it| match it {
            Item::Macro(m) if m.mac.path.is_ident("macro_rules") && m.ident.as_ref().map_or(false, |i| i == name) => Some(m),
            _ => None,
        })
        .ok_or_else(|| format!("{ctx}: not found"))?;
    // rules: `( matcher ) => { transcriber } ;`
    let toks: Vec<TokenTree> = mac.mac.tokens.clone().into_iter().collect();
    let mut rules: Vec<(Group, Group)> = vec![];
    let mut i = 0;
    while i < toks.len() {
        let (TokenTree::Group(m), Some(eq), Some(gt), Some(TokenTree::Group(t))) =
            (&toks[i], toks.get(i + 1), toks.get(i + 2), toks.get(i + 3))
        else {
            return Err(format!("{ctx}: unsupported rule syntax"));
        };
        if !is_punct(eq, '=') || !is_punct(gt, '>') {
            return Err(format!("{ctx}: unsupported rule syntax"));
        }
        rules.push((m.clone(), t.clone()));
        i += 4;
        if i < toks.len() && is_punct(&toks[i], ';') {
            i += 1;
        }
    }
    let mut real = vec![];
    for (m, t) in rules {
        if m.stream().is_empty() && t.stream().is_empty() {
            continue; // `() => {};` recursion end
        }
        real.push((m, t));
    }
    if real.len() != 1 {
        return Err(format!("{ctx}: expected exactly one non-trivial rule, found {}", real.len()));
    }
    let (matcher, transcriber) = &real[0];
    let (va, vb, vf) = matcher_vars(&matcher.stream(), &ctx)?;
    let forbidden_owned = [va.clone(), vb.clone(), vf.clone(), "impl".to_string(), "fn".to_string()];
    let forbidden: Vec<&str> = forbidden_owned.iter().map(String::as_str).collect();
    let plain = strip_transcriber(transcriber.stream(), &forbidden, &ctx)?;
    let parsed: syn::File = syn::parse2(plain).map_err(|e| format!("{ctx}: transcriber is not a list of items: {e}"))?;
    let (mva, mvb, mvf) = (format!("__mv_{va}"), format!("__mv_{vb}"), format!("__mv_{vf}"));
    let mut out = vec![];
    for it in &parsed.items {
        let Item::Impl(im) = it else {
            return Err(format!("{ctx}: transcriber contains a non-impl item"));
        };
        let l = loc(file, im.impl_token.span);
        let ictx = format!("{ctx} (impl at {l})");
        let (_, tpath, _) = im.trait_.as_ref().ok_or_else(|| format!("{ictx}: inherent impl"))?;
        let seg = tpath.segments.last().unwrap();
        let tr = match seg.ident.to_string().as_str() {
            "PartialEq" => Trait::PartialEq,
            "PartialOrd" => Trait::PartialOrd,
            o => return Err(format!("{ictx}: unexpected trait {o}")),
        };
        let targs = type_args(seg);
        if targs.len() != 1 {
            return Err(format!("{ictx}: trait must have exactly one type argument"));
        }
        let other_ty = mv_type(targs[0]).ok_or_else(|| format!("{ictx}: trait argument is not a metavariable"))?;
        let self_ty = mv_type(&im.self_ty).ok_or_else(|| format!("{ictx}: Self is not a metavariable"))?;
        let self_is_a = if self_ty == mva && other_ty == mvb {
            true
        } else if self_ty == mvb && other_ty == mva {
            false
        } else {
            return Err(format!("{ictx}: Self/argument are not the two row types"));
        };
        if im.items.len() != 1 {
            return Err(format!("{ictx}: expected exactly one method"));
        }
        let ImplItem::Fn(f) = &im.items[0] else {
            return Err(format!("{ictx}: expected a method"));
        };
        let want = if tr == Trait::PartialEq { "eq" } else { "partial_cmp" };
        if f.sig.ident != want {
            return Err(format!("{ictx}: method is `{}`, expected `{want}`", f.sig.ident));
        }
        // (&self, other: &$x)
        let ins: Vec<&FnArg> = f.sig.inputs.iter().collect();
        if ins.len() != 2 {
            return Err(format!("{ictx}: method must take (&self, other)"));
        }
        match ins[0] {
            FnArg::Receiver(r) if r.reference.is_some() && r.mutability.is_none() => {}
            _ => return Err(format!("{ictx}: receiver must be &self")),
        }
        match ins[1] {
            FnArg::Typed(pt) => {
                let ok_name = matches!(&*pt.pat, Pat::Ident(pi) if pi.ident == "other");
                let ok_ty = matches!(&*pt.ty, Type::Reference(r) if r.mutability.is_none() && mv_type(&r.elem).as_deref() == Some(other_ty.as_str()));
                if !ok_name || !ok_ty {
                    return Err(format!("{ictx}: second parameter must be `other: &<trait argument>`"));
                }
            }
            _ => return Err(format!("{ictx}: bad second parameter")),
        }
        // body: `$f(x, y)` or `$f(x, y).map(core::cmp::Ordering::reverse)`
        if f.block.stmts.len() != 1 {
            return Err(format!("{ictx}: body must be a single expression"));
        }
        let Stmt::Expr(body, None) = &f.block.stmts[0] else {
            return Err(format!("{ictx}: body must be a tail expression"));
        };
        let (call, reverse) = match body {
            Expr::MethodCall(mc) if mc.method == "map" && mc.args.len() == 1 && mc.turbofish.is_none() => {
                let ok = match &mc.args[0] {
                    Expr::Path(p) => {
                        let segs: Vec<String> = p.path.segments.iter().map(|s| s.ident.to_string()).collect();
                        segs.ends_with(&["Ordering".to_string(), "reverse".to_string()])
                    }
                    _ => false,
                };
                if !ok {
                    return Err(format!("{ictx}: `.map(…)` with something else than Ordering::reverse"));
                }
                (&*mc.receiver, true)
            }
            e => (e, false),
        };
        let Expr::Call(c) = call else {
            return Err(format!("{ictx}: body is not a call of the helper"));
        };
        if !path_is_single(&c.func, &mvf) || c.args.len() != 2 {
            return Err(format!("{ictx}: body must call `${vf}` with two arguments"));
        }
        let arg = |e: &Expr| -> Result<Arg, String> {
            if path_is_single(e, "self") {
                Ok(Arg::SelfArg)
            } else if path_is_single(e, "other") {
                Ok(Arg::Other)
            } else {
                Err(format!("{ictx}: helper argument is neither `self` nor `other`"))
            }
        };
        out.push(Template {
            macro_name: name.to_string(),
            tr,
            self_is_a,
            arg1: arg(&c.args[0])?,
            arg2: arg(&c.args[1])?,
            reverse,
            loc: l,
        });
    }
    if out.is_empty() {
        return Err(format!("{ctx}: no impl template found"));
    }
    Ok(out)
}

// ---------------------------------------------------------------------------------------------
// macro invocations

struct InvRow {
    a: Type,
    b: Type,
    f: syn::Path,
    span: Span,
}

struct Invocation(Vec<InvRow>);

impl Parse for Invocation {
    fn parse(input: ParseStream) -> syn::Result<Self> {
        let mut rows = vec![];
        while !input.is_empty() {
            // `[gen]`? `[where …]`?   (at most one of each, in this order)
            let mut seen_gen = false;
            let mut seen_where = false;
            while input.peek(syn::token::Bracket) {
                let content;
                syn::bracketed!(content in input);
                let is_where = content.peek(syn::Token![where]);
                if is_where {
                    if seen_where {
                        return Err(content.error("two `[where …]` groups"));
                    }
                    seen_where = true;
                } else {
                    if seen_gen || seen_where {
                        return Err(content.error("unexpected `[…]` group"));
                    }
                    seen_gen = true;
                }
                let _: TokenStream = content.parse()?;
            }
            let content;
            let paren = syn::parenthesized!(content in input);
            let a: Type = content.parse()?;
            content.parse::<syn::Token![,]>()?;
            let b: Type = content.parse()?;
            if !content.is_empty() {
                return Err(content.error("expected `(A, B)`"));
            }
            input.parse::<syn::Token![=]>()?;
            let f: syn::Path = input.parse()?;
            input.parse::<syn::Token![;]>()?;
            rows.push(InvRow { a, b, f, span: paren.span.open() });
        }
        Ok(Invocation(rows))
    }
}

#[derive(Debug)]
struct Helper {
    name: String,
    t1: Target,
    t2: Target,
    op: Op,
    loc: String,
}

fn as_ref_target(arg: &FnArg, ctx: &str) -> Result<(String, Target), String> {
    let FnArg::Typed(pt) = arg else { return Err(format!("{ctx}: helper has a receiver")) };
    let Pat::Ident(pi) = &*pt.pat else { return Err(format!("{ctx}: helper parameter pattern")) };
    let Type::ImplTrait(it) = &*pt.ty else {
        return Err(format!("{ctx}: helper parameter `{}` is not `impl AsRef<…>`", pi.ident));
    };
    if it.bounds.len() != 1 {
        return Err(format!("{ctx}: helper parameter `{}` has several bounds", pi.ident));
    }
    let syn::TypeParamBound::Trait(tb) = &it.bounds[0] else {
        return Err(format!("{ctx}: helper parameter bound"));
    };
    let seg = tb.path.segments.last().unwrap();
    if seg.ident != "AsRef" {
        return Err(format!("{ctx}: helper parameter `{}` is not `impl AsRef<…>`", pi.ident));
    }
    let args = type_args(seg);
    if args.len() != 1 {
        return Err(format!("{ctx}: AsRef arity"));
    }
    let t = target_of_type(args[0]).ok_or_else(|| format!("{ctx}: unknown AsRef target `{}`", quote::quote!(#(#args)*)))?;
    Ok((pi.ident.to_string(), t))
}

/// `x.as_ref()` → "x"
fn as_ref_call(e: &Expr) -> Option<String> {
    match e {
        Expr::MethodCall(mc) if mc.method == "as_ref" && mc.args.is_empty() && mc.turbofish.is_none() => match &*mc.receiver {
            Expr::Path(p) => p.path.get_ident().map(|i| i.to_string()),
            _ => None,
        },
        _ => None,
    }
}

fn parse_helper(file: &SrcFile, f: &ItemFn) -> Result<Helper, String> {
    let name = f.sig.ident.to_string();
    let ctx = format!("{}: fn {name}", file.rel);
    if !f.sig.generics.params.is_empty() || f.sig.inputs.len() != 2 {
        return Err(format!("{ctx}: helper must be `fn(a: impl AsRef<_>, b: impl AsRef<_>)`"));
    }
    let (n1, t1) = as_ref_target(&f.sig.inputs[0], &ctx)?;
    let (n2, t2) = as_ref_target(&f.sig.inputs[1], &ctx)?;
    // body: exactly one tail expression (comments are not tokens)
    if f.block.stmts.len() != 1 {
        return Err(format!("{ctx}: body must be a single expression"));
    }
    let Stmt::Expr(body, None) = &f.block.stmts[0] else {
        return Err(format!("{ctx}: body must be a tail expression"));
    };
    let (l, r, op) = match body {
        Expr::Binary(b) if matches!(b.op, syn::BinOp::Eq(_)) => (as_ref_call(&b.left), as_ref_call(&b.right), Op::EqEq),
        Expr::MethodCall(mc) if mc.method == "partial_cmp" && mc.args.len() == 1 && mc.turbofish.is_none() => {
            (as_ref_call(&mc.receiver), as_ref_call(&mc.args[0]), Op::PartialCmp)
        }
        _ => return Err(format!("{ctx}: body is neither `a.as_ref() == b.as_ref()` nor `a.as_ref().partial_cmp(b.as_ref())`")),
    };
    if l.as_deref() != Some(n1.as_str()) || r.as_deref() != Some(n2.as_str()) {
        return Err(format!("{ctx}: operands must be `{n1}.as_ref()` then `{n2}.as_ref()`"));
    }
    // return type must fit the operator
    let ret_ok = match (&f.sig.output, op) {
        (syn::ReturnType::Type(_, t), Op::EqEq) => matches!(&**t, Type::Path(p) if p.path.is_ident("bool")),
        (syn::ReturnType::Type(_, t), Op::PartialCmp) => match &**t {
            Type::Path(p) => {
                let seg = p.path.segments.last().unwrap();
                seg.ident == "Option" && type_args(seg).len() == 1 && matches!(type_args(seg)[0], Type::Path(q) if last_ident(&q.path) == "Ordering")
            }
            _ => false,
        },
        _ => false,
    };
    if !ret_ok {
        return Err(format!("{ctx}: return type does not match the operator"));
    }
    Ok(Helper { name, t1, t2, op, loc: loc(file, f.sig.fn_token.span) })
}

fn find_fn<'a>(file: &'a SrcFile, name: &str) -> Result<Option<&'a ItemFn>, String> {
    let mut found: Option<&ItemFn> = None;
    for it in &file.ast.items {
        if let Item::Fn(f) = it {
            if f.sig.ident == name {
                if found.is_some() {
                    return Err(format!("{}: two functions named {name}", file.rel));
                }
                found = Some(f);
            }
        }
    }
    Ok(found)
}

/// All `(imported name, absolute module path)` pairs of a `use` tree.
fn use_leaves(tree: &syn::UseTree, prefix: &mut Vec<String>, out: &mut Vec<(String, Vec<String>)>) -> Result<(), String> {
    match tree {
        syn::UseTree::Path(p) => {
            prefix.push(p.ident.to_string());
            use_leaves(&p.tree, prefix, out)?;
            prefix.pop();
        }
        syn::UseTree::Name(n) => out.push((n.ident.to_string(), prefix.clone())),
        syn::UseTree::Rename(r) => out.push((r.rename.to_string(), {
            let mut p = prefix.clone();
            p.push(format!("\u{0}renamed:{}", r.ident));
            p
        })),
        syn::UseTree::Group(g) => {
            for t in &g.items {
                use_leaves(t, prefix, out)?;
            }
        }
        syn::UseTree::Glob(_) => out.push(("*".into(), prefix.clone())),
    }
    Ok(())
}

fn resolve_helper(repo: &Repo, file: &SrcFile, path: &syn::Path) -> Result<Helper, String> {
    let name = path.get_ident().ok_or_else(|| format!("{}: helper path `{}` is not a plain identifier", file.rel, quote::quote!(#path)))?.to_string();
    if let Some(f) = find_fn(file, &name)? {
        return parse_helper(file, f);
    }
    // imported
    let mut leaves = vec![];
    for it in &file.ast.items {
        if let Item::Use(u) = it {
            use_leaves(&u.tree, &mut vec![], &mut leaves)?;
        }
    }
    let hits: Vec<&(String, Vec<String>)> = leaves.iter().filter(|(n, _)| *n == name).collect();
    if hits.len() != 1 {
        return Err(format!("{}: helper `{name}` is neither defined here nor imported exactly once", file.rel));
    }
    let mut m = module_path(&file.rel)?;
    let mut segs = hits[0].1.iter();
    let mut first = true;
    for s in &mut segs {
        match s.as_str() {
            "crate" if first => m.clear(),
            "self" if first => {}
            "super" => {
                if m.pop().is_none() {
                    return Err(format!("{}: `super` above the crate root", file.rel));
                }
            }
            other if other.starts_with('\u{0}') => return Err(format!("{}: renamed import of `{name}`", file.rel)),
            other => {
                if first {
                    return Err(format!("{}: helper `{name}` imported through `{other}::…` (not crate/self/super)", file.rel));
                }
                m.push(other.to_string())
            }
        }
        first = false;
    }
    let target = file_of_module(repo, &m)?;
    let f = find_fn(target, &name)?.ok_or_else(|| format!("{}: helper `{name}` not found in {}", file.rel, target.rel))?;
    parse_helper(target, f)
}

// ---------------------------------------------------------------------------------------------
// rows

struct Row {
    tr: Trait,
    lhs: Operand,
    rhs: Operand,
    body: String,
    feature: String,
    loc: String,
}

struct BorrowRow {
    owner: Hip,
    target: Target,
    acc: Accessor,
    wrap: &'static str,
    feature: String,
    loc: String,
}

/// `self.acc()` / `other.acc()` → (receiver name, accessor)
fn accessor_call(e: &Expr) -> Option<(String, Accessor)> {
    match e {
        Expr::MethodCall(mc) if mc.args.is_empty() && mc.turbofish.is_none() => {
            let acc = Accessor::from_ident(&mc.method.to_string())?;
            match &*mc.receiver {
                Expr::Path(p) => Some((p.path.get_ident()?.to_string(), acc)),
                _ => None,
            }
        }
        _ => None,
    }
}

/// `self.0` / `other.0` → receiver name
fn field0(e: &Expr) -> Option<String> {
    match e {
        Expr::Field(f) => match (&f.member, &*f.base) {
            (syn::Member::Unnamed(i), Expr::Path(p)) if i.index == 0 => Some(p.path.get_ident()?.to_string()),
            _ => None,
        },
        _ => None,
    }
}

/// `x.0.as_encoded_bytes()` → x
fn field0_encoded_bytes(e: &Expr) -> Option<String> {
    match e {
        Expr::MethodCall(mc) if mc.method == "as_encoded_bytes" && mc.args.is_empty() => field0(&mc.receiver),
        _ => None,
    }
}

fn single_tail_expr<'a>(f: &'a syn::ImplItemFn, ctx: &str) -> Result<&'a Expr, String> {
    if f.block.stmts.len() != 1 {
        return Err(format!("{ctx}: body must be a single expression"));
    }
    match &f.block.stmts[0] {
        Stmt::Expr(e, None) => Ok(e),
        _ => Err(format!("{ctx}: body must be a tail expression")),
    }
}

fn only_method<'a>(im: &'a ItemImpl, name: &str, ctx: &str) -> Result<&'a syn::ImplItemFn, String> {
    if im.items.len() != 1 {
        return Err(format!("{ctx}: expected exactly one item"));
    }
    match &im.items[0] {
        ImplItem::Fn(f) if f.sig.ident == name => Ok(f),
        _ => Err(format!("{ctx}: expected method `{name}`")),
    }
}

/// Name of the second parameter (after `&self`).
fn second_param(f: &syn::ImplItemFn, ctx: &str) -> Result<String, String> {
    let ins: Vec<&FnArg> = f.sig.inputs.iter().collect();
    if ins.len() != 2 || !matches!(ins[0], FnArg::Receiver(r) if r.reference.is_some() && r.mutability.is_none()) {
        return Err(format!("{ctx}: expected (&self, <param>)"));
    }
    match ins[1] {
        FnArg::Typed(pt) => match &*pt.pat {
            Pat::Ident(pi) => Ok(pi.ident.to_string()),
            _ => Err(format!("{ctx}: parameter pattern")),
        },
        _ => Err(format!("{ctx}: parameter")),
    }
}

/// `self.acc() <op> other.acc()` with the same accessor on both sides.
fn accessor_cmp(l: &Expr, r: &Expr, other: &str, ctx: &str) -> Result<Accessor, String> {
    match (accessor_call(l), accessor_call(r)) {
        (Some((a, x)), Some((b, y))) if a == "self" && b == other && x == y => Ok(x),
        _ => Err(format!("{ctx}: operands are not `self.acc()` and `{other}.acc()` with the same accessor")),
    }
}

fn handwritten_impl(
    file: &SrcFile,
    im: &ItemImpl,
    tr: Trait,
    file_feats: &[String],
    rows: &mut Vec<Row>,
    borrows: &mut Vec<BorrowRow>,
    used_acc: &mut Vec<(Hip, Accessor)>,
) -> Result<(), String> {
    let l = loc(file, im.impl_token.span);
    let ctx = format!("{l}: impl {tr:?}");
    let owner = hip_of_type(&im.self_ty).ok_or_else(|| format!("{ctx}: Self is not a Hip type"))?;
    let cfg = cfg_of_attrs(&im.attrs, &ctx)?;
    if matches!(cfg, Cfg::Test | Cfg::Verif) {
        return Err(format!("{ctx}: comparison impl under cfg(test)/cfg(hipstr_verif)"));
    }
    let feature = join_features(file_feats, &cfg);
    let (_, tpath, _) = im.trait_.as_ref().unwrap();
    let targs = type_args(tpath.segments.last().unwrap());
    let lhs = Operand::Hip(owner);
    let mut note = |acc: Accessor| {
        if !used_acc.contains(&(owner, acc)) {
            used_acc.push((owner, acc));
        }
    };
    match tr {
        Trait::Eq => {
            if !im.items.is_empty() || !targs.is_empty() {
                return Err(format!("{ctx}: `impl Eq` with items or arguments"));
            }
            rows.push(Row { tr, lhs: lhs.clone(), rhs: lhs, body: ".marker".into(), feature, loc: l });
        }
        Trait::PartialEq | Trait::PartialOrd => {
            if targs.len() != 1 {
                return Err(format!("{ctx}: hand-written impl without explicit type argument"));
            }
            let rhs = operand_of_type(targs[0], &ctx)?;
            if !matches!(rhs, Operand::Hip(_)) {
                return Err(format!("{ctx}: hand-written Hip × std impl (only the symmetric macros are supported)"));
            }
            let m = only_method(im, if tr == Trait::PartialEq { "eq" } else { "partial_cmp" }, &ctx)?;
            let other = second_param(m, &ctx)?;
            let e = single_tail_expr(m, &ctx)?;
            let body = if tr == Trait::PartialEq {
                match e {
                    // self.inherent_eq(other)
                    Expr::MethodCall(mc) if mc.method == "inherent_eq" && mc.args.len() == 1 && path_is_single(&mc.receiver, "self") && path_is_single(&mc.args[0], &other) => {
                        ".inherentEq".to_string()
                    }
                    Expr::Binary(b) if matches!(b.op, syn::BinOp::Eq(_)) => {
                        if field0(&b.left).as_deref() == Some("self") && field0(&b.right).as_deref() == Some(other.as_str()) {
                            ".field0Eq".to_string()
                        } else {
                            let acc = accessor_cmp(&b.left, &b.right, &other, &ctx)?;
                            note(acc);
                            format!(".viaAccessor .none {} .eqeq", acc.lean())
                        }
                    }
                    // ptr::eq(self.0.as_encoded_bytes(), other.0.as_encoded_bytes()) || self.acc() == other.acc()
                    Expr::Binary(b) if matches!(b.op, syn::BinOp::Or(_)) => {
                        let sc_ok = match &*b.left {
                            Expr::Call(c) if c.args.len() == 2 => {
                                let f_ok = matches!(&*c.func, Expr::Path(p) if {
                                    let s: Vec<String> = p.path.segments.iter().map(|s| s.ident.to_string()).collect();
                                    s.ends_with(&["ptr".to_string(), "eq".to_string()])
                                });
                                f_ok && field0_encoded_bytes(&c.args[0]).as_deref() == Some("self") && field0_encoded_bytes(&c.args[1]).as_deref() == Some(other.as_str())
                            }
                            _ => false,
                        };
                        if !sc_ok {
                            return Err(format!("{ctx}: unknown `||` shortcut"));
                        }
                        match &*b.right {
                            Expr::Binary(r) if matches!(r.op, syn::BinOp::Eq(_)) => {
                                let acc = accessor_cmp(&r.left, &r.right, &other, &ctx)?;
                                note(acc);
                                format!(".viaAccessor .ptrEqEncodedBytes {} .eqeq", acc.lean())
                            }
                            _ => return Err(format!("{ctx}: right of `||` is not an `==`")),
                        }
                    }
                    _ => return Err(format!("{ctx}: unknown `eq` body")),
                }
            } else {
                match e {
                    Expr::MethodCall(mc) if mc.method == "partial_cmp" && mc.args.len() == 1 && mc.turbofish.is_none() => {
                        let acc = accessor_cmp(&mc.receiver, &mc.args[0], &other, &ctx)?;
                        note(acc);
                        format!(".viaAccessor .none {} .partialCmp", acc.lean())
                    }
                    _ => return Err(format!("{ctx}: unknown `partial_cmp` body")),
                }
            };
            rows.push(Row { tr, lhs, rhs, body, feature, loc: l });
        }
        Trait::Ord => {
            if !targs.is_empty() {
                return Err(format!("{ctx}: `impl Ord` with arguments"));
            }
            let m = only_method(im, "cmp", &ctx)?;
            let other = second_param(m, &ctx)?;
            let body = match single_tail_expr(m, &ctx)? {
                Expr::MethodCall(mc) if mc.method == "cmp" && mc.args.len() == 1 && mc.turbofish.is_none() => {
                    let acc = accessor_cmp(&mc.receiver, &mc.args[0], &other, &ctx)?;
                    note(acc);
                    format!(".viaAccessor .none {} {}", acc.lean(), Op::Cmp.lean())
                }
                _ => return Err(format!("{ctx}: unknown `cmp` body")),
            };
            rows.push(Row { tr, lhs: lhs.clone(), rhs: lhs, body, feature, loc: l });
        }
        Trait::Hash => {
            if !targs.is_empty() {
                return Err(format!("{ctx}: `impl Hash` with arguments"));
            }
            let m = only_method(im, "hash", &ctx)?;
            let state = second_param(m, &ctx)?;
            if m.block.stmts.len() != 1 {
                return Err(format!("{ctx}: `hash` body must be one statement"));
            }
            let e = match &m.block.stmts[0] {
                Stmt::Expr(e, _) => e,
                _ => return Err(format!("{ctx}: `hash` body")),
            };
            let acc = match e {
                Expr::MethodCall(mc) if mc.method == "hash" && mc.args.len() == 1 && path_is_single(&mc.args[0], &state) => match accessor_call(&mc.receiver) {
                    Some((r, acc)) if r == "self" => acc,
                    _ => return Err(format!("{ctx}: `hash` receiver is not `self.acc()`")),
                },
                _ => return Err(format!("{ctx}: unknown `hash` body")),
            };
            note(acc);
            rows.push(Row { tr, lhs: lhs.clone(), rhs: lhs, body: format!(".hashVia {}", acc.lean()), feature, loc: l });
        }
        Trait::Borrow => {
            if targs.len() != 1 {
                return Err(format!("{ctx}: Borrow arity"));
            }
            let target = target_of_type(targs[0]).ok_or_else(|| format!("{ctx}: unknown Borrow target `{}`", { let t = targs[0]; quote::quote!(#t) }))?;
            let m = only_method(im, "borrow", &ctx)?;
            if m.sig.inputs.len() != 1 {
                return Err(format!("{ctx}: borrow(&self)"));
            }
            // return type must be `&<target>`
            let ret_ok = match &m.sig.output {
                syn::ReturnType::Type(_, t) => matches!(&**t, Type::Reference(r) if r.mutability.is_none() && target_of_type(&r.elem) == Some(target)),
                _ => false,
            };
            if !ret_ok {
                return Err(format!("{ctx}: `borrow` does not return `&<target>`"));
            }
            let e = single_tail_expr(m, &ctx)?;
            let (acc, wrap) = match e {
                Expr::Call(c) if c.args.len() == 1 => {
                    let f_ok = matches!(&*c.func, Expr::Path(p) if {
                        let s: Vec<String> = p.path.segments.iter().map(|s| s.ident.to_string()).collect();
                        s == ["BStr", "new"]
                    });
                    match (f_ok, accessor_call(&c.args[0])) {
                        (true, Some((r, acc))) if r == "self" => (acc, ".bstrNew"),
                        _ => return Err(format!("{ctx}: unknown `borrow` body")),
                    }
                }
                e => match accessor_call(e) {
                    Some((r, acc)) if r == "self" => (acc, ".none"),
                    _ => return Err(format!("{ctx}: unknown `borrow` body")),
                },
            };
            note(acc);
            borrows.push(BorrowRow { owner, target, acc, wrap, feature, loc: l });
        }
    }
    Ok(())
}

// ---------------------------------------------------------------------------------------------
// supporting facts: newtypes, accessor signatures, inherent_eq

fn newtype_rows(repo: &Repo) -> Result<Vec<(Hip, Hip, String)>, String> {
    let mut out = vec![];
    let mut seen = vec![];
    for file in repo.non_test_files() {
        for it in &file.ast.items {
            let Item::Struct(s) = it else { continue };
            let Some(h) = Hip::from_ident(&s.ident.to_string()) else { continue };
            let l = loc(file, s.struct_token.span);
            if seen.contains(&h) {
                return Err(format!("{l}: second definition of {}", h.rust()));
            }
            seen.push(h);
            // no derived comparison traits
            for a in &s.attrs {
                if a.path().is_ident("derive") {
                    let txt = a.meta.require_list().map(|l| l.tokens.to_string()).unwrap_or_default();
                    for t in ["PartialEq", "Eq", "PartialOrd", "Ord", "Hash"] {
                        if txt.split(|c: char| !c.is_alphanumeric()).any(|w| w == t) {
                            return Err(format!("{l}: {} derives {t}", h.rust()));
                        }
                    }
                }
            }
            match &s.fields {
                syn::Fields::Unnamed(u) if u.unnamed.len() == 1 => {
                    let inner = hip_of_type(&u.unnamed[0].ty).ok_or_else(|| format!("{l}: {}'s field is not a Hip type", h.rust()))?;
                    out.push((h, inner, l));
                }
                syn::Fields::Named(_) if h == Hip::Byt => {}
                _ => return Err(format!("{l}: unsupported definition of {}", h.rust())),
            }
        }
    }
    if seen.len() != 4 {
        return Err(format!("expected the 4 Hip struct definitions, found {seen:?}"));
    }
    Ok(out)
}

/// Resolves `owner.acc()`: an inherent `fn acc(&self) -> &T`, else through `Deref<Target = str>`.
fn accessor_sig(repo: &Repo, owner: Hip, acc: Accessor) -> Result<(Target, String), String> {
    let mut found: Vec<(Target, String)> = vec![];
    let mut deref: Vec<(Type, String)> = vec![];
    for file in repo.non_test_files() {
        for it in &file.ast.items {
            let Item::Impl(im) = it else { continue };
            if hip_of_type(&im.self_ty) != Some(owner) {
                continue;
            }
            match &im.trait_ {
                None => {
                    if matches!(cfg_of_attrs(&im.attrs, &file.rel), Ok(Cfg::Test) | Ok(Cfg::Verif)) {
                        continue;
                    }
                    for ii in &im.items {
                        let ImplItem::Fn(f) = ii else { continue };
                        if f.sig.ident != acc.rust() {
                            continue;
                        }
                        let l = loc(file, f.sig.fn_token.span);
                        let recv_ok = f.sig.inputs.len() == 1 && matches!(f.sig.inputs.first(), Some(FnArg::Receiver(r)) if r.reference.is_some() && r.mutability.is_none());
                        let ret = match &f.sig.output {
                            syn::ReturnType::Type(_, t) => match &**t {
                                Type::Reference(r) if r.mutability.is_none() => target_of_type(&r.elem),
                                _ => None,
                            },
                            _ => None,
                        };
                        match (recv_ok, ret) {
                            (true, Some(t)) => found.push((t, l)),
                            _ => return Err(format!("{l}: unsupported signature of {}::{}", owner.rust(), acc.rust())),
                        }
                    }
                }
                Some((_, p, _)) if last_ident(p) == "Deref" => {
                    for ii in &im.items {
                        if let ImplItem::Type(t) = ii {
                            if t.ident == "Target" {
                                deref.push((t.ty.clone(), loc(file, im.impl_token.span)));
                            }
                        }
                    }
                }
                _ => {}
            }
        }
    }
    match found.len() {
        1 => Ok(found.pop().unwrap()),
        0 => {
            // std facts used for the Deref fallback: `str::as_bytes(&self) -> &[u8]`
            if deref.len() == 1 {
                let (t, l) = &deref[0];
                if let (Some(Target::Str), Accessor::AsBytes) = (target_of_type(t), acc) {
                    return Ok((Target::Slice, format!("{l} (Deref<Target = str>, str::as_bytes)")));
                }
            }
            Err(format!("accessor {}::{} not found", owner.rust(), acc.rust()))
        }
        _ => Err(format!("accessor {}::{} defined more than once", owner.rust(), acc.rust())),
    }
}

/// `<recv>.<method>()` with no arguments
fn nullary_call(e: &Expr, recv: &str, method: &str) -> bool {
    matches!(e, Expr::MethodCall(mc) if mc.method == method && mc.args.is_empty() && path_is_single(&mc.receiver, recv))
}

fn if_return_bool(e: &Expr) -> Option<(&Expr, bool)> {
    let Expr::If(i) = e else { return None };
    if i.else_branch.is_some() || i.then_branch.stmts.len() != 1 {
        return None;
    }
    let Stmt::Expr(Expr::Return(r), Some(_)) = &i.then_branch.stmts[0] else { return None };
    match r.expr.as_deref() {
        Some(Expr::Lit(syn::ExprLit { lit: syn::Lit::Bool(b), .. })) => Some((&*i.cond, b.value)),
        _ => None,
    }
}

fn let_simple(s: &Stmt) -> Option<(String, &Expr)> {
    let Stmt::Local(l) = s else { return None };
    let Pat::Ident(pi) = &l.pat else { return None };
    let init = l.init.as_ref()?;
    if init.diverge.is_some() {
        return None;
    }
    Some((pi.ident.to_string(), &*init.expr))
}

/// Structural reading of `HipByt::inherent_eq` (src/bytes/raw.rs).
fn inherent_eq_steps(repo: &Repo) -> Result<(Vec<String>, String), String> {
    let mut hits = vec![];
    for file in repo.non_test_files() {
        for it in &file.ast.items {
            let Item::Impl(im) = it else { continue };
            if im.trait_.is_some() || hip_of_type(&im.self_ty) != Some(Hip::Byt) {
                continue;
            }
            for ii in &im.items {
                if let ImplItem::Fn(f) = ii {
                    if f.sig.ident == "inherent_eq" {
                        hits.push((file, f));
                    }
                }
            }
        }
    }
    if hits.len() != 1 {
        return Err(format!("expected exactly one HipByt::inherent_eq, found {}", hits.len()));
    }
    let (file, f) = hits[0];
    let l = loc(file, f.sig.fn_token.span);
    let ctx = format!("{l}: inherent_eq");
    let other = second_param(f, &ctx)?;
    let mut stmts: Vec<&Stmt> = f.block.stmts.iter().collect();
    // leading `extern "C" { fn memcmp(..) }`
    match stmts.first() {
        Some(Stmt::Item(Item::ForeignMod(fm))) => {
            let ok = fm.items.len() == 1 && matches!(&fm.items[0], syn::ForeignItem::Fn(ff) if ff.sig.ident == "memcmp" && ff.sig.inputs.len() == 3);
            if !ok {
                return Err(format!("{ctx}: unexpected extern block"));
            }
            stmts.remove(0);
        }
        _ => return Err(format!("{ctx}: expected the `extern \"C\" {{ fn memcmp }}` declaration first")),
    }
    let err = |what: &str| format!("{ctx}: unexpected statement shape ({what})");
    if stmts.len() != 7 {
        return Err(err("statement count"));
    }
    // let len = self.len();
    let (len_v, e) = let_simple(stmts[0]).ok_or_else(|| err("let len"))?;
    if !nullary_call(e, "self", "len") {
        return Err(err("len = self.len()"));
    }
    // if len != other.len() { return false; }
    let mut steps = vec![];
    let Stmt::Expr(e, _) = stmts[1] else { return Err(err("if len")) };
    let (c, r) = if_return_bool(e).ok_or_else(|| err("if len != other.len() { return _ }"))?;
    match c {
        Expr::Binary(b) if matches!(b.op, syn::BinOp::Ne(_)) && path_is_single(&b.left, &len_v) && nullary_call(&b.right, &other, "len") => {}
        _ => return Err(err("len != other.len()")),
    }
    steps.push(format!(".ifLenNeReturn {r}"));
    // let self_ptr = self.as_ptr(); let other_ptr = other.as_ptr();
    let (sp, e) = let_simple(stmts[2]).ok_or_else(|| err("let self_ptr"))?;
    if !nullary_call(e, "self", "as_ptr") {
        return Err(err("self.as_ptr()"));
    }
    let (op, e) = let_simple(stmts[3]).ok_or_else(|| err("let other_ptr"))?;
    if !nullary_call(e, &other, "as_ptr") {
        return Err(err("other.as_ptr()"));
    }
    // if core::ptr::eq(self_ptr, other_ptr) { return true; }
    let Stmt::Expr(e, _) = stmts[4] else { return Err(err("if ptr")) };
    let (c, r) = if_return_bool(e).ok_or_else(|| err("if ptr::eq(..) { return _ }"))?;
    match c {
        Expr::Call(call) if call.args.len() == 2 && path_is_single(&call.args[0], &sp) && path_is_single(&call.args[1], &op) => {
            let ok = matches!(&*call.func, Expr::Path(p) if {
                let s: Vec<String> = p.path.segments.iter().map(|s| s.ident.to_string()).collect();
                s.ends_with(&["ptr".to_string(), "eq".to_string()])
            });
            if !ok {
                return Err(err("ptr::eq"));
            }
        }
        _ => return Err(err("ptr::eq(self_ptr, other_ptr)")),
    }
    steps.push(format!(".ifPtrEqReturn {r}"));
    // let size = len * size_of::<u8>();
    let (size_v, e) = let_simple(stmts[5]).ok_or_else(|| err("let size"))?;
    match e {
        Expr::Binary(b) if matches!(b.op, syn::BinOp::Mul(_)) && path_is_single(&b.left, &len_v) => match &*b.right {
            Expr::Call(c) if c.args.is_empty() => {
                let ok = matches!(&*c.func, Expr::Path(p) if {
                    let seg = p.path.segments.last().unwrap();
                    seg.ident == "size_of" && type_args(seg).len() == 1 && is_u8(type_args(seg)[0])
                });
                if !ok {
                    return Err(err("size_of::<u8>()"));
                }
            }
            _ => return Err(err("len * size_of::<u8>()")),
        },
        _ => return Err(err("len * size_of::<u8>()")),
    }
    // unsafe { memcmp(self_ptr, other_ptr, size) == 0 }
    let Stmt::Expr(Expr::Unsafe(u), None) = stmts[6] else { return Err(err("unsafe tail")) };
    if u.block.stmts.len() != 1 {
        return Err(err("unsafe block"));
    }
    let Stmt::Expr(Expr::Binary(b), None) = &u.block.stmts[0] else { return Err(err("memcmp(..) == 0")) };
    let zero = matches!(&*b.right, Expr::Lit(syn::ExprLit { lit: syn::Lit::Int(i), .. }) if i.base10_digits() == "0");
    let call_ok = match &*b.left {
        Expr::Call(c) => path_is_single(&c.func, "memcmp") && c.args.len() == 3 && path_is_single(&c.args[0], &sp) && path_is_single(&c.args[1], &op) && path_is_single(&c.args[2], &size_v),
        _ => false,
    };
    if !matches!(b.op, syn::BinOp::Eq(_)) || !zero || !call_ok {
        return Err(err("memcmp(self_ptr, other_ptr, size) == 0"));
    }
    steps.push(".retMemcmpIsZero".to_string());
    Ok((steps, l))
}

// ---------------------------------------------------------------------------------------------

fn macro_name_of(path: &syn::Path) -> Option<&'static str> {
    match last_ident(path).as_str() {
        "symmetric_eq" => Some("symmetric_eq"),
        "symmetric_ord" => Some("symmetric_ord"),
        _ => None,
    }
}

/// Refuses the macros (or hand-written comparison impls for Hip types) anywhere we do not look:
/// inside inline modules or function bodies of non-test code.
struct Nested<'a> {
    file: &'a SrcFile,
    depth: usize,
    err: Option<String>,
}

impl<'ast> syn::visit::Visit<'ast> for Nested<'_> {
    fn visit_item_mod(&mut self, m: &'ast syn::ItemMod) {
        if matches!(cfg_of_attrs(&m.attrs, ""), Ok(Cfg::Test)) {
            return;
        }
        self.depth += 1;
        syn::visit::visit_item_mod(self, m);
        self.depth -= 1;
    }
    fn visit_block(&mut self, b: &'ast syn::Block) {
        self.depth += 1;
        syn::visit::visit_block(self, b);
        self.depth -= 1;
    }
    fn visit_macro(&mut self, m: &'ast syn::Macro) {
        if self.depth > 0 && macro_name_of(&m.path).is_some() && self.err.is_none() {
            self.err = Some(format!("{}: nested `{}!` invocation", loc(self.file, m.bang_token.span), last_ident(&m.path)));
        }
    }
    fn visit_item_impl(&mut self, im: &'ast ItemImpl) {
        if self.depth > 0 && self.err.is_none() {
            if let Some((_, p, _)) = &im.trait_ {
                if Trait::from_ident(&last_ident(p)).is_some() && hip_of_type(&im.self_ty).is_some() {
                    self.err = Some(format!("{}: nested comparison impl for a Hip type", loc(self.file, im.impl_token.span)));
                }
            }
        }
        syn::visit::visit_item_impl(self, im);
    }
}

pub fn generate(repo: &Repo) -> Result<Vec<GenFile>, String> {
    let macros_file = repo.file("src/macros.rs")?;
    let mut templates = parse_macro_def(macros_file, "symmetric_eq")?;
    templates.extend(parse_macro_def(macros_file, "symmetric_ord")?);

    let mut rows: Vec<Row> = vec![];
    let mut borrows: Vec<BorrowRow> = vec![];
    let mut used_acc: Vec<(Hip, Accessor)> = vec![];

    for file in repo.non_test_files() {
        {
            use syn::visit::Visit;
            let mut n = Nested { file, depth: 0, err: None };
            n.visit_file(&file.ast);
            if let Some(e) = n.err {
                return Err(e);
            }
        }
        let mut feats: Option<Vec<String>> = None;
        let mut file_feats = |repo: &Repo| -> Result<Vec<String>, String> {
            if feats.is_none() {
                feats = Some(file_features(repo, &file.rel)?);
            }
            Ok(feats.clone().unwrap())
        };
        for it in &file.ast.items {
            match it {
                Item::Macro(m) => {
                    let Some(mname) = macro_name_of(&m.mac.path) else {
                        if last_ident(&m.mac.path) == "trait_impls" && !file.rel.starts_with("src/vecs/") {
                            return Err(format!("{}: `trait_impls!` outside src/vecs (may generate comparison impls)", file.rel));
                        }
                        continue;
                    };
                    let ctx = format!("{}: {mname}!", loc(file, m.mac.bang_token.span));
                    let cfg = cfg_of_attrs(&m.attrs, &ctx)?;
                    if matches!(cfg, Cfg::Test | Cfg::Verif) {
                        return Err(format!("{ctx}: under cfg(test)/cfg(hipstr_verif)"));
                    }
                    let feature = join_features(&file_feats(repo)?, &cfg);
                    let inv: Invocation = syn::parse2(m.mac.tokens.clone()).map_err(|e| format!("{ctx}: row syntax: {e}"))?;
                    for r in inv.0 {
                        let l = loc(file, r.span);
                        let rctx = format!("{l}: {mname}! row");
                        let a = operand_of_type(&r.a, &rctx)?;
                        let b = operand_of_type(&r.b, &rctx)?;
                        if !matches!(a, Operand::Hip(_)) && !matches!(b, Operand::Hip(_)) {
                            return Err(format!("{rctx}: no Hip operand"));
                        }
                        let h = resolve_helper(repo, file, &r.f)?;
                        for t in templates.iter().filter(|t| t.macro_name == mname) {
                            let (lhs, rhs) = if t.self_is_a { (a.clone(), b.clone()) } else { (b.clone(), a.clone()) };
                            let body = format!(
                                ".helper {} {} {} {} {} {} {} {} {}",
                                lean_str(&h.name),
                                h.t1.lean(),
                                h.t2.lean(),
                                h.op.lean(),
                                t.arg1.lean(),
                                t.arg2.lean(),
                                t.reverse,
                                lean_str(&h.loc),
                                lean_str(&t.loc)
                            );
                            rows.push(Row { tr: t.tr, lhs, rhs, body, feature: feature.clone(), loc: l.clone() });
                        }
                    }
                }
                Item::Impl(im) => {
                    let Some((_, tpath, _)) = &im.trait_ else { continue };
                    let Some(tr) = Trait::from_ident(&last_ident(tpath)) else { continue };
                    let targs = type_args(tpath.segments.last().unwrap());
                    let self_hip = hip_of_type(&im.self_ty).is_some();
                    let arg_hip = targs.iter().any(|t| hip_of_type(t).is_some());
                    if !self_hip {
                        if arg_hip {
                            return Err(format!("{}: hand-written `impl {tr:?}<Hip…> for <non-Hip type>`", loc(file, im.impl_token.span)));
                        }
                        continue; // SliceError, FromUtf8Error, vectors, …
                    }
                    handwritten_impl(file, im, tr, &file_feats(repo)?, &mut rows, &mut borrows, &mut used_acc)?;
                }
                _ => {}
            }
        }
    }

    // every Hip type must have the full hand-written set
    for h in [Hip::Byt, Hip::Str, Hip::Os, Hip::Path] {
        for tr in [Trait::PartialEq, Trait::Eq, Trait::PartialOrd, Trait::Ord, Trait::Hash] {
            let n = rows.iter().filter(|r| r.tr == tr && r.lhs == Operand::Hip(h) && r.rhs == Operand::Hip(h) && !r.body.starts_with(".helper")).count();
            if n != 1 {
                return Err(format!("expected exactly one hand-written `impl {tr:?} for {}`, found {n}", h.rust()));
            }
        }
    }

    let newtypes = newtype_rows(repo)?;
    used_acc.sort();
    let mut sigs = vec![];
    for (h, a) in &used_acc {
        let (t, l) = accessor_sig(repo, *h, *a)?;
        sigs.push((*h, *a, t, l));
    }
    let (inh, inh_loc) = inherent_eq_steps(repo)?;

    // ---- print
    let mut s = String::new();
    s.push_str(HEADER);
    s.push_str("import HipVerif.Model.ViewsTy\n\n");
    s.push_str("namespace HipVerif.Gen.CmpImpls\nopen HipVerif.Views\n\n");
    s.push_str("/-- Impl templates of `symmetric_eq!` / `symmetric_ord!` (src/macros.rs). -/\n");
    s.push_str("def macroTemplates : List MacroTemplate := [\n");
    let n = templates.len();
    for (i, t) in templates.iter().enumerate() {
        s.push_str(&format!(
            "  ⟨{}, {}, {}, {}, {}, {}, {}⟩{}\n",
            lean_str(&t.macro_name),
            t.tr.lean(),
            t.self_is_a,
            t.arg1.lean(),
            t.arg2.lean(),
            t.reverse,
            lean_str(&t.loc),
            if i + 1 < n { "," } else { "" }
        ));
    }
    s.push_str("]\n\n");
    s.push_str("/-- One row per comparison/hash impl (macro rows: one per impl template, i.e. both operand orders). -/\n");
    s.push_str("def table : List CmpRow := [\n");
    let n = rows.len();
    for (i, r) in rows.iter().enumerate() {
        s.push_str(&format!(
            "  ⟨{}, {}, {}, {}, {}, {}⟩{}\n",
            r.tr.lean(),
            r.lhs.lean(),
            r.rhs.lean(),
            r.body,
            lean_str(&r.feature),
            lean_str(&r.loc),
            if i + 1 < n { "," } else { "" }
        ));
    }
    s.push_str("]\n\n");
    s.push_str("/-- Every `impl Borrow<_> for Hip*`. -/\n");
    s.push_str("def borrows : List BorrowRow := [\n");
    let n = borrows.len();
    for (i, b) in borrows.iter().enumerate() {
        s.push_str(&format!(
            "  ⟨{}, {}, {}, {}, {}, {}⟩{}\n",
            b.owner.lean(),
            b.target.lean(),
            b.acc.lean(),
            b.wrap,
            lean_str(&b.feature),
            lean_str(&b.loc),
            if i + 1 < n { "," } else { "" }
        ));
    }
    s.push_str("]\n\n");
    s.push_str("/-- What `.0` is for the tuple-struct Hip types. -/\n");
    s.push_str("def newtypes : List NewtypeRow := [\n");
    let n = newtypes.len();
    for (i, (o, inn, l)) in newtypes.iter().enumerate() {
        s.push_str(&format!("  ⟨{}, {}, {}⟩{}\n", o.lean(), inn.lean(), lean_str(l), if i + 1 < n { "," } else { "" }));
    }
    s.push_str("]\n\n");
    s.push_str("/-- Return types of the accessors the hand-written impls go through. -/\n");
    s.push_str("def accessorSigs : List AccessorSig := [\n");
    let n = sigs.len();
    for (i, (h, a, t, l)) in sigs.iter().enumerate() {
        s.push_str(&format!("  ⟨{}, {}, {}, {}⟩{}\n", h.lean(), a.lean(), t.lean(), lean_str(l), if i + 1 < n { "," } else { "" }));
    }
    s.push_str("]\n\n");
    s.push_str(&format!("/-- Statements of `HipByt::inherent_eq` ({inh_loc}). -/\n"));
    s.push_str(&format!("def inherentEq : List InhStep := [{}]\n\n", inh.join(", ")));
    s.push_str("end HipVerif.Gen.CmpImpls\n");
    Ok(vec![GenFile { name: "CmpImpls.lean".into(), content: s }])
}
