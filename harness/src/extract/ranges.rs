//! `Gen/Ranges.lean`: statement-by-statement translation of the three range functions
//!
//! * `bytes::simplify_range_mono`   (src/bytes.rs)       — used by every `slice`/`try_slice`
//! * `common::range_mono`           (src/common.rs)      — used by the vectors (drain, …)
//! * `bytes::raw::try_range_of`     (src/bytes/raw.rs)   — used by `try_slice_ref`/`slice_ref`
//!
//! into the overflow-tracking monad `R ε α` of `HipVerif/Model/RangeTy.lean`.
//!
//! The supported Rust subset is deliberately tiny; anything else is a translator failure:
//! `let` (ident or `Range { start, end }` pattern, optional type ascription), `match` on a
//! `Bound`, `if / else if / else`, early `return` inside an `if` without `else`, `unsafe { e }`,
//! `+` (unchecked → `uadd`, may overflow), comparisons, `||`, `&&`, integer literals, paths,
//! tuples, `Range { start, end }` / `a..b` (→ pairs), enum variants (unit, tuple, struct-like),
//! `Ok`/`Err`/`Some`/`None`, `?`, and the method calls `saturating_add`, `checked_add`,
//! `wrapping_add`, `ok_or`, `len`, `as_ptr`, `as_ptr_range`, `offset_from`, `try_into`,
//! `unwrap_unchecked`.

use syn::{BinOp, Block, Expr, FnArg, ItemFn, Pat, ReturnType, Stmt, Type};

use super::repo::loc;
use super::{GenFile, Repo, HEADER};

const LEAN_KEYWORDS: &[&str] = &[
    "end", "do", "then", "else", "from", "at", "in", "fun", "let", "have", "show", "with", "by",
    "if", "match", "open", "def", "theorem", "where", "structure", "instance", "class", "start",
];

fn ident(s: &str) -> String {
    if LEAN_KEYWORDS.contains(&s) && s != "start" {
        format!("{s}_")
    } else {
        s.to_string()
    }
}

fn lower_camel(s: &str) -> String {
    let mut c = s.chars();
    match c.next() {
        Some(f) => f.to_lowercase().collect::<String>() + c.as_str(),
        None => String::new(),
    }
}

#[derive(Clone, Copy, PartialEq)]
enum RetKind {
    /// `Result<T, E>`: `Ok(v)` → `pure v`, `Err(e)` → `R.err e`
    Result,
    /// `Option<T>`: plain value `some v` / `none`
    Option,
}

struct Tr<'a> {
    file: &'a super::repo::SrcFile,
    ret: RetKind,
    fresh: std::cell::Cell<usize>,
}

/// A translated expression: `term` is a Lean term; when `pure` it has the value type,
/// otherwise it has type `R ε T` and must be bound.
struct Te {
    term: String,
    pure: bool,
}

impl Te {
    fn pure(s: impl Into<String>) -> Te {
        Te { term: s.into(), pure: true }
    }
    fn eff(s: impl Into<String>) -> Te {
        Te { term: s.into(), pure: false }
    }
    /// as a monadic term
    fn m(&self) -> String {
        if self.pure {
            format!("(pure ({}))", self.term)
        } else {
            format!("({})", self.term)
        }
    }
}

impl<'a> Tr<'a> {
    fn fail<T>(&self, span: proc_macro2::Span, what: &str) -> Result<T, String> {
        Err(format!("Gen/Ranges: unsupported {what} at {}", loc(self.file, span)))
    }

    /// Binds the effectful operands to fresh names, then builds the result.
    fn with_bound(&self, parts: Vec<Te>, build: impl FnOnce(&[String]) -> Te) -> Te {
        let mut binds = String::new();
        let mut names = vec![];
        for p in parts.iter() {
            if p.pure {
                names.push(format!("({})", p.term));
            } else {
                let k = self.fresh.get();
                self.fresh.set(k + 1);
                let n = format!("t{k}_");
                binds.push_str(&format!("let {n} ← ({}); ", p.term));
                names.push(n);
            }
        }
        let inner = build(&names);
        if binds.is_empty() {
            inner
        } else {
            Te::eff(format!("(do {binds}{})", inner.m()))
        }
    }

    fn path_last2(&self, p: &syn::Path) -> (Option<String>, String) {
        let segs: Vec<String> = p.segments.iter().map(|s| s.ident.to_string()).collect();
        let last = segs.last().cloned().unwrap_or_default();
        let prev = if segs.len() >= 2 { Some(segs[segs.len() - 2].clone()) } else { None };
        (prev, last)
    }

    fn expr(&self, e: &Expr) -> Result<Te, String> {
        use syn::spanned::Spanned;
        match e {
            Expr::Paren(p) => self.expr(&p.expr),
            Expr::Group(g) => self.expr(&g.expr),
            Expr::Lit(l) => match &l.lit {
                syn::Lit::Int(i) => Ok(Te::pure(i.base10_digits().to_string())),
                _ => self.fail(l.span(), "literal"),
            },
            Expr::Path(p) => {
                let (prev, last) = self.path_last2(&p.path);
                match (prev.as_deref(), last.as_str()) {
                    (None, "None") => Ok(Te::pure("none")),
                    (None, v) => Ok(Te::pure(ident(v))),
                    (Some("usize"), "MAX") => Ok(Te::pure("(U - 1)")),
                    (Some(_), v) => Ok(Te::pure(format!(".{}", lower_camel(v)))),
                }
            }
            Expr::Unsafe(u) => self.block_value(&u.block),
            Expr::Block(b) => self.block_value(&b.block),
            Expr::Tuple(t) => {
                let parts = t.elems.iter().map(|x| self.expr(x)).collect::<Result<Vec<_>, _>>()?;
                Ok(self.with_bound(parts, |n| Te::pure(format!("({})", n.join(", ")))))
            }
            Expr::Range(r) => {
                let (Some(a), Some(b)) = (&r.start, &r.end) else {
                    return self.fail(r.span(), "open range expression");
                };
                if !matches!(r.limits, syn::RangeLimits::HalfOpen(_)) {
                    return self.fail(r.span(), "inclusive range expression");
                }
                let parts = vec![self.expr(a)?, self.expr(b)?];
                Ok(self.with_bound(parts, |n| Te::pure(format!("({}, {})", n[0], n[1]))))
            }
            Expr::Struct(s) => {
                let (_, last) = self.path_last2(&s.path);
                let fields = s
                    .fields
                    .iter()
                    .map(|f| self.expr(&f.expr))
                    .collect::<Result<Vec<_>, _>>()?;
                if last == "Range" {
                    // fields must be start, end in that order
                    let names: Vec<String> = s
                        .fields
                        .iter()
                        .map(|f| match &f.member {
                            syn::Member::Named(i) => i.to_string(),
                            _ => String::new(),
                        })
                        .collect();
                    if names != ["start", "end"] {
                        return self.fail(s.span(), "Range literal field order");
                    }
                    Ok(self.with_bound(fields, |n| Te::pure(format!("({}, {})", n[0], n[1]))))
                } else {
                    let ctor = lower_camel(&last);
                    Ok(self.with_bound(fields, |n| Te::pure(format!("(.{ctor} {})", n.join(" ")))))
                }
            }
            Expr::Binary(b) => {
                let l = self.expr(&b.left)?;
                let r = self.expr(&b.right)?;
                let parts = vec![l, r];
                let op = match &b.op {
                    BinOp::Add(_) => return Ok(self.with_bound(parts, |n| Te::eff(format!("uadd {} {}", n[0], n[1])))),
                    BinOp::Sub(_) => return Ok(self.with_bound(parts, |n| Te::eff(format!("usub {} {}", n[0], n[1])))),
                    BinOp::Mul(_) => return Ok(self.with_bound(parts, |n| Te::eff(format!("umul {} {}", n[0], n[1])))),
                    BinOp::Lt(_) => "<",
                    BinOp::Le(_) => "≤",
                    BinOp::Gt(_) => ">",
                    BinOp::Ge(_) => "≥",
                    BinOp::Eq(_) => "==",
                    BinOp::Ne(_) => "!=",
                    BinOp::Or(_) => "||",
                    BinOp::And(_) => "&&",
                    _ => return self.fail(b.span(), "binary operator"),
                };
                Ok(self.with_bound(parts, |n| match op {
                    "||" | "&&" | "==" | "!=" => Te::pure(format!("({} {op} {})", n[0], n[1])),
                    _ => Te::pure(format!("(decide ({} {op} {}))", n[0], n[1])),
                }))
            }
            Expr::Call(c) => {
                let Expr::Path(p) = &*c.func else {
                    return self.fail(c.span(), "call target");
                };
                let (prev, last) = self.path_last2(&p.path);
                let args = c.args.iter().map(|a| self.expr(a)).collect::<Result<Vec<_>, _>>()?;
                match (prev.as_deref(), last.as_str()) {
                    (None, "Ok") if self.ret == RetKind::Result && args.len() == 1 => {
                        Ok(self.with_bound(args, |n| Te::eff(format!("R.ok {}", n[0]))))
                    }
                    (None, "Err") if self.ret == RetKind::Result && args.len() == 1 => {
                        Ok(self.with_bound(args, |n| Te::eff(format!("R.err {}", n[0]))))
                    }
                    (None, "Some") if args.len() == 1 => {
                        Ok(self.with_bound(args, |n| Te::pure(format!("(some {})", n[0]))))
                    }
                    (Some(_), v) => {
                        // tuple enum variant
                        let ctor = lower_camel(v);
                        Ok(self.with_bound(args, |n| Te::pure(format!("(.{ctor} {})", n.join(" ")))))
                    }
                    _ => self.fail(c.span(), "call"),
                }
            }
            Expr::MethodCall(mc) => {
                let recv = self.expr(&mc.receiver)?;
                let mut parts = vec![recv];
                for a in &mc.args {
                    parts.push(self.expr(a)?);
                }
                let name = mc.method.to_string();
                let nargs = mc.args.len();
                let t = match (name.as_str(), nargs) {
                    ("saturating_add", 1) => self.with_bound(parts, |n| Te::pure(format!("(satAdd {} {})", n[0], n[1]))),
                    ("wrapping_add", 1) => self.with_bound(parts, |n| Te::pure(format!("(wrapAdd {} {})", n[0], n[1]))),
                    ("checked_add", 1) => self.with_bound(parts, |n| Te::pure(format!("(checkedAdd {} {})", n[0], n[1]))),
                    ("ok_or", 1) => self.with_bound(parts, |n| Te::pure(format!("(okOr {} {})", n[0], n[1]))),
                    ("len", 0) => self.with_bound(parts, |n| Te::pure(format!("{}.len", n[0]))),
                    ("as_ptr", 0) => self.with_bound(parts, |n| Te::pure(format!("{}.ptr", n[0]))),
                    ("as_ptr_range", 0) => self.with_bound(parts, |n| Te::pure(format!("(ptrRange {})", n[0]))),
                    ("offset_from", 1) => self.with_bound(parts, |n| Te::pure(format!("(offsetFrom {} {})", n[0], n[1]))),
                    ("try_into", 0) => self.with_bound(parts, |n| Te::pure(format!("(tryIntoUsize {})", n[0]))),
                    ("unwrap_unchecked", 0) => self.with_bound(parts, |n| Te::eff(format!("unwrapUnchecked {}", n[0]))),
                    _ => return self.fail(mc.span(), &format!("method call `{name}`")),
                };
                Ok(t)
            }
            Expr::Try(t) => {
                // `e?` where e : Result-like value (`okOr …`) → bind through `R.ofExcept`
                let inner = self.expr(&t.expr)?;
                Ok(self.with_bound(vec![inner], |n| Te::eff(format!("R.ofExcept {}", n[0]))))
            }
            Expr::Match(m) => {
                let scrut = self.expr(&m.expr)?;
                let mut arms = String::new();
                for arm in &m.arms {
                    if arm.guard.is_some() {
                        return self.fail(arm.span(), "match guard");
                    }
                    let pat = self.pattern(&arm.pat)?;
                    let body = self.expr(&arm.body)?;
                    arms.push_str(&format!("\n      | {pat} => {}", body.m()));
                }
                Ok(self.with_bound(vec![scrut], |n| Te::eff(format!("(match {} with{arms})", n[0]))))
            }
            Expr::If(i) => {
                let c = self.expr(&i.cond)?;
                let then = self.block_value(&i.then_branch)?;
                let Some((_, els)) = &i.else_branch else {
                    return self.fail(i.span(), "`if` without `else` in value position");
                };
                let els = self.expr(els)?;
                Ok(self.with_bound(vec![c], |n| {
                    Te::eff(format!("if {} then {}\n    else {}", n[0], then.m(), els.m()))
                }))
            }
            Expr::Return(r) => {
                let Some(v) = &r.expr else {
                    return self.fail(r.span(), "bare return");
                };
                self.expr(v)
            }
            _ => self.fail(e.span(), "expression"),
        }
    }

    fn pattern(&self, p: &Pat) -> Result<String, String> {
        use syn::spanned::Spanned;
        match p {
            Pat::TupleStruct(ts) => {
                let (_, last) = self.path_last2(&ts.path);
                let mut args = vec![];
                for e in &ts.elems {
                    match e {
                        Pat::Ident(i) => args.push(ident(&i.ident.to_string())),
                        Pat::Wild(_) => args.push("_".into()),
                        _ => return self.fail(e.span(), "nested pattern"),
                    }
                }
                Ok(format!(".{} {}", lower_camel(&last), args.join(" ")))
            }
            Pat::Path(pp) => {
                let (_, last) = self.path_last2(&pp.path);
                Ok(format!(".{}", lower_camel(&last)))
            }
            Pat::Ident(i) => {
                // a bare upper-case identifier is a unit variant brought in scope; lower-case binds
                Ok(ident(&i.ident.to_string()))
            }
            _ => self.fail(p.span(), "pattern"),
        }
    }

    /// Translates a block used as a value: statements then a tail expression,
    /// with `if c { return e; }` turned into `if c then e else <rest>`.
    fn block_value(&self, b: &Block) -> Result<Te, String> {
        self.stmts(&b.stmts)
    }

    fn stmts(&self, stmts: &[Stmt]) -> Result<Te, String> {
        use syn::spanned::Spanned;
        let Some((first, rest)) = stmts.split_first() else {
            return Err(format!("Gen/Ranges: empty block in {}", self.file.rel));
        };
        match first {
            Stmt::Local(l) => {
                let Some(init) = &l.init else {
                    return self.fail(l.span(), "let without initialiser");
                };
                if init.diverge.is_some() {
                    return self.fail(l.span(), "let-else");
                }
                let value = self.expr(&init.expr)?;
                let pat = match &l.pat {
                    Pat::Ident(i) => ident(&i.ident.to_string()),
                    Pat::Type(pt) => match &*pt.pat {
                        Pat::Ident(i) => ident(&i.ident.to_string()),
                        _ => return self.fail(l.span(), "let pattern"),
                    },
                    Pat::Struct(ps) => {
                        let (_, last) = self.path_last2(&ps.path);
                        if last != "Range" {
                            return self.fail(l.span(), "struct pattern");
                        }
                        let names: Vec<String> = ps
                            .fields
                            .iter()
                            .map(|f| match &f.member {
                                syn::Member::Named(i) => i.to_string(),
                                _ => String::new(),
                            })
                            .collect();
                        if names != ["start", "end"] {
                            return self.fail(l.span(), "Range pattern field order");
                        }
                        "(start, end_)".to_string()
                    }
                    _ => return self.fail(l.span(), "let pattern"),
                };
                let k = self.stmts(rest)?;
                let bind = if value.pure {
                    format!("let {pat} := {};", value.term)
                } else {
                    format!("let {pat} ← {};", value.term)
                };
                Ok(Te::eff(format!("do\n    {bind}\n    {}", k.m())))
            }
            Stmt::Expr(e, semi) => {
                if rest.is_empty() {
                    if semi.is_some() {
                        return self.fail(e.span(), "block ending in a statement");
                    }
                    return self.expr(e);
                }
                // only `if c { return v; }` may be followed by more statements
                if let Expr::If(i) = e {
                    if i.else_branch.is_none() {
                        let c = self.expr(&i.cond)?;
                        let then = self.early_return_block(&i.then_branch)?;
                        let k = self.stmts(rest)?;
                        return Ok(self.with_bound(vec![c], |n| {
                            Te::eff(format!("if {} then {}\n    else {}", n[0], then.m(), k.m()))
                        }));
                    }
                }
                self.fail(e.span(), "statement")
            }
            _ => self.fail(first.span(), "statement kind"),
        }
    }

    fn early_return_block(&self, b: &Block) -> Result<Te, String> {
        use syn::spanned::Spanned;
        if b.stmts.len() != 1 {
            return self.fail(b.span(), "early-return block");
        }
        match &b.stmts[0] {
            Stmt::Expr(Expr::Return(r), _) => {
                let Some(v) = &r.expr else {
                    return self.fail(r.span(), "bare return");
                };
                self.expr(v)
            }
            other => self.fail(other.span(), "early-return block"),
        }
    }
}

fn find_fn<'a>(file: &'a super::repo::SrcFile, name: &str) -> Result<&'a ItemFn, String> {
    for item in &file.ast.items {
        if let syn::Item::Fn(f) = item {
            if f.sig.ident == name {
                return Ok(f);
            }
        }
    }
    Err(format!("Gen/Ranges: fn {name} not found in {}", file.rel))
}

fn type_string(t: &Type) -> String {
    quote::quote!(#t).to_string().replace(' ', "")
}

/// `(lean param list, return kind, lean return type)`
fn signature(file: &super::repo::SrcFile, f: &ItemFn) -> Result<(String, RetKind, String), String> {
    use syn::spanned::Spanned;
    let mut params = vec![];
    for a in &f.sig.inputs {
        let FnArg::Typed(pt) = a else {
            return Err(format!("Gen/Ranges: receiver at {}", loc(file, a.span())));
        };
        let Pat::Ident(pi) = &*pt.pat else {
            return Err(format!("Gen/Ranges: parameter pattern at {}", loc(file, a.span())));
        };
        let ty = match type_string(&pt.ty).as_str() {
            "Bound<usize>" => "Bound",
            "usize" => "Nat",
            "&[u8]" => "Slice",
            other => {
                return Err(format!(
                    "Gen/Ranges: parameter type {other} at {}",
                    loc(file, a.span())
                ))
            }
        };
        params.push(format!("({} : {ty})", ident(&pi.ident.to_string())));
    }
    let ReturnType::Type(_, rt) = &f.sig.output else {
        return Err(format!("Gen/Ranges: no return type at {}", loc(file, f.sig.span())));
    };
    let (kind, lean) = match type_string(rt).as_str() {
        "Result<Range<usize>,(usize,usize,SliceErrorKind)>" => {
            (RetKind::Result, "R (Nat × Nat × SliceErrorKind) (Nat × Nat)")
        }
        "Result<Range<usize>,RangeError>" => (RetKind::Result, "R RangeError (Nat × Nat)"),
        "Option<Range<usize>>" => (RetKind::Option, "R Unit (Option (Nat × Nat))"),
        other => {
            return Err(format!(
                "Gen/Ranges: return type {other} at {}",
                loc(file, f.sig.span())
            ))
        }
    };
    Ok((params.join(" "), kind, lean.to_string()))
}

fn translate(repo: &Repo, rel: &str, name: &str, lean_name: &str) -> Result<String, String> {
    let file = repo.file(rel)?;
    let f = find_fn(file, name)?;
    let (params, kind, ret) = signature(file, f)?;
    let tr = Tr { file, ret: kind, fresh: std::cell::Cell::new(0) };
    let body = tr.stmts(&f.block.stmts)?;
    use syn::spanned::Spanned;
    Ok(format!(
        "/-- `{name}` — {} -/\ndef {lean_name} {params} : {ret} :=\n  {}\n",
        loc(file, f.span()),
        body.m()
    ))
}

pub fn generate(repo: &Repo) -> Result<Vec<GenFile>, String> {
    let mut s = String::from(HEADER);
    s.push_str("import HipVerif.Model.RangeTy\n\nnamespace HipVerif.Gen.Ranges\nopen HipVerif.RangeTy\n\n");
    s.push_str(&translate(repo, "src/bytes.rs", "simplify_range_mono", "simplifyRangeMono")?);
    s.push('\n');
    s.push_str(&translate(repo, "src/common.rs", "range_mono", "rangeMono")?);
    s.push('\n');
    s.push_str(&translate(repo, "src/bytes/raw.rs", "try_range_of", "tryRangeOf")?);
    s.push_str("\nend HipVerif.Gen.Ranges\n");
    Ok(vec![GenFile { name: "Ranges.lean".into(), content: s }])
}
