//! `Gen/Atomics.lean`: the bodies of `impl Kind for Arc` (`src/smart.rs`) as lists of `AStep`
//! (`HipVerif/Model/AtomicsTy.lean`).
//!
//! Pure template matching on the `syn` AST. Every statement and every sub-expression of the
//! translated methods must match one of the templates below; anything else is an `Err`
//! (fail closed: a weakened source must come out as a faithful description or not at all).
use std::collections::HashMap;

use proc_macro2::Span;
use syn::spanned::Spanned;
use syn::{BinOp, Block, Expr, ExprMethodCall, ExprWhile, ImplItem, Item, ItemImpl, Lit, Member, Pat, Stmt, TraitItem};

use super::repo::{loc, SrcFile};
use super::{GenFile, Repo, HEADER};

type R<T> = Result<T, String>;
const FILE: &str = "src/smart.rs";

struct Row {
    text: String,
    loc: String,
}

/// Per-method translation state.
struct Cx<'a> {
    f: &'a SrcFile,
    /// `let name = Ordering::X;`
    ords: HashMap<String, &'static str>,
    /// `let name = &self.0;`
    alias: Option<String>,
    /// source name of the register `old` (None: nothing read yet, or read inline without a name)
    reg: Option<String>,
    /// `let name = <reg> + k;` (valid until the register changes)
    news: HashMap<String, u64>,
    rows: Vec<Row>,
    /// ordering of the load in `Arc::get` (for `self.get()` inside a `debug_assert!`)
    get_ord: Option<String>,
    /// sites of `debug_assert!` statements that access the counter (shared with `generate`)
    debug_sites: std::rc::Rc<std::cell::RefCell<Vec<String>>>,
}

fn ident_of(e: &Expr) -> Option<String> {
    match e {
        Expr::Path(p) if p.attrs.is_empty() && p.qself.is_none() => p.path.get_ident().map(|i| i.to_string()),
        _ => None,
    }
}

/// Segments of a plain path expression (no generic arguments, no qself).
fn segs(e: &Expr) -> Option<Vec<String>> {
    match e {
        Expr::Path(p) if p.attrs.is_empty() && p.qself.is_none() => {
            p.path.segments.iter().map(|s| s.arguments.is_none().then(|| s.ident.to_string())).collect()
        }
        _ => None,
    }
}

fn last2(e: &Expr) -> Option<(String, String)> {
    let s = segs(e)?;
    (s.len() >= 2).then(|| (s[s.len() - 2].clone(), s[s.len() - 1].clone()))
}

fn int(e: &Expr) -> Option<u64> {
    match e {
        Expr::Lit(l) if l.attrs.is_empty() => match &l.lit {
            Lit::Int(i) if i.suffix().is_empty() || i.suffix() == "usize" => i.base10_parse().ok(),
            _ => None,
        },
        _ => None,
    }
}

fn bin(e: &Expr) -> Option<(&Expr, &BinOp, &Expr)> {
    match e {
        Expr::Binary(b) if b.attrs.is_empty() => Some((&b.left, &b.op, &b.right)),
        _ => None,
    }
}

fn is_usize_max(e: &Expr) -> bool {
    segs(e).map_or(false, |s| s == ["usize", "MAX"])
}

/// `{ e }` / `{ e; }` -> `e`
fn unbrace(e: &Expr) -> &Expr {
    if let Expr::Block(b) = e {
        if let (true, None, [Stmt::Expr(inner, _)]) = (b.attrs.is_empty(), &b.label, &b.block.stmts[..]) {
            return inner;
        }
    }
    e
}

impl<'a> Cx<'a> {
    fn new(f: &'a SrcFile) -> Self {
        Cx { f, ords: HashMap::new(), alias: None, reg: None, news: HashMap::new(), rows: vec![], get_ord: None, debug_sites: Default::default() }
    }
    fn bad<T>(&self, what: &str, sp: Span) -> R<T> {
        Err(format!("Gen/Atomics: unsupported {what} at {}", loc(self.f, sp)))
    }
    fn push(&mut self, text: String, sp: Span) {
        self.rows.push(Row { text, loc: loc(self.f, sp) });
    }
    fn is_reg(&self, e: &Expr) -> bool {
        self.reg.is_some() && ident_of(e) == self.reg
    }
    /// A fresh `let name`: shadows every earlier meaning of `name`.
    fn unbind(&mut self, name: &str) {
        self.ords.remove(name);
        self.news.remove(name);
        if self.alias.as_deref() == Some(name) {
            self.alias = None;
        }
        if self.reg.as_deref() == Some(name) {
            self.reg = None;
        }
    }
    fn set_reg(&mut self, name: Option<String>) {
        self.reg = name;
        self.news.clear();
    }

    fn ord(&self, e: &Expr) -> R<&'static str> {
        let name = match (last2(e), ident_of(e)) {
            (Some((o, x)), _) if o == "Ordering" => x,
            (_, Some(id)) => return self.ords.get(&id).copied().map_or_else(|| self.bad("ordering", e.span()), Ok),
            _ => return self.bad("ordering", e.span()),
        };
        Ok(match name.as_str() {
            "Relaxed" => ".relaxed",
            "Release" => ".release",
            "Acquire" => ".acquire",
            "AcqRel" => ".acqRel",
            "SeqCst" => ".seqCst",
            _ => return self.bad("ordering", e.span()),
        })
    }

    fn bound(&self, e: &Expr) -> R<String> {
        if let Some(n) = int(e) {
            return Ok(format!("(.lit {n})"));
        }
        if is_usize_max(e) {
            return Ok("(.usizeMaxMinus 0)".into());
        }
        if let Some((l, BinOp::Sub(_), r)) = bin(e) {
            if let (true, Some(k)) = (is_usize_max(l), int(r)) {
                return Ok(format!("(.usizeMaxMinus {k})"));
            }
        }
        self.bad("constant", e.span())
    }

    fn is_self0(e: &Expr) -> bool {
        match e {
            Expr::Field(f) if f.attrs.is_empty() => {
                ident_of(&f.base).as_deref() == Some("self") && matches!(&f.member, Member::Unnamed(i) if i.index == 0)
            }
            _ => false,
        }
    }

    /// A method call whose receiver is the atomic (`self.0` or its alias).
    fn atomic_call<'e>(&self, e: &'e Expr) -> Option<&'e ExprMethodCall> {
        match e {
            Expr::MethodCall(mc) if mc.attrs.is_empty() && mc.turbofish.is_none() => {
                let rcv = &*mc.receiver;
                let aliased = self.alias.is_some() && ident_of(rcv) == self.alias;
                (Self::is_self0(rcv) || aliased).then_some(mc)
            }
            _ => None,
        }
    }

    /// `load(ord)` / `fetch_sub(n, ord)` / `fetch_add(n, ord)`: the steps that set the register.
    fn read_op(&self, mc: &ExprMethodCall) -> R<String> {
        let args: Vec<&Expr> = mc.args.iter().collect();
        match (mc.method.to_string().as_str(), &args[..]) {
            ("load", [o]) => Ok(format!(".load {}", self.ord(o)?)),
            (m @ ("fetch_sub" | "fetch_add"), [n, o]) => {
                let Some(n) = int(n) else { return self.bad("fetch operand", n.span()) };
                Ok(format!(".{} {n} {}", if m == "fetch_sub" { "rmwSub" } else { "rmwAdd" }, self.ord(o)?))
            }
            (m, _) => self.bad(&format!("atomic operation `{m}`"), mc.span()),
        }
    }

    /// `<reg>`, `<reg> + k`, `<reg> - k`, or a `let new = <reg> + k` local: (is_minus, k)
    fn reg_offset(&self, e: &Expr) -> Option<(bool, u64)> {
        if self.is_reg(e) {
            return Some((false, 0));
        }
        if let Some(k) = ident_of(e).and_then(|id| self.news.get(&id).copied()) {
            return Some((false, k));
        }
        match bin(e)? {
            (l, BinOp::Add(_), r) if self.is_reg(l) => Some((false, int(r)?)),
            (l, BinOp::Sub(_), r) if self.is_reg(l) => Some((true, int(r)?)),
            _ => None,
        }
    }

    /// `fence(ord);`, `A.store(<reg> ± k, ord);` or a result-discarding `A.fetch_sub/add(n, ord);`
    /// as a `Simple`; `None` if `s` is something else.
    /// `debug_assert!(<cond>[, msg…]);` / `debug_assert_eq!/ne!(a, b[, …]);`: `Ok(None)` if the
    /// assertion does not mention `self` at all (purely local), `Ok(Some(ord))` if it performs
    /// exactly one recognised load of the counter (`self.get()`, `self.is_unique()` is rejected
    /// because it also fences, `self.0.load(ord)` / `<alias>.load(ord)`), `Err` otherwise.
    fn debug_assert_access(&self, m: &syn::StmtMacro) -> R<Option<String>> {
        use syn::punctuated::Punctuated;
        let name = m.mac.path.segments.last().map(|s| s.ident.to_string()).unwrap_or_default();
        let sp = m.mac.path.span();
        if !matches!(name.as_str(), "debug_assert" | "debug_assert_eq" | "debug_assert_ne") {
            return self.bad(&format!("macro statement `{name}!` (only `debug_assert*!` is understood)"), sp);
        }
        let args = m
            .mac
            .parse_body_with(Punctuated::<Expr, syn::Token![,]>::parse_terminated)
            .map_err(|e| format!("Gen/Atomics: unsupported arguments of `{name}!` at {}: {e}", loc(self.f, sp)))?;
        let n_cond = if name == "debug_assert" { 1 } else { 2 };
        struct Find<'c, 'a> {
            cx: &'c Cx<'a>,
            loads: Vec<R<String>>,
            mentions_self: bool,
        }
        impl<'c, 'a, 'ast> syn::visit::Visit<'ast> for Find<'c, 'a> {
            fn visit_expr_method_call(&mut self, mc: &'ast ExprMethodCall) {
                let recv_self = matches!(&*mc.receiver, Expr::Path(p) if p.path.is_ident("self"));
                let on_atomic = Cx::is_self0(&mc.receiver)
                    || ident_of(&mc.receiver).map_or(false, |id| Some(id) == self.cx.alias);
                let meth = mc.method.to_string();
                if recv_self && meth == "get" && mc.args.is_empty() {
                    self.mentions_self = true;
                    self.loads.push(match &self.cx.get_ord {
                        Some(o) => Ok(o.clone()),
                        None => self.cx.bad("`self.get()` in a `debug_assert!` (the shape of `Arc::get` is not `load(ord) + k`)", mc.span()),
                    });
                    return;
                }
                if on_atomic && meth == "load" && mc.args.len() == 1 {
                    self.mentions_self = true;
                    self.loads.push(self.cx.ord(&mc.args[0]).map(|o| o.to_string()));
                    return;
                }
                if recv_self || on_atomic {
                    self.mentions_self = true;
                    self.loads.push(self.cx.bad(&format!("counter access `{meth}` inside a `debug_assert!`"), mc.span()));
                    return;
                }
                syn::visit::visit_expr_method_call(self, mc);
            }
            fn visit_expr_path(&mut self, p: &'ast syn::ExprPath) {
                if p.path.is_ident("self") || ident_of(&Expr::Path(p.clone())).map_or(false, |id| Some(id) == self.cx.alias) {
                    self.mentions_self = true;
                }
            }
        }
        let mut fnd = Find { cx: self, loads: vec![], mentions_self: false };
        for a in args.iter().take(n_cond) {
            syn::visit::Visit::visit_expr(&mut fnd, a);
        }
        let mut loads = vec![];
        for l in fnd.loads {
            loads.push(l?);
        }
        match (loads.len(), fnd.mentions_self) {
            (0, false) => Ok(None),
            (1, _) => Ok(Some(loads.remove(0))),
            (0, true) => self.bad(&format!("use of `self` inside `{name}!` that is not a recognised counter load"), sp),
            _ => self.bad(&format!("more than one counter access inside one `{name}!`"), sp),
        }
    }

    fn simple(&self, s: &Stmt) -> R<Option<(String, Span)>> {
        if let Stmt::Macro(m) = s {
            return Ok(match self.debug_assert_access(m)? {
                Some(o) => {
                    self.debug_sites.borrow_mut().push(loc(self.f, m.mac.path.span()));
                    Some((format!(".debugLoad {o}"), m.mac.path.span()))
                }
                // a purely local assertion: no step (marked so that the caller skips it)
                None => Some((String::new(), m.mac.path.span())),
            });
        }
        let Stmt::Expr(e, Some(_)) = s else { return Ok(None) };
        if let Expr::Call(c) = e {
            if let (true, Some("fence"), Some(o), 1) =
                (c.attrs.is_empty(), ident_of(&c.func).as_deref(), c.args.first(), c.args.len())
            {
                return Ok(Some((format!(".fence {}", self.ord(o)?), e.span())));
            }
        }
        let Some(mc) = self.atomic_call(e) else { return Ok(None) };
        let args: Vec<&Expr> = mc.args.iter().collect();
        match (mc.method.to_string().as_str(), &args[..]) {
            ("store", [v, o]) => match (self.reg_offset(v), int(v)) {
                (Some((minus, k)), _) => {
                    let c = if minus { "storeOldMinus" } else { "storeOldPlus" };
                    Ok(Some((format!(".{c} {k} {}", self.ord(o)?), e.span())))
                }
                (None, Some(lit)) => Ok(Some((format!(".storeLit {lit} {}", self.ord(o)?), e.span()))),
                (None, None) => self.bad("stored value (expected `<old> ± k` or a literal)", v.span()),
            },
            // `A.fetch_sub(n, ord);` / `A.fetch_add(n, ord);` with the result discarded
            (m @ ("fetch_sub" | "fetch_add"), [n, o]) => match int(n) {
                Some(n) => {
                    let c = if m == "fetch_sub" { "rmwSub" } else { "rmwAdd" };
                    Ok(Some((format!(".{c} {n} {}", self.ord(o)?), e.span())))
                }
                None => self.bad("operand of a read-modify-write", n.span()),
            },
            (m, _) => self.bad(&format!("atomic operation `{m}`"), e.span()),
        }
    }

    /// A returned value that needs no further step.
    fn ret(&self, e: &Expr) -> R<String> {
        if let Some((t, v)) = last2(e) {
            match (t.as_str(), v.as_str()) {
                ("UpdateResult", "Done") => return Ok(".done".into()),
                ("UpdateResult", "Overflow") => return Ok(".overflow".into()),
                _ => {}
            }
        }
        if let Expr::Lit(l) = e {
            if let (true, Lit::Bool(b)) = (l.attrs.is_empty(), &l.lit) {
                return Ok(format!("(.bool {})", b.value));
            }
        }
        if let Some((l, BinOp::Add(_), r)) = bin(e) {
            if let (true, Some(k)) = (self.is_reg(l), int(r)) {
                return Ok(format!("(.oldPlus {k})"));
            }
        }
        self.bad("return value", e.span())
    }

    /// `r` (tail) or `return r;` as the last statement of a block.
    fn tail<'s>(&self, s: &'s Stmt) -> Option<&'s Expr> {
        match s {
            Stmt::Expr(Expr::Return(r), Some(_)) if r.attrs.is_empty() => r.expr.as_deref(),
            Stmt::Expr(Expr::Return(_), None) => None,
            Stmt::Expr(e, None) => Some(e),
            _ => None,
        }
    }

    /// A branch arm: `{ simple; …; ret }`
    fn arm(&self, b: &Block) -> R<(String, String)> {
        let Some((last, init)) = b.stmts.split_last() else { return self.bad("empty branch arm", b.span()) };
        let mut simples = vec![];
        for s in init {
            match self.simple(s)? {
                Some((t, _)) if t.is_empty() => {}
                Some((t, _)) => simples.push(t),
                None => {
                    return self.bad(
                        "statement in branch arm (known: `fence(..);`, `A.store(..);`, `A.fetch_sub/add(n, ..);`, `debug_assert!(..)`)",
                        s.span(),
                    )
                }
            }
        }
        let Some(r) = self.tail(last) else { return self.bad("end of branch arm", last.span()) };
        Ok((format!("[{}]", simples.join(", ")), self.ret(r)?))
    }

    /// `if <old> <cmp> c { simple; …; return r; }` without `else`, not in tail position:
    /// an early return.
    fn guard(&mut self, i: &syn::ExprIf) -> R<()> {
        let Some((l, op, r)) = bin(&i.cond) else { return self.bad("condition", i.cond.span()) };
        let cmp = match op {
            BinOp::Eq(_) => ".eq",
            BinOp::Ne(_) => ".ne",
            BinOp::Lt(_) => ".lt",
            BinOp::Le(_) => ".le",
            _ => return self.bad("comparison", i.cond.span()),
        };
        if !self.is_reg(l) {
            return self.bad("condition operand of an early return (expected the value last read)", l.span());
        }
        let bound = self.bound(r)?;
        match i.then_branch.stmts.last() {
            Some(Stmt::Expr(Expr::Return(_), Some(_))) => {}
            _ => return self.bad("`if` without `else` that does not end in `return …;`", i.if_token.span),
        }
        let (ts, tr) = self.arm(&i.then_branch)?;
        self.push(format!(".guard {cmp} {bound} {ts} {tr}"), i.if_token.span);
        Ok(())
    }

    fn branch(&mut self, i: &syn::ExprIf) -> R<()> {
        let Some((l, op, r)) = bin(&i.cond) else { return self.bad("condition", i.cond.span()) };
        let cmp = match op {
            BinOp::Eq(_) => ".eq",
            BinOp::Ne(_) => ".ne",
            BinOp::Lt(_) => ".lt",
            BinOp::Le(_) => ".le",
            _ => return self.bad("comparison", i.cond.span()),
        };
        if let Some(mc) = self.atomic_call(l) {
            let op = self.read_op(mc)?;
            self.push(op, mc.span());
            self.set_reg(None);
        } else if !self.is_reg(l) {
            return self.bad("condition operand", l.span());
        }
        let bound = self.bound(r)?;
        let els = match i.else_branch.as_ref().map(|(_, e)| &**e) {
            Some(Expr::Block(b)) if b.attrs.is_empty() && b.label.is_none() => &b.block,
            _ => return self.bad("`if` without a plain `else` block", i.if_token.span),
        };
        let (ts, tr) = self.arm(&i.then_branch)?;
        let (es, er) = self.arm(els)?;
        self.push(format!(".branch {cmp} {bound} {ts} {tr} {es} {er}"), i.if_token.span);
        Ok(())
    }

    fn cas_loop(&mut self, w: &ExprWhile) -> R<()> {
        let sp = w.while_token.span;
        let bound = match bin(&w.cond) {
            Some((l, BinOp::Lt(_), r)) if w.label.is_none() && self.is_reg(l) => self.bound(r)?,
            _ => return self.bad("loop condition", w.cond.span()),
        };
        let is_next = |cx: &Self, e: &Expr| matches!(bin(e), Some((l, BinOp::Add(_), r)) if cx.is_reg(l) && int(r) == Some(1));
        let (new, m) = match &w.body.stmts[..] {
            [Stmt::Expr(Expr::Match(m), _)] => (None, m),
            [Stmt::Local(l), Stmt::Expr(Expr::Match(m), _)] => {
                let (name, init) = match (&l.pat, &l.init) {
                    (Pat::Ident(p), Some(i))
                        if l.attrs.is_empty() && p.by_ref.is_none() && p.mutability.is_none() && p.subpat.is_none() && i.diverge.is_none() =>
                    {
                        (p.ident.to_string(), &*i.expr)
                    }
                    _ => return self.bad("loop statement", l.span()),
                };
                if !is_next(self, init) || Some(&name) == self.reg.as_ref() || self.ords.contains_key(&name) || Some(&name) == self.alias.as_ref() {
                    return self.bad("loop statement", l.span());
                }
                (Some(name), m)
            }
            _ => return self.bad("loop body", w.body.span()),
        };
        let Some(mc) = self.atomic_call(&m.expr) else { return self.bad("loop `match` scrutinee", m.expr.span()) };
        let weak = match mc.method.to_string().as_str() {
            "compare_exchange_weak" => true,
            "compare_exchange" => false,
            o => return self.bad(&format!("atomic operation `{o}`"), mc.span()),
        };
        let args: Vec<&Expr> = mc.args.iter().collect();
        let [cur, nxt, succ, fail] = &args[..] else { return self.bad("compare_exchange arguments", mc.span()) };
        let nxt_ok = is_next(self, nxt) || (new.is_some() && ident_of(nxt) == new);
        if !self.is_reg(cur) || !nxt_ok {
            return self.bad("compare_exchange arguments", mc.span());
        }
        let (succ, fail) = (self.ord(succ)?, self.ord(fail)?);
        let (mut ok, mut err) = (false, false);
        for a in &m.arms {
            let bad_arm = || self.bad("loop `match` arm", a.span());
            let (ctor, inner) = match &a.pat {
                Pat::TupleStruct(t) if t.qself.is_none() && t.elems.len() == 1 && a.guard.is_none() && a.attrs.is_empty() => {
                    (t.path.get_ident().map(|i| i.to_string()), &t.elems[0])
                }
                _ => return bad_arm(),
            };
            match (ctor.as_deref(), inner, unbrace(&a.body)) {
                (Some("Ok"), Pat::Wild(_), Expr::Return(r)) if !ok && r.expr.as_ref().map_or(false, |e| self.ret(e).ok().as_deref() == Some(".done")) => {
                    ok = true
                }
                (Some("Err"), Pat::Ident(p), Expr::Assign(asg))
                    if !err
                        && p.by_ref.is_none()
                        && p.subpat.is_none()
                        && Some(p.ident.to_string()) != self.reg
                        && self.is_reg(&asg.left)
                        && ident_of(&asg.right) == Some(p.ident.to_string()) =>
                {
                    err = true
                }
                _ => return bad_arm(),
            }
        }
        if !(ok && err && m.arms.len() == 2) {
            return self.bad("loop `match` arms", m.span());
        }
        self.push(format!(".casLoop {weak} {bound} {succ} {fail}"), sp);
        self.news.clear();
        Ok(())
    }

    fn local(&mut self, l: &syn::Local) -> R<()> {
        let (p, init) = match (&l.pat, &l.init) {
            (Pat::Ident(p), Some(i)) if l.attrs.is_empty() && p.attrs.is_empty() && p.by_ref.is_none() && p.subpat.is_none() && i.diverge.is_none() => {
                (p, &*i.expr)
            }
            _ => return self.bad("`let`", l.span()),
        };
        let (name, is_mut) = (p.ident.to_string(), p.mutability.is_some());
        if let Some(mc) = self.atomic_call(init) {
            let op = self.read_op(mc)?;
            self.push(op, mc.span());
            self.unbind(&name);
            self.set_reg(Some(name));
            return Ok(());
        }
        if is_mut {
            return self.bad("`let mut`", l.span());
        }
        if matches!(last2(init), Some((o, _)) if o == "Ordering") {
            let o = self.ord(init)?;
            self.unbind(&name);
            self.ords.insert(name, o);
        } else if matches!(init, Expr::Reference(r) if r.attrs.is_empty() && r.mutability.is_none() && Self::is_self0(&r.expr)) {
            self.unbind(&name);
            self.alias = Some(name);
        } else if let Some((false, k)) = self.reg_offset(init).filter(|_| bin(init).is_some()) {
            self.unbind(&name);
            self.news.insert(name, k);
        } else {
            return self.bad("`let` initialiser", init.span());
        }
        Ok(())
    }

    /// A whole method body.
    fn body(mut self, b: &Block) -> R<Vec<Row>> {
        for (n, s) in b.stmts.iter().enumerate() {
            let last = n + 1 == b.stmts.len();
            if let Some((t, sp)) = self.simple(s)? {
                if !t.is_empty() {
                    self.push(format!(".simple ({t})"), sp);
                }
                continue;
            }
            match s {
                Stmt::Local(l) => self.local(l)?,
                Stmt::Expr(Expr::While(w), _) if w.attrs.is_empty() => self.cas_loop(w)?,
                Stmt::Expr(Expr::If(i), None) if last && i.attrs.is_empty() => {
                    self.branch(i)?;
                    return Ok(self.rows);
                }
                Stmt::Expr(Expr::If(i), _) if !last && i.attrs.is_empty() && i.else_branch.is_none() => {
                    self.guard(i)?
                }
                _ if last && self.tail(s).is_some() => {
                    let e = self.tail(s).unwrap();
                    // `A.load(ord) + k`: read and return in one expression
                    if let Some((l, BinOp::Add(_), r)) = bin(e) {
                        if let (Some(mc), Some(k)) = (self.atomic_call(l), int(r)) {
                            let op = self.read_op(mc)?;
                            self.push(op, mc.span());
                            self.set_reg(None);
                            self.push(format!(".ret (.oldPlus {k})"), e.span());
                            return Ok(self.rows);
                        }
                    }
                    let r = self.ret(e)?;
                    self.push(format!(".ret {r}"), e.span());
                    return Ok(self.rows);
                }
                _ => {
                    return self.bad(
                        "statement (known: `let x = A.load/fetch_*`, `let o = Ordering::X`, `fence(..);`, \
                         `A.store(<old> ± k | literal, ..);`, `A.fetch_sub/add(n, ..);`, the CAS `while` loop, \
                         `if <old> <cmp> c { …; return r; }`, a final `if … else …` or value)",
                        s.span(),
                    )
                }
            }
        }
        self.bad("body without a final value", b.span())
    }
}

/// `Self(AtomicUsize::new(<lit>))`
fn one(f: &SrcFile, b: &Block) -> R<(u64, String)> {
    let bad = |sp: Span| Err(format!("Gen/Atomics: unsupported body of `one` at {}", loc(f, sp)));
    let [Stmt::Expr(Expr::Call(c), None)] = &b.stmts[..] else { return bad(b.span()) };
    let inner = match (ident_of(&c.func).as_deref(), c.args.first(), c.args.len()) {
        (Some("Self"), Some(Expr::Call(i)), 1) if c.attrs.is_empty() && i.attrs.is_empty() => i,
        _ => return bad(c.span()),
    };
    match (last2(&inner.func), inner.args.first().and_then(int), inner.args.len()) {
        (Some((t, n)), Some(v), 1) if t == "AtomicUsize" && n == "new" => Ok((v, loc(f, c.span()))),
        _ => bad(c.span()),
    }
}

/// The trait default `fn is_unique(&self) -> bool { self.get() == 1 }` with `get` inlined.
fn default_is_unique(f: &SrcFile, get: &[Row]) -> R<(String, Vec<Row>)> {
    let err = |what: &str, sp: Span| Err(format!("Gen/Atomics: unsupported {what} at {}", loc(f, sp)));
    let traits: Vec<_> = f.ast.items.iter().filter_map(|i| match i {
        Item::Trait(t) if t.ident == "Kind" => Some(t),
        _ => None,
    }).collect();
    let [t] = &traits[..] else { return Err(format!("Gen/Atomics: expected exactly one `trait Kind` in {FILE}, found {}", traits.len())) };
    let fns: Vec<_> = t.items.iter().filter_map(|i| match i {
        TraitItem::Fn(m) if m.sig.ident == "is_unique" => Some(m),
        _ => None,
    }).collect();
    let [m] = &fns[..] else { return err("trait `Kind` (no unique `is_unique`)", t.trait_token.span) };
    let Some(b) = &m.default else { return err("`is_unique`: neither overridden nor defaulted", m.sig.fn_token.span) };
    let e = match &b.stmts[..] {
        [Stmt::Expr(e, None)] => e,
        _ => return err("default body of `is_unique`", b.span()),
    };
    let shape_ok = matches!(bin(e), Some((Expr::MethodCall(mc), BinOp::Eq(_), r))
        if mc.attrs.is_empty() && mc.turbofish.is_none() && mc.args.is_empty() && mc.method == "get"
            && ident_of(&mc.receiver).as_deref() == Some("self") && int(r) == Some(1));
    if !shape_ok {
        return err("default body of `is_unique`", e.span());
    }
    let k = get.split_last().and_then(|(l, init)| {
        let k: u64 = l.text.strip_prefix(".ret (.oldPlus ")?.strip_suffix(')')?.parse().ok()?;
        (k <= 1).then_some((k, init))
    });
    let Some((k, init)) = k else { return err("shape of `get` for the default `is_unique`", e.span()) };
    let mut rows: Vec<Row> = init.iter().map(|r| Row { text: r.text.clone(), loc: r.loc.clone() }).collect();
    rows.push(Row { text: format!(".branch .eq (.lit {}) [] (.bool true) [] (.bool false)", 1 - k), loc: loc(f, e.span()) });
    Ok((loc(f, m.sig.fn_token.span), rows))
}

fn is_kind_for_arc(im: &ItemImpl) -> bool {
    let tr = matches!(&im.trait_, Some((None, p, _)) if p.segments.last().map_or(false, |s| s.ident == "Kind"));
    tr && matches!(&*im.self_ty, syn::Type::Path(t) if t.qself.is_none() && t.path.is_ident("Arc"))
}

enum Def {
    One(u64, String),
    Steps(Vec<Row>),
}

pub fn generate(repo: &Repo) -> R<Vec<GenFile>> {
    let f = repo.file(FILE)?;
    let impls: Vec<&ItemImpl> = f.ast.items.iter().filter_map(|i| match i {
        Item::Impl(im) if is_kind_for_arc(im) => Some(im),
        _ => None,
    }).collect();
    let [im] = &impls[..] else { return Err(format!("Gen/Atomics: expected exactly one `impl Kind for Arc` in {FILE}, found {}", impls.len())) };

    // `Arc::get` first: `self.get()` may appear inside a `debug_assert!` of another method
    let get_ord: Option<String> = im.items.iter().find_map(|it| match it {
        ImplItem::Fn(m) if m.sig.ident == "get" => Cx::new(f).body(&m.block).ok().and_then(|rows| match &rows[..] {
            [l, r] if l.text.starts_with(".load ") && r.text.starts_with(".ret (.oldPlus ") => Some(l.text[6..].to_string()),
            _ => None,
        }),
        _ => None,
    });
    let mut debug_accesses: Vec<(String, String)> = vec![];
    // (rust name, doc text, fn location, definition), in source order
    let mut defs: Vec<(String, String, String, Def)> = vec![];
    let mut hooks: Vec<(String, String)> = vec![];
    for item in &im.items {
        let ImplItem::Fn(m) = item else { return Err(format!("Gen/Atomics: unsupported impl item at {}", loc(f, item.span()))) };
        let (name, at) = (m.sig.ident.to_string(), loc(f, m.sig.fn_token.span));
        let mut hook = false;
        for a in &m.attrs {
            let cfg_hook = a.path().is_ident("cfg") && a.meta.require_list().map_or(false, |l| l.tokens.to_string() == "hipstr_verif");
            hook |= cfg_hook;
            if !cfg_hook && !["inline", "doc", "allow", "must_use"].iter().any(|k| a.path().is_ident(k)) {
                return Err(format!("Gen/Atomics: unsupported attribute on `{name}` at {}", loc(f, a.span())));
            }
        }
        if defs.iter().any(|d| d.0 == name) || hooks.iter().any(|h| h.0 == name) {
            return Err(format!("Gen/Atomics: unsupported duplicate method `{name}` at {at}"));
        }
        if hook {
            hooks.push((name, at));
            continue;
        }
        let self_only = m.sig.inputs.len() == 1 && matches!(&m.sig.inputs[0], syn::FnArg::Receiver(r) if r.reference.is_some() && r.mutability.is_none());
        let def = match name.as_str() {
            "one" if m.sig.inputs.is_empty() => {
                let (v, at) = one(f, &m.block)?;
                Def::One(v, at)
            }
            "decr" | "incr" | "get" | "is_unique" if self_only => {
                let mut cx = Cx::new(f);
                cx.get_ord = get_ord.clone();
                let sites = cx.debug_sites.clone();
                let rows = cx.body(&m.block)?;
                let lean = if name == "is_unique" { "isUnique".to_string() } else { name.clone() };
                debug_accesses.extend(sites.borrow().iter().map(|l| (lean.clone(), l.clone())));
                Def::Steps(rows)
            }
            _ => return Err(format!("Gen/Atomics: unsupported method `{name}` at {at}")),
        };
        let doc = format!("`Arc::{name}` ({at})");
        defs.push((name, doc, at, def));
    }
    for need in ["one", "decr", "incr", "get"] {
        if !defs.iter().any(|d| d.0 == need) {
            return Err(format!("Gen/Atomics: unsupported impl: method `{need}` missing at {}", loc(f, im.impl_token.span)));
        }
    }
    if !defs.iter().any(|d| d.0 == "is_unique") {
        let get = defs.iter().find_map(|d| match (&d.0[..], &d.3) {
            ("get", Def::Steps(r)) => Some(r),
            _ => None,
        });
        let (at, rows) = default_is_unique(f, get.unwrap())?;
        let doc = format!("`Arc::is_unique` (not overridden: default of `trait Kind` at {at}, with `Arc::get` inlined)");
        defs.push(("is_unique".into(), doc, at, Def::Steps(rows)));
    }

    let mut o = String::from(HEADER);
    o += "import HipVerif.Model.AtomicsTy\n\n";
    o += &format!("/-! Atomic counter protocol: `impl Kind for Arc` at {}.\n", loc(f, im.impl_token.span));
    o += "One list of `AStep` per method, in source statement order; the trailing comment of every\n";
    o += "row is the source line it was read from. -/\n\n";
    o += "namespace HipVerif.Gen.Atomics\nopen HipVerif.Model\n\n";
    // rows: (text, trailing comment); `,` after every row but the last
    let table = |o: &mut String, rows: Vec<(String, String)>| {
        let n = rows.len();
        for (i, (text, comment)) in rows.into_iter().enumerate() {
            *o += &format!("  {text}{}{comment}\n", if i + 1 < n { "," } else { "" });
        }
        *o += "]\n\n";
    };
    for (name, doc, _, def) in &defs {
        match def {
            Def::One(v, at) => o += &format!("/-- {doc}: the value the counter is created with. -/\ndef one : Nat := {v}  -- {at}\n\n"),
            Def::Steps(rows) => {
                let lean = if name == "is_unique" { "isUnique" } else { name };
                o += &format!("/-- {doc}. -/\ndef {lean} : List AStep := [\n");
                table(&mut o, rows.iter().map(|r| (r.text.clone(), format!("  -- {}", r.loc))).collect());
            }
        }
    }
    o += "/-- The protocol description interpreted by `Model/Conc.lean`. -/\n";
    o += "def proto : Proto := { decr := decr, incr := incr, isUnique := isUnique, get := get }\n\n";
    o += "/-- Source location of every translated method. -/\ndef sources : List (String × String) := [\n";
    table(&mut o, defs.iter().map(|d| (format!("(\"{}\", \"{}\")", d.0, d.2), String::new())).collect());
    o += "/-- Methods of the impl that are `#[cfg(hipstr_verif)]` hooks and are not part of the protocol. -/\n";
    o += "def hooks : List (String × String) := [\n";
    table(&mut o, hooks.iter().map(|h| (format!("(\"{}\", \"{}\")", h.0, h.1), String::new())).collect());
    o += "/-- Source line of every row of the step lists above, per method, in row order. -/\n";
    o += "def rowSites : List (String × List String) := [\n";
    let site_rows: Vec<(String, String)> = defs
        .iter()
        .filter_map(|d| match &d.3 {
            Def::Steps(rows) => {
                let lean = if d.0 == "is_unique" { "isUnique" } else { d.0.as_str() };
                let locs: Vec<String> = rows.iter().map(|r| format!("\"{}\"", r.loc)).collect();
                Some((format!("(\"{lean}\", [{}])", locs.join(", ")), String::new()))
            }
            Def::One(..) => None,
        })
        .collect();
    table(&mut o, site_rows);
    o += "/-- `debug_assert!` statements that access the counter (compiled in debug builds only). -/\n";
    o += "def debugOnlyAccesses : List (String × String) := [\n";
    table(&mut o, debug_accesses.iter().map(|d| (format!("(\"{}\", \"{}\")", d.0, d.1), String::new())).collect());
    o += "end HipVerif.Gen.Atomics\n";
    Ok(vec![GenFile { name: "Atomics.lean".into(), content: o }])
}
