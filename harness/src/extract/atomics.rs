//! (stub) — not generated yet.
use super::{GenFile, Repo};

pub fn generate(_repo: &Repo) -> Result<Vec<GenFile>, String> {
    Ok(vec![])
}
