//! Generator of `Gen/CapAsserts.lean` (C13): the SHAPE of every capacity assert of `InlineVec`.
//!
//! The list model (`Model/Vecs.lean`) compares `len + n ≤ cap` on unbounded naturals; the code
//! computes on `usize`. That is faithful only if the check cannot wrap. For every
//! `assert!` / `debug_assert!` in `src/vecs/inline.rs` whose condition is `… <= CAP` or
//! `… <= CAP - …` this generator records
//!   * the shape: `wrappingSum` (`a + b <= CAP`, also through `let s = a + b; … s <= CAP`),
//!     `checkedSub` (`b <= CAP - a`), `direct` (`x <= CAP`, no addition);
//!   * where the added operand comes from: the length of a foreign slice / boxed slice / generic
//!     `MutVector` (`foreignUnbounded`), of another `InlineVec` (`foreignInline`, at most 255 by its
//!     length byte), a const-generic array length guarded by a const assert (`constArray`), a
//!     range already validated against `self.len()` (`selfRange`), a caller-supplied number or
//!     iterator hint (`scalar`).
//! `Props/C13Asserts.lean` proves that no assert with a caller-controlled unbounded operand has
//! the wrapping shape, hence that every check equals the model's check for all `usize` inputs.
//!
//! Fails closed on any condition mentioning `CAP` on the right of `<=` that it cannot classify.

use std::collections::BTreeMap;

use quote::ToTokens;
use syn::spanned::Spanned;

use super::autotraits::lean_string;
use super::repo::loc;
use super::{GenFile, Repo, HEADER};

#[derive(Clone, Copy, PartialEq, Eq, Debug)]
enum Src {
    ForeignUnbounded,
    ForeignInline,
    ConstArray,
    SelfRange,
    Scalar,
}

impl Src {
    fn lean(self) -> &'static str {
        match self {
            Src::ForeignUnbounded => ".foreignUnbounded",
            Src::ForeignInline => ".foreignInline",
            Src::ConstArray => ".constArray",
            Src::SelfRange => ".selfRange",
            Src::Scalar => ".scalar",
        }
    }
}

struct AssertArgs {
    cond: syn::Expr,
}
impl syn::parse::Parse for AssertArgs {
    fn parse(input: syn::parse::ParseStream) -> syn::Result<Self> {
        let cond: syn::Expr = input.parse()?;
        let _rest: proc_macro2::TokenStream = input.parse()?;
        Ok(AssertArgs { cond })
    }
}

fn text(t: &impl ToTokens) -> String {
    let s = t.to_token_stream().to_string();
    s.replace(" . ", ".").replace(" (", "(").replace("( ", "(").replace(" )", ")").replace(" ,", ",")
}

fn is_ident(e: &syn::Expr, name: &str) -> bool {
    matches!(e, syn::Expr::Path(p) if p.path.is_ident(name))
}

fn strip(e: &syn::Expr) -> &syn::Expr {
    match e {
        syn::Expr::Paren(p) => strip(&p.expr),
        syn::Expr::Group(g) => strip(&g.expr),
        _ => e,
    }
}

struct FnCtx<'a> {
    name: String,
    is_pub: bool,
    /// parameter name → provenance of its LENGTH
    params: BTreeMap<String, Src>,
    /// const generic parameters of the fn (`N`)
    const_generics: Vec<String>,
    lets: BTreeMap<String, &'a syn::Expr>,
}

impl<'a> FnCtx<'a> {
    /// Does the expression denote `self.len()`?
    fn is_self_len(&self, e: &syn::Expr, depth: usize) -> bool {
        let e = strip(e);
        match e {
            syn::Expr::MethodCall(m) => m.method == "len" && m.args.is_empty() && is_ident(strip(&m.receiver), "self"),
            syn::Expr::Path(p) if depth < 4 => match p.path.get_ident() {
                Some(id) => self.lets.get(&id.to_string()).map_or(false, |x| self.is_self_len(x, depth + 1)),
                None => false,
            },
            _ => false,
        }
    }

    /// Provenance of an operand.
    fn src_of(&self, e: &syn::Expr, depth: usize) -> Result<Src, String> {
        let e = strip(e);
        match e {
            syn::Expr::Path(p) => {
                let Some(id) = p.path.get_ident().map(|i| i.to_string()) else {
                    return Err(format!("operand `{}`", text(e)));
                };
                if self.const_generics.contains(&id) {
                    return Ok(Src::ConstArray);
                }
                if let Some(x) = self.lets.get(&id) {
                    if depth < 4 {
                        return self.src_of(x, depth + 1);
                    }
                }
                match self.params.get(&id) {
                    Some(Src::Scalar) => Ok(Src::Scalar),
                    _ => Err(format!("operand `{id}` is neither a local, a const generic nor a number")),
                }
            }
            syn::Expr::MethodCall(m) if m.method == "len" && m.args.is_empty() => {
                let r = strip(&m.receiver);
                let Some(id) = (match r {
                    syn::Expr::Path(p) => p.path.get_ident().map(|i| i.to_string()),
                    _ => None,
                }) else {
                    return Err(format!("operand `{}`", text(e)));
                };
                match self.params.get(&id) {
                    Some(Src::SelfRange) if !self.is_pub => Ok(Src::SelfRange),
                    Some(Src::SelfRange) => Err(format!("`{id}.len()` of a range in a public fn")),
                    Some(Src::Scalar) | None => Err(format!("`{id}.len()`: `{id}` is not a classified parameter")),
                    Some(s) => Ok(*s),
                }
            }
            // `iter.size_hint().0`
            syn::Expr::Field(f) => match strip(&f.base) {
                syn::Expr::MethodCall(m) if m.method == "size_hint" => Ok(Src::Scalar),
                _ => Err(format!("operand `{}`", text(e))),
            },
            _ => Err(format!("operand `{}`", text(e))),
        }
    }
}

fn param_src(ty: &syn::Type) -> Option<Src> {
    let t = ty.to_token_stream().to_string().replace(' ', "");
    if t == "usize" {
        Some(Src::Scalar)
    } else if t.starts_with("&[") || t.starts_with("&mut[") || t.starts_with("Box<[") {
        Some(Src::ForeignUnbounded)
    } else if t.contains("MutVector") {
        Some(Src::ForeignUnbounded)
    } else if t.contains("InlineVec<") {
        Some(Src::ForeignInline)
    } else if t.starts_with("Range<") {
        Some(Src::SelfRange)
    } else {
        None
    }
}

struct Row {
    func: String,
    loc: String,
    debug_only: bool,
    shape: &'static str,
    src: Src,
    operand: String,
    cond: String,
}

struct Walker<'a, 'f> {
    file: &'f super::repo::SrcFile,
    ctx: FnCtx<'a>,
    rows: Vec<Row>,
    err: Option<String>,
}

impl<'a, 'f> Walker<'a, 'f> {
    fn on_assert(&mut self, mac: &syn::Macro, debug_only: bool) {
        let Ok(args) = syn::parse2::<AssertArgs>(mac.tokens.clone()) else { return };
        let syn::Expr::Binary(b) = strip(&args.cond) else { return };
        if !matches!(b.op, syn::BinOp::Le(_)) {
            return;
        }
        let (lhs, rhs) = (strip(&b.left), strip(&b.right));
        let cond = text(&args.cond);
        let at = loc(self.file, mac.span());
        let fail = |w: &mut Self, why: String| {
            w.err.get_or_insert(format!("{at}: `{cond}` in `{}`: {why}", w.ctx.name));
        };
        // right-hand side: `CAP` or `CAP - y`
        let checked_sub = match rhs {
            _ if is_ident(rhs, "CAP") => None,
            syn::Expr::Binary(s) if matches!(s.op, syn::BinOp::Sub(_)) && is_ident(strip(&s.left), "CAP") => {
                Some(strip(&s.right))
            }
            _ => {
                if cond.contains("CAP") && !is_ident(lhs, "CAP") {
                    fail(self, "unrecognised right-hand side".into());
                }
                return;
            }
        };
        let (shape, operand): (&'static str, &syn::Expr) = if let Some(y) = checked_sub {
            if !self.ctx.is_self_len(y, 0) {
                fail(self, format!("`CAP - {}`: the subtrahend is not `self.len()`", text(y)));
                return;
            }
            ("checkedSub", lhs)
        } else {
            // `x <= CAP`: is x (possibly through a `let`) a sum?
            let mut x = lhs;
            let mut hops = 0;
            while let syn::Expr::Path(p) = x {
                let Some(id) = p.path.get_ident() else { break };
                match self.ctx.lets.get(&id.to_string()) {
                    Some(e) if hops < 4 => {
                        // stop at a let that is itself an operand source (`let len = boxed.len()`)
                        if matches!(strip(e), syn::Expr::Binary(_)) || matches!(strip(e), syn::Expr::Path(_)) {
                            x = strip(e);
                            hops += 1;
                        } else {
                            break;
                        }
                    }
                    _ => break,
                }
            }
            match x {
                syn::Expr::Binary(s) if matches!(s.op, syn::BinOp::Add(_)) => {
                    let (a, c) = (strip(&s.left), strip(&s.right));
                    if self.ctx.is_self_len(a, 0) {
                        ("wrappingSum", c)
                    } else if self.ctx.is_self_len(c, 0) {
                        ("wrappingSum", a)
                    } else {
                        fail(self, format!("sum `{}` without `self.len()`", text(x)));
                        return;
                    }
                }
                syn::Expr::Binary(_) => {
                    fail(self, format!("left-hand side `{}`", text(x)));
                    return;
                }
                _ => ("direct", lhs),
            }
        };
        if shape == "direct" && self.ctx.is_self_len(operand, 0) {
            // `len <= CAP` on the vector's own length: an invariant check, nothing is added
            self.rows.push(Row {
                func: self.ctx.name.clone(),
                loc: at,
                debug_only,
                shape,
                src: Src::SelfRange,
                operand: text(operand),
                cond,
            });
            return;
        }
        match self.ctx.src_of(operand, 0) {
            Ok(src) => self.rows.push(Row {
                func: self.ctx.name.clone(),
                loc: at,
                debug_only,
                shape,
                src,
                operand: text(operand),
                cond,
            }),
            Err(why) => fail(self, why),
        }
    }
}

impl<'a, 'f, 'ast: 'a> syn::visit::Visit<'ast> for Walker<'a, 'f> {
    fn visit_local(&mut self, l: &'ast syn::Local) {
        if let (syn::Pat::Ident(p), Some(init)) = (&l.pat, &l.init) {
            self.ctx.lets.insert(p.ident.to_string(), &init.expr);
        }
        syn::visit::visit_local(self, l);
    }
    fn visit_macro(&mut self, m: &'ast syn::Macro) {
        if m.path.is_ident("assert") {
            self.on_assert(m, false);
        } else if m.path.is_ident("debug_assert") {
            self.on_assert(m, true);
        }
    }
}

pub fn generate(repo: &Repo) -> Result<Vec<GenFile>, String> {
    let file = repo.file("src/vecs/inline.rs")?;
    let mut rows: Vec<Row> = vec![];
    let mut n_fns = 0usize;
    for item in &file.ast.items {
        let syn::Item::Impl(im) = item else { continue };
        if im.trait_.is_some() {
            continue;
        }
        let syn::Type::Path(tp) = &*im.self_ty else { continue };
        if tp.path.segments.last().map_or(true, |s| s.ident != "InlineVec") {
            continue;
        }
        for it in &im.items {
            let syn::ImplItem::Fn(f) = it else { continue };
            n_fns += 1;
            let mut params = BTreeMap::new();
            for a in &f.sig.inputs {
                if let syn::FnArg::Typed(pt) = a {
                    if let syn::Pat::Ident(pi) = &*pt.pat {
                        if let Some(s) = param_src(&pt.ty) {
                            params.insert(pi.ident.to_string(), s);
                        }
                    }
                }
            }
            let const_generics = f
                .sig
                .generics
                .params
                .iter()
                .filter_map(|g| match g {
                    syn::GenericParam::Const(c) => Some(c.ident.to_string()),
                    _ => None,
                })
                .collect();
            let mut w = Walker {
                file,
                ctx: FnCtx {
                    name: f.sig.ident.to_string(),
                    is_pub: matches!(f.vis, syn::Visibility::Public(_)),
                    params,
                    const_generics,
                    lets: BTreeMap::new(),
                },
                rows: vec![],
                err: None,
            };
            syn::visit::Visit::visit_block(&mut w, &f.block);
            if let Some(e) = w.err {
                return Err(format!("Gen/CapAsserts: {e}"));
            }
            rows.extend(w.rows);
        }
    }
    if n_fns < 30 || rows.len() < 8 {
        return Err(format!(
            "Gen/CapAsserts: {n_fns} InlineVec fns, {} capacity asserts — source shape changed?",
            rows.len()
        ));
    }
    let mut o = String::from(HEADER);
    o.push_str(
        "-- Shape of every capacity assert of InlineVec (src/vecs/inline.rs): see\n\
         -- harness/src/extract/capasserts.rs.\n\
         import HipVerif.Model.CapAssertsTy\n\n\
         namespace HipVerif.Gen.CapAsserts\n\
         open HipVerif.Model.CapAsserts\n\n\
         def capAsserts : List CapAssert := [\n",
    );
    for (i, r) in rows.iter().enumerate() {
        o.push_str(&format!(
            "  ⟨{}, {}, {}, .{}, {}, {}, {}⟩{}\n",
            lean_string(&r.func),
            lean_string(&r.loc),
            r.debug_only,
            r.shape,
            r.src.lean(),
            lean_string(&r.operand),
            lean_string(&r.cond),
            if i + 1 < rows.len() { "," } else { "" }
        ));
    }
    o.push_str("]\n\nend HipVerif.Gen.CapAsserts\n");
    Ok(vec![GenFile { name: "CapAsserts.lean".into(), content: o }])
}
