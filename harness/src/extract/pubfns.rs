//! Translator for `Gen/PubFns.lean` (property C17).
//!
//! Rows: every function a client crate can call — `pub fn` of publicly reachable modules,
//! `pub` inherent methods of public (or signature-leaked) types, methods declared by public
//! traits (and their supertraits), methods of trait impls on public types, and the `fn`s found
//! in `macro_rules!` bodies (token scan). Each row: qualified name, `unsafe`?, name ends in
//! `_unchecked`?, doc has a `# Safety` heading?, `file:line`, and a lifetime skeleton
//! (region of every reference/Hip/lifetime-parameterised input and output, elision resolved by
//! the language rules, declared outlives bounds).
//! Also: the list of sites that MANUFACTURE a lifetime (`transmute`, `from_raw_parts(_mut)`,
//! `&*p` / `&mut *p` in unsafe context, calls of `*_extended`) in every compiled non-test fn.
//! Fails closed on anything it does not recognise.

use std::collections::{BTreeMap, BTreeSet};

use syn::spanned::Spanned;
use syn::visit::Visit;

use super::autotraits::{
    cfg_active, generic_names, lean_string, vis_of, CrateModel, DefKind, Res, Vis,
};
use super::repo::{loc, SrcFile};
use super::{GenFile, Repo, HEADER};

#[path = "doors.rs"]
pub mod doors;

/// Definitions whose first lifetime parameter is the borrow region of a Hip value.
pub const HIP_DEFS: &[&str] = &[
    "bytes::raw::HipByt",
    "string::HipStr",
    "os_string::HipOsStr",
    "path::HipPath",
];

#[derive(Clone, Debug, PartialEq, Eq, PartialOrd, Ord)]
pub enum Region {
    Static,
    Named(String),
    /// n-th elided lifetime of the fn's inputs
    Elided(usize),
    /// n-th anonymous lifetime of the impl header (`'_` or hidden)
    Anon(usize),
    /// placeholder: elided lifetime in the output, resolved by the elision rules
    OutElided,
}

/// The kernel-friendly key of a string: its UTF-8 bytes read as a big-endian base-256 number
/// (`Model.PubFns.encKey`). String operations are prohibitively slow in Lean's kernel, so every
/// comparison the theorems make is on these numbers; the strings are kept for display.
pub fn key_of(s: &str) -> String {
    if s.is_empty() {
        return "0".into();
    }
    let mut o = String::from("0x");
    for b in s.bytes() {
        o.push_str(&format!("{b:02x}"));
    }
    o
}

impl Region {
    pub fn lean(&self) -> String {
        match self {
            Region::Static => ".static".into(),
            Region::Named(s) => format!(".named {} /- {} -/", key_of(s), s),
            Region::Elided(n) => format!(".elided {n}"),
            Region::Anon(n) => format!(".anon {n}"),
            Region::OutElided => unreachable!("unresolved output lifetime"),
        }
    }
}

#[derive(Clone, Debug)]
enum RTy {
    Ref(Region, Box<RTy>),
    Adt {
        hip: bool,
        lts: Vec<Region>,
        /// per lifetime argument: is it the region of a `&'p mut` field of the definition?
        mut_lts: Vec<bool>,
        args: Vec<RTy>,
    },
    Compound(Vec<RTy>),
    Param(String),
    Opaque(Vec<Region>),
    Leaf,
}

#[derive(Clone, Copy, PartialEq, Eq)]
enum Mode {
    ImplHeader,
    Input,
    Output,
}

/// Lifetime arity of the types of other crates that occur in signatures WITHOUT written
/// lifetime arguments (hidden elided lifetimes matter for the skeleton). Fail closed: a type
/// that is not listed is a translator error.
fn ext_lifetime_arity(full: &str) -> Option<usize> {
    const ZERO: &[&str] = &[
        "alloc::vec::Vec",
        "alloc::boxed::Box",
        "alloc::string::String",
        "alloc::string::FromUtf16Error",
        "alloc::string::FromUtf8Error",
        "alloc::borrow::ToOwned",
        "core::option::Option",
        "core::result::Result",
        "core::ops::Range",
        "core::ops::Bound",
        "core::cmp::Ordering",
        "core::str::Utf8Error",
        "alloc::str::Utf8Error",
        "core::fmt::Result",
        "core::fmt::Error",
        "core::mem::MaybeUninit",
        "core::mem::ManuallyDrop",
        "core::ptr::NonNull",
        "core::alloc::Layout",
        "core::marker::PhantomData",
        "core::convert::Infallible",
        "core::net::SocketAddr",
        "std::ffi::OsStr",
        "std::ffi::OsString",
        "std::path::Path",
        "std::path::PathBuf",
        "std::net::SocketAddr",
        "std::io::Result",
        "std::io::Error",
        "std::vec::IntoIter",
        "alloc::vec::IntoIter",
        "bstr::BStr",
        "bstr::BString",
        "borsh::io::Result",
        "borsh::io::Error",
        "core::ffi::c_int",
    ];
    const ONE: &[&str] = &[
        "alloc::borrow::Cow",
        "core::fmt::Formatter",
        "core::str::Lines",
        "core::str::SplitWhitespace",
        "core::str::SplitAsciiWhitespace",
        "core::str::Chars",
        "core::str::CharIndices",
        "core::str::Bytes",
        "core::slice::Iter",
        "core::slice::IterMut",
    ];
    if ZERO.contains(&full) {
        Some(0)
    } else if ONE.contains(&full) {
        Some(1)
    } else {
        None
    }
}

struct SigCx<'a, 'r> {
    cm: &'a CrateModel<'r>,
    module: usize,
    file: &'r SrcFile,
    type_params: BTreeSet<String>,
    self_ty: Option<RTy>,
    mode: Mode,
    counter: usize,
    /// lifetimes bound by an enclosing `for<'a>`
    hrtb: Vec<String>,
}

impl<'a, 'r> SigCx<'a, 'r> {
    fn err<T>(&self, span: proc_macro2::Span, msg: &str) -> Result<T, String> {
        Err(format!("{}: {msg}", loc(self.file, span)))
    }

    fn fresh(&mut self) -> Region {
        match self.mode {
            Mode::ImplHeader => {
                self.counter += 1;
                Region::Anon(self.counter - 1)
            }
            Mode::Input => {
                self.counter += 1;
                Region::Elided(self.counter - 1)
            }
            Mode::Output => Region::OutElided,
        }
    }

    fn lifetime(&mut self, l: &syn::Lifetime) -> Option<Region> {
        let n = l.ident.to_string();
        if n == "_" {
            Some(self.fresh())
        } else if n == "static" {
            Some(Region::Static)
        } else if self.hrtb.contains(&n) {
            None
        } else {
            Some(Region::Named(format!("'{n}")))
        }
    }

    /// Regions written in generic arguments / bounds of an opaque thing.
    fn regions_in_bounds(
        &mut self,
        bounds: &syn::punctuated::Punctuated<syn::TypeParamBound, syn::Token![+]>,
        out: &mut Vec<Region>,
        inner: &mut Vec<RTy>,
    ) -> Result<(), String> {
        for b in bounds {
            match b {
                syn::TypeParamBound::Lifetime(l) => {
                    if let Some(r) = self.lifetime(l) {
                        out.push(r)
                    }
                }
                syn::TypeParamBound::Trait(tb) => {
                    let pushed = if let Some(bl) = &tb.lifetimes {
                        let mut n = 0;
                        for p in &bl.lifetimes {
                            if let syn::GenericParam::Lifetime(lp) = p {
                                self.hrtb.push(lp.lifetime.ident.to_string());
                                n += 1;
                            }
                        }
                        n
                    } else {
                        0
                    };
                    for seg in &tb.path.segments {
                        match &seg.arguments {
                            syn::PathArguments::None => {}
                            // `Fn(A) -> B` sugar: lifetimes inside are higher-ranked, local
                            syn::PathArguments::Parenthesized(_) => {}
                            syn::PathArguments::AngleBracketed(ab) => {
                                for a in &ab.args {
                                    match a {
                                        syn::GenericArgument::Lifetime(l) => {
                                            if let Some(r) = self.lifetime(l) {
                                                out.push(r)
                                            }
                                        }
                                        syn::GenericArgument::Type(t) => inner.push(self.ty(t)?),
                                        syn::GenericArgument::AssocType(at) => {
                                            inner.push(self.ty(&at.ty)?)
                                        }
                                        syn::GenericArgument::Const(_) => {}
                                        syn::GenericArgument::Constraint(c) => {
                                            self.regions_in_bounds(&c.bounds, out, inner)?
                                        }
                                        _ => return self.err(a.span(), "unsupported generic argument"),
                                    }
                                }
                            }
                        }
                    }
                    for _ in 0..pushed {
                        self.hrtb.pop();
                    }
                }
                _ => return self.err(b.span(), "unsupported bound syntax"),
            }
        }
        Ok(())
    }

    fn ty(&mut self, t: &syn::Type) -> Result<RTy, String> {
        match t {
            syn::Type::Paren(p) => self.ty(&p.elem),
            syn::Type::Group(p) => self.ty(&p.elem),
            syn::Type::Reference(r) => {
                let region = match &r.lifetime {
                    Some(l) => self.lifetime(l).unwrap_or(Region::Static),
                    None => self.fresh(),
                };
                let inner = self.ty(&r.elem)?;
                Ok(RTy::Ref(region, Box::new(inner)))
            }
            syn::Type::Ptr(p) => Ok(RTy::Compound(vec![self.ty(&p.elem)?])),
            syn::Type::Slice(s) => Ok(RTy::Compound(vec![self.ty(&s.elem)?])),
            syn::Type::Array(a) => Ok(RTy::Compound(vec![self.ty(&a.elem)?])),
            syn::Type::Tuple(tu) => {
                let mut v = vec![];
                for e in &tu.elems {
                    v.push(self.ty(e)?);
                }
                Ok(if v.is_empty() { RTy::Leaf } else { RTy::Compound(v) })
            }
            syn::Type::Never(_) => Ok(RTy::Leaf),
            syn::Type::ImplTrait(it) => {
                let mut regs = vec![];
                let mut inner = vec![];
                self.regions_in_bounds(&it.bounds, &mut regs, &mut inner)?;
                let mut v = vec![RTy::Opaque(regs)];
                v.extend(inner);
                Ok(RTy::Compound(v))
            }
            syn::Type::TraitObject(to) => {
                let mut regs = vec![];
                let mut inner = vec![];
                self.regions_in_bounds(&to.bounds, &mut regs, &mut inner)?;
                let mut v = vec![RTy::Opaque(regs)];
                v.extend(inner);
                Ok(RTy::Compound(v))
            }
            syn::Type::Path(tp) => self.path_ty(tp),
            _ => self.err(t.span(), "unsupported type syntax in a signature"),
        }
    }

    fn generic_args(
        &mut self,
        args: &syn::PathArguments,
        lts: &mut Vec<Region>,
        tys: &mut Vec<RTy>,
    ) -> Result<(), String> {
        match args {
            syn::PathArguments::None => {}
            syn::PathArguments::Parenthesized(_) => {}
            syn::PathArguments::AngleBracketed(ab) => {
                for a in &ab.args {
                    match a {
                        syn::GenericArgument::Lifetime(l) => {
                            if let Some(r) = self.lifetime(l) {
                                lts.push(r)
                            }
                        }
                        syn::GenericArgument::Type(t) => {
                            // a bare upper-case identifier that does not resolve may be a const
                            // argument (`INLINE_CAPACITY`, `CAP`): tolerate those
                            match self.ty(t) {
                                Ok(x) => tys.push(x),
                                Err(e) => {
                                    let is_constish = matches!(t, syn::Type::Path(p)
                                        if p.path.get_ident().map_or(false, |i| {
                                            let s = i.to_string();
                                            s.chars().all(|c| c.is_ascii_uppercase() || c == '_' || c.is_ascii_digit())
                                        }));
                                    if !is_constish {
                                        return Err(e);
                                    }
                                }
                            }
                        }
                        syn::GenericArgument::AssocType(at) => tys.push(self.ty(&at.ty)?),
                        syn::GenericArgument::Const(_) => {}
                        _ => return self.err(a.span(), "unsupported generic argument"),
                    }
                }
            }
        }
        Ok(())
    }

    fn path_ty(&mut self, tp: &syn::TypePath) -> Result<RTy, String> {
        let p = &tp.path;
        let span = tp.span();
        // associated-type projections: `<T as Tr<'a>>::Out`, `P::Split<'_>`, `Self::Item`
        let first = p.segments[0].ident.to_string();
        let first_is_param =
            p.leading_colon.is_none() && (self.type_params.contains(&first) || first == "Self");
        if tp.qself.is_some() || (first_is_param && p.segments.len() > 1) {
            let mut regs = vec![];
            let mut inner = vec![];
            if let Some(q) = &tp.qself {
                inner.push(self.ty(&q.ty)?);
            }
            for seg in &p.segments {
                self.generic_args(&seg.arguments, &mut regs, &mut inner)?;
            }
            let mut v = vec![RTy::Opaque(regs)];
            v.extend(inner);
            return Ok(RTy::Compound(v));
        }
        if first_is_param && p.segments.len() == 1 {
            if first == "Self" {
                return match &self.self_ty {
                    Some(s) => Ok(s.clone()),
                    None => Ok(RTy::Param("Self".into())),
                };
            }
            return Ok(RTy::Param(first));
        }
        let (res, rest) = self
            .cm
            .resolve_syn(self.module, p)
            .map_err(|e| format!("{}: {e}", loc(self.file, span)))?;
        let mut lts = vec![];
        let mut args = vec![];
        for seg in &p.segments {
            self.generic_args(&seg.arguments, &mut lts, &mut args)?;
        }
        match res {
            Res::Prim(_) => Ok(RTy::Leaf),
            Res::External(path) => {
                let full = path.join("::");
                let arity = {
                    let mut found = ext_lifetime_arity(&full);
                    if let Some((first, r)) = full.split_once("::") {
                        if matches!(first, "std" | "alloc" | "core") {
                            for pre in ["core", "alloc", "std"] {
                                found = found.or(ext_lifetime_arity(&format!("{pre}::{r}")));
                            }
                        }
                    }
                    found
                };
                if lts.is_empty() {
                    match arity {
                        Some(n) => {
                            for _ in 0..n {
                                let r = self.fresh();
                                lts.push(r);
                            }
                        }
                        None => {
                            return self.err(
                                span,
                                &format!("lifetime arity of foreign type `{full}` unknown (add it to ext_lifetime_arity)"),
                            )
                        }
                    }
                }
                Ok(RTy::Adt {
                    hip: false,
                    mut_lts: vec![false; lts.len()],
                    lts,
                    args,
                })
            }
            Res::Def(d) => {
                if !rest.is_empty() {
                    return self.err(span, "path into a local item's associated items in a signature");
                }
                match &self.cm.defs[d].kind {
                    DefKind::Struct(_) | DefKind::Enum(_) | DefKind::Union(_) => {
                        let (_, n_lt, _) = generic_names(self.cm.generics_of(d).unwrap());
                        if lts.is_empty() {
                            for _ in 0..n_lt {
                                let r = self.fresh();
                                lts.push(r);
                            }
                        } else if lts.len() != n_lt {
                            return self.err(span, "lifetime argument count mismatch");
                        }
                        let hip = HIP_DEFS.contains(&self.cm.def_path(d).as_str());
                        let mut_lts = mut_borrow_params(self.cm, d)?;
                        Ok(RTy::Adt { hip, lts, mut_lts, args })
                    }
                    DefKind::Alias(a) => {
                        let (_, n_lt, _) = generic_names(&a.generics);
                        if n_lt != 0 {
                            // `crate::HipStr<'a>` style aliases: expand by hand
                            let dm = self.cm.defs[d].module;
                            let mut sub = SigCx {
                                cm: self.cm,
                                module: dm,
                                file: self.cm.modules[dm].file,
                                type_params: generic_names(&a.generics).0.into_iter().collect(),
                                self_ty: None,
                                mode: Mode::ImplHeader,
                                counter: 0,
                                hrtb: vec![],
                            };
                            let body = sub.ty(&a.ty)?;
                            if lts.is_empty() {
                                for _ in 0..n_lt {
                                    let r = self.fresh();
                                    lts.push(r);
                                }
                            }
                            // substitute the alias' named lifetimes positionally
                            let names: Vec<String> = a
                                .generics
                                .lifetimes()
                                .map(|l| format!("'{}", l.lifetime.ident))
                                .collect();
                            fn sub_r(t: &RTy, names: &[String], lts: &[Region]) -> RTy {
                                let r = |x: &Region| match x {
                                    Region::Named(n) => names
                                        .iter()
                                        .position(|m| m == n)
                                        .map_or(x.clone(), |i| lts[i].clone()),
                                    o => o.clone(),
                                };
                                match t {
                                    RTy::Ref(x, i) => RTy::Ref(r(x), Box::new(sub_r(i, names, lts))),
                                    RTy::Adt { hip, lts: l, mut_lts, args } => RTy::Adt {
                                        hip: *hip,
                                        mut_lts: mut_lts.clone(),
                                        lts: l.iter().map(&r).collect(),
                                        args: args.iter().map(|a| sub_r(a, names, lts)).collect(),
                                    },
                                    RTy::Compound(v) => {
                                        RTy::Compound(v.iter().map(|a| sub_r(a, names, lts)).collect())
                                    }
                                    RTy::Opaque(v) => RTy::Opaque(v.iter().map(&r).collect()),
                                    o => o.clone(),
                                }
                            }
                            if names.len() != lts.len() {
                                return self.err(span, "alias lifetime argument count mismatch");
                            }
                            return Ok(RTy::Compound(vec![sub_r(&body, &names, &lts), RTy::Compound(args)]));
                        }
                        let dm = self.cm.defs[d].module;
                        let mut sub = SigCx {
                            cm: self.cm,
                            module: dm,
                            file: self.cm.modules[dm].file,
                            type_params: generic_names(&a.generics).0.into_iter().collect(),
                            self_ty: None,
                            mode: self.mode,
                            counter: self.counter,
                            hrtb: vec![],
                        };
                        let body = sub.ty(&a.ty)?;
                        self.counter = sub.counter;
                        Ok(RTy::Compound(vec![body, RTy::Compound(args)]))
                    }
                    DefKind::Trait(_) => self.err(span, "bare trait used as a type"),
                    _ => self.err(span, "path does not name a type"),
                }
            }
        }
    }
}

/// For a local struct/enum/union: per lifetime parameter, does some field have the type
/// `&'p mut …` (at any depth of the field's type) with `'p` that parameter?
fn mut_borrow_params(cm: &CrateModel, d: usize) -> Result<Vec<bool>, String> {
    let g = cm.generics_of(d).ok_or("definition without generics")?;
    let names: Vec<String> = g.lifetimes().map(|l| l.lifetime.ident.to_string()).collect();
    let mut out = vec![false; names.len()];
    struct V<'a> {
        names: &'a [String],
        out: &'a mut Vec<bool>,
    }
    impl<'ast, 'a> Visit<'ast> for V<'a> {
        fn visit_type_reference(&mut self, r: &'ast syn::TypeReference) {
            if r.mutability.is_some() {
                if let Some(l) = &r.lifetime {
                    if let Some(i) = self.names.iter().position(|n| *n == l.ident.to_string()) {
                        self.out[i] = true;
                    }
                }
            }
            syn::visit::visit_type_reference(self, r);
        }
    }
    let mut v = V { names: &names, out: &mut out };
    match &cm.defs[d].kind {
        DefKind::Struct(s) => {
            for f in s.fields.iter() {
                if cfg_active(&f.attrs)? {
                    v.visit_type(&f.ty);
                }
            }
        }
        DefKind::Enum(e) => {
            for var in &e.variants {
                for f in var.fields.iter() {
                    if cfg_active(&f.attrs)? {
                        v.visit_type(&f.ty);
                    }
                }
            }
        }
        DefKind::Union(u) => {
            for f in u.fields.named.iter() {
                if cfg_active(&f.attrs)? {
                    v.visit_type(&f.ty);
                }
            }
        }
        _ => {}
    }
    Ok(out)
}

#[derive(Clone, Copy, PartialEq, Eq, Debug)]
pub enum Role {
    SelfRef,
    SelfHip,
    SelfOther,
    /// lifetime parameter of `Self` that is the region of a `&'p mut` field (`Drain<'a, V>`,
    /// the `RefMut` guards): from `&self`/`&mut self` nothing may be handed out at that region
    SelfMut,
    ArgRef,
    ArgHip,
    ArgOther,
}

impl Role {
    fn lean(self) -> &'static str {
        match self {
            Role::SelfRef => ".selfRef",
            Role::SelfHip => ".selfHip",
            Role::SelfOther => ".selfOther",
            Role::SelfMut => ".selfMut",
            Role::ArgRef => ".argRef",
            Role::ArgHip => ".argHip",
            Role::ArgOther => ".argOther",
        }
    }
}

#[derive(Clone, Copy, PartialEq, Eq, Debug)]
pub enum Pos {
    Ref,
    Hip,
    Other,
}

impl Pos {
    fn lean(self) -> &'static str {
        match self {
            Pos::Ref => ".ref",
            Pos::Hip => ".hip",
            Pos::Other => ".other",
        }
    }
}

fn walk_in(
    t: &RTy,
    is_self: bool,
    bounds: &BTreeMap<String, Vec<Region>>,
    out: &mut Vec<(Role, Region)>,
) {
    let (r_ref, r_hip, r_other) = if is_self {
        (Role::SelfOther, Role::SelfHip, Role::SelfOther)
    } else {
        (Role::ArgRef, Role::ArgHip, Role::ArgOther)
    };
    match t {
        RTy::Ref(r, i) => {
            out.push((r_ref, r.clone()));
            walk_in(i, is_self, bounds, out);
        }
        RTy::Adt { hip, lts, mut_lts, args } => {
            for (k, r) in lts.iter().enumerate() {
                let role = if *hip && k == 0 {
                    r_hip
                } else if is_self && mut_lts.get(k).copied().unwrap_or(false) {
                    Role::SelfMut
                } else {
                    r_other
                };
                out.push((role, r.clone()));
            }
            for a in args {
                walk_in(a, is_self, bounds, out);
            }
        }
        RTy::Compound(v) => {
            for a in v {
                walk_in(a, is_self, bounds, out);
            }
        }
        RTy::Param(p) => {
            if let Some(rs) = bounds.get(p) {
                for r in rs {
                    out.push((r_other, r.clone()));
                }
            }
        }
        RTy::Opaque(rs) => {
            for r in rs {
                out.push((r_other, r.clone()));
            }
        }
        RTy::Leaf => {}
    }
}

fn walk_out(t: &RTy, out: &mut Vec<(Pos, Region)>) {
    match t {
        RTy::Ref(r, i) => {
            out.push((Pos::Ref, r.clone()));
            walk_out(i, out);
        }
        RTy::Adt { hip, lts, args, .. } => {
            for (k, r) in lts.iter().enumerate() {
                out.push((if *hip && k == 0 { Pos::Hip } else { Pos::Other }, r.clone()));
            }
            for a in args {
                walk_out(a, out);
            }
        }
        RTy::Compound(v) => {
            for a in v {
                walk_out(a, out);
            }
        }
        RTy::Opaque(rs) => {
            for r in rs {
                out.push((Pos::Other, r.clone()));
            }
        }
        RTy::Param(_) | RTy::Leaf => {}
    }
}

fn syntactic_regions(t: &RTy, out: &mut BTreeSet<Region>) {
    match t {
        RTy::Ref(r, i) => {
            out.insert(r.clone());
            syntactic_regions(i, out);
        }
        RTy::Adt { lts, args, .. } => {
            out.extend(lts.iter().cloned());
            for a in args {
                syntactic_regions(a, out);
            }
        }
        RTy::Compound(v) => {
            for a in v {
                syntactic_regions(a, out);
            }
        }
        RTy::Opaque(rs) => out.extend(rs.iter().cloned()),
        RTy::Param(_) | RTy::Leaf => {}
    }
}

/// Named lifetimes mentioned by the bounds of type parameters, and declared outlives pairs.
fn scan_generics(
    g: &syn::Generics,
    bounds: &mut BTreeMap<String, Vec<Region>>,
    outlives: &mut Vec<(Region, Region)>,
) {
    struct LV {
        found: Vec<Region>,
        skip: Vec<String>,
    }
    impl<'ast> Visit<'ast> for LV {
        fn visit_lifetime(&mut self, l: &'ast syn::Lifetime) {
            let n = l.ident.to_string();
            if n == "_" || self.skip.contains(&n) {
                return;
            }
            self.found.push(if n == "static" {
                Region::Static
            } else {
                Region::Named(format!("'{n}"))
            });
        }
        fn visit_bound_lifetimes(&mut self, b: &'ast syn::BoundLifetimes) {
            for p in &b.lifetimes {
                if let syn::GenericParam::Lifetime(lp) = p {
                    self.skip.push(lp.lifetime.ident.to_string());
                }
            }
        }
        fn visit_parenthesized_generic_arguments(&mut self, _: &'ast syn::ParenthesizedGenericArguments) {}
    }
    let reg = |l: &syn::Lifetime| {
        let n = l.ident.to_string();
        if n == "static" {
            Region::Static
        } else {
            Region::Named(format!("'{n}"))
        }
    };
    for p in &g.params {
        match p {
            syn::GenericParam::Type(t) => {
                let mut v = LV { found: vec![], skip: vec![] };
                for b in &t.bounds {
                    v.visit_type_param_bound(b);
                }
                bounds.entry(t.ident.to_string()).or_default().extend(v.found);
            }
            syn::GenericParam::Lifetime(l) => {
                for b in &l.bounds {
                    outlives.push((reg(&l.lifetime), reg(b)));
                }
            }
            syn::GenericParam::Const(_) => {}
        }
    }
    if let Some(wc) = &g.where_clause {
        for pred in &wc.predicates {
            match pred {
                syn::WherePredicate::Lifetime(pl) => {
                    for b in &pl.bounds {
                        outlives.push((reg(&pl.lifetime), reg(b)));
                    }
                }
                syn::WherePredicate::Type(pt) => {
                    let mut v = LV { found: vec![], skip: vec![] };
                    if let Some(bl) = &pt.lifetimes {
                        v.visit_bound_lifetimes(bl);
                    }
                    for b in &pt.bounds {
                        v.visit_type_param_bound(b);
                    }
                    // key: the leading identifier of the bounded type (`S::Item: …` → `S`)
                    let key = match &pt.bounded_ty {
                        syn::Type::Path(tp) => tp.path.segments.first().map(|s| s.ident.to_string()),
                        _ => None,
                    };
                    if let Some(k) = key {
                        bounds.entry(k).or_default().extend(v.found);
                    }
                }
                _ => {}
            }
        }
    }
}

/// Is `e` built from the fn's own parameters / `self` only (paths, `&`, `*`, field access,
/// casts)? `uses_param` is set when a non-`self` parameter occurs.
fn passthrough(e: &syn::Expr, params: &[String], uses_param: &mut bool) -> bool {
    match e {
        syn::Expr::Paren(p) => passthrough(&p.expr, params, uses_param),
        syn::Expr::Group(p) => passthrough(&p.expr, params, uses_param),
        syn::Expr::Reference(r) => passthrough(&r.expr, params, uses_param),
        syn::Expr::Unary(u) => matches!(u.op, syn::UnOp::Deref(_)) && passthrough(&u.expr, params, uses_param),
        syn::Expr::Field(f) => passthrough(&f.base, params, uses_param),
        syn::Expr::Cast(c) => passthrough(&c.expr, params, uses_param),
        syn::Expr::Path(p) => match p.path.get_ident() {
            Some(id) => {
                let n = id.to_string();
                if n == "self" {
                    true
                } else if params.contains(&n) {
                    *uses_param = true;
                    true
                } else {
                    false
                }
            }
            None => false,
        },
        _ => false,
    }
}

/// PURE FORWARDER analysis. `Some(callee)` when the body's only statement / tail expression is —
/// possibly inside `unsafe { }`, which a safe fn needs to reach an unsafe callee — a single call
/// or method call in unsafe context (an `unsafe` block, or anywhere in an `unsafe fn`) whose
/// receiver and arguments are the fn's own parameters passed through unvalidated, at least one
/// of them a parameter other than `self` (a fn that forwards only `self` relies on the type's
/// invariant, not on its caller). Such a fn trusts its caller exactly as much as the callee
/// does, so it must be `unsafe` itself.
pub fn forwarder_of(sig: &syn::Signature, block: &syn::Block) -> Option<String> {
    let mut params = vec![];
    for a in &sig.inputs {
        if let syn::FnArg::Typed(pt) = a {
            if let syn::Pat::Ident(pi) = &*pt.pat {
                params.push(pi.ident.to_string());
            }
        }
    }
    if block.stmts.len() != 1 {
        return None;
    }
    let mut e: &syn::Expr = match &block.stmts[0] {
        syn::Stmt::Expr(e, _) => e,
        _ => return None,
    };
    let mut in_unsafe = sig.unsafety.is_some();
    loop {
        match e {
            syn::Expr::Unsafe(u) if u.block.stmts.len() == 1 => match &u.block.stmts[0] {
                syn::Stmt::Expr(inner, _) => {
                    in_unsafe = true;
                    e = inner;
                }
                _ => return None,
            },
            syn::Expr::Block(b) if b.label.is_none() && b.block.stmts.len() == 1 => match &b.block.stmts[0] {
                syn::Stmt::Expr(inner, _) => e = inner,
                _ => return None,
            },
            syn::Expr::Paren(p) => e = &p.expr,
            syn::Expr::Group(p) => e = &p.expr,
            _ => break,
        }
    }
    if !in_unsafe {
        return None;
    }
    let mut uses_param = false;
    match e {
        syn::Expr::Call(c) => {
            let syn::Expr::Path(fp) = &*c.func else { return None };
            for a in &c.args {
                if !passthrough(a, &params, &mut uses_param) {
                    return None;
                }
            }
            if !uses_param {
                return None;
            }
            Some(norm_tokens(&fp.path))
        }
        syn::Expr::MethodCall(m) => {
            let mut recv_uses = false;
            if !passthrough(&m.receiver, &params, &mut recv_uses) {
                return None;
            }
            for a in &m.args {
                if !passthrough(a, &params, &mut uses_param) {
                    return None;
                }
            }
            if !uses_param {
                return None;
            }
            Some(format!("{}.{}", norm_tokens(&*m.receiver), m.method))
        }
        _ => None,
    }
}

/// Raw-copy primitives: a call of one of these duplicates the bits of its source.
const RAW_COPY: &[&str] = &[
    "copy_nonoverlapping", "copy", "copy_from", "copy_to", "copy_from_nonoverlapping",
    "copy_to_nonoverlapping", "read", "read_unaligned", "read_volatile", "assume_init_read",
    "transmute_copy",
];

/// (owner, fn) → the raw-copy primitive its body uses, directly or through fns of the same
/// owner that it calls as `self.f(..)` / `Self::f(..)` (`"g → copy_from_nonoverlapping"`).
/// Every fn with a body of the compiled source is indexed, whatever its visibility.
pub fn raw_copy_index(cm: &CrateModel) -> Result<BTreeMap<(String, String), String>, String> {
    struct V {
        prim: Option<String>,
        callees: Vec<String>,
        free_callees: Vec<String>,
    }
    impl<'ast> Visit<'ast> for V {
        fn visit_item(&mut self, _: &'ast syn::Item) {}
        fn visit_expr_method_call(&mut self, m: &'ast syn::ExprMethodCall) {
            let n = m.method.to_string();
            // `.read()` / `.copy()` only count without / with the pointer-style arity
            let is_prim = match n.as_str() {
                "read" | "read_unaligned" | "read_volatile" | "assume_init_read" => m.args.is_empty(),
                "copy" => false, // `InlineVec::copy` itself is a crate fn, not the primitive
                other => RAW_COPY.contains(&other) && !m.args.is_empty(),
            };
            if is_prim && self.prim.is_none() {
                self.prim = Some(n.clone());
            }
            // any receiver: `this.extend_from_slice_copy_unchecked(..)` on a local of type `Self`
            // counts (resolved by name within the same owner only)
            self.callees.push(n);
            syn::visit::visit_expr_method_call(self, m);
        }
        fn visit_expr_call(&mut self, c: &'ast syn::ExprCall) {
            if let syn::Expr::Path(fp) = &*c.func {
                let segs: Vec<String> = fp.path.segments.iter().map(|s| s.ident.to_string()).collect();
                let last = segs.last().cloned().unwrap_or_default();
                if segs.len() >= 2 && segs[0] == "Self" {
                    self.callees.push(last.clone());
                } else if segs.len() == 1 && matches!(last.as_str(), "copy_nonoverlapping" | "transmute_copy") {
                    if self.prim.is_none() {
                        self.prim = Some(last.clone());
                    }
                } else if segs.len() == 1 || segs[0] == "crate" || segs[0] == "common" || segs[0] == "super" {
                    // a free fn of the crate (resolved by name among the free fns)
                    self.free_callees.push(last.clone());
                } else if RAW_COPY.contains(&last.as_str())
                    && segs.len() >= 2
                    && matches!(segs[segs.len() - 2].as_str(), "ptr" | "mem" | "intrinsics")
                    && self.prim.is_none()
                {
                    self.prim = Some(segs[segs.len() - 2..].join("::"));
                }
            }
            syn::visit::visit_expr_call(self, c);
        }
        fn visit_macro(&mut self, m: &'ast syn::Macro) {
            let t = m.tokens.to_string();
            for p in ["copy_nonoverlapping", "assume_init_read", "transmute_copy"] {
                if t.contains(p) && self.prim.is_none() {
                    self.prim = Some(format!("{p} (in macro)"));
                }
            }
        }
    }
    let mut direct: BTreeMap<(String, String), String> = BTreeMap::new();
    let mut calls: BTreeMap<(String, String), Vec<String>> = BTreeMap::new();
    let mut free_calls: BTreeMap<(String, String), Vec<String>> = BTreeMap::new();
    let mut free_fns: BTreeMap<String, Vec<String>> = BTreeMap::new(); // name -> module owners
    for (mi, module) in cm.modules.iter().enumerate() {
        let mprefix = module.path.join("::");
        for it in &module.items {
            let mut one = |owner: String, sig: &syn::Signature, block: &syn::Block| {
                let mut v = V { prim: None, callees: vec![], free_callees: vec![] };
                v.visit_block(block);
                let k = (owner, sig.ident.to_string());
                if let Some(p) = v.prim {
                    direct.insert(k.clone(), p);
                }
                calls.entry(k.clone()).or_default().extend(v.callees);
                free_calls.entry(k).or_default().extend(v.free_callees);
            };
            match it {
                syn::Item::Fn(f) => {
                    free_fns.entry(f.sig.ident.to_string()).or_default().push(mprefix.clone());
                    one(mprefix.clone(), &f.sig, &f.block)
                }
                syn::Item::Impl(im) => {
                    let owner = match impl_self_adt(cm, mi, im) {
                        Some(d) => cm.def_path(d),
                        None => norm_tokens(&*im.self_ty),
                    };
                    for ii in &im.items {
                        if let syn::ImplItem::Fn(f) = ii {
                            if cfg_active(&f.attrs)? {
                                one(owner.clone(), &f.sig, &f.block);
                            }
                        }
                    }
                }
                _ => {}
            }
        }
    }
    let mut all = direct.clone();
    loop {
        let mut add = vec![];
        for ((o, f), cs) in &calls {
            if all.contains_key(&(o.clone(), f.clone())) {
                continue;
            }
            let mut found = None;
            for g in cs {
                if g == f {
                    continue;
                }
                if let Some(p) = all.get(&(o.clone(), g.clone())) {
                    found = Some((g.clone(), p.clone()));
                    break;
                }
            }
            if found.is_none() {
                for g in free_calls.get(&(o.clone(), f.clone())).into_iter().flatten() {
                    for fo in free_fns.get(g).into_iter().flatten() {
                        if let Some(p) = all.get(&(fo.clone(), g.clone())) {
                            found = Some((g.clone(), p.clone()));
                        }
                    }
                }
            }
            if let Some((g, p)) = found {
                let base = p.rsplit(" → ").next().unwrap_or(&p).to_string();
                add.push(((o.clone(), f.clone()), format!("{g} → {base}")));
            }
        }
        if add.is_empty() {
            break;
        }
        all.extend(add);
    }
    Ok(all)
}

/// Does the type mention the identifier by value (not behind a reference / raw pointer)?
fn mentions_by_value(t: &syn::Type, names: &[String]) -> bool {
    match t {
        syn::Type::Paren(p) => mentions_by_value(&p.elem, names),
        syn::Type::Group(p) => mentions_by_value(&p.elem, names),
        syn::Type::Reference(_) | syn::Type::Ptr(_) => false,
        syn::Type::Slice(s) => mentions_by_value(&s.elem, names),
        syn::Type::Array(a) => mentions_by_value(&a.elem, names),
        syn::Type::Tuple(tu) => tu.elems.iter().any(|e| mentions_by_value(e, names)),
        syn::Type::Path(tp) => {
            tp.path.segments.iter().any(|s| {
                names.contains(&s.ident.to_string())
                    || match &s.arguments {
                        syn::PathArguments::AngleBracketed(ab) => ab.args.iter().any(|a| match a {
                            syn::GenericArgument::Type(x) => mentions_by_value(x, names),
                            _ => false,
                        }),
                        _ => false,
                    }
            })
        }
        _ => false,
    }
}

/// Does the type mention the identifier anywhere?
fn mentions(t: &syn::Type, names: &[String]) -> bool {
    use quote::ToTokens;
    t.to_token_stream().into_iter().any(|tt| match tt {
        proc_macro2::TokenTree::Ident(i) => names.contains(&i.to_string()),
        proc_macro2::TokenTree::Group(g) => g.stream().into_iter().any(|x| matches!(x, proc_macro2::TokenTree::Ident(i) if names.contains(&i.to_string()))),
        _ => false,
    })
}

/// Bounds in force for a fn: inline bounds and where-clauses of the given generics.
fn bounds_in_force(gs: &[&syn::Generics]) -> Vec<(String, String)> {
    let mut out: Vec<(String, String)> = vec![];
    let mut push = |who: String, bs: &syn::punctuated::Punctuated<syn::TypeParamBound, syn::Token![+]>| {
        for b in bs {
            let what = match b {
                syn::TypeParamBound::Trait(tb) => {
                    let p = norm_tokens(&tb.path);
                    // marker-ish traits by their last segment; others with their arguments
                    let last = tb.path.segments.last().map(|s| s.ident.to_string()).unwrap_or_default();
                    let q = if matches!(tb.modifier, syn::TraitBoundModifier::Maybe(_)) { "?" } else { "" };
                    if tb.path.segments.last().map_or(true, |s| s.arguments.is_none()) {
                        format!("{q}{last}")
                    } else {
                        format!("{q}{p}")
                    }
                }
                syn::TypeParamBound::Lifetime(l) => format!("'{}", l.ident),
                _ => continue,
            };
            let e = (who.clone(), what);
            if !out.contains(&e) {
                out.push(e);
            }
        }
    };
    for g in gs {
        for p in &g.params {
            if let syn::GenericParam::Type(t) = p {
                push(t.ident.to_string(), &t.bounds);
            }
        }
        if let Some(wc) = &g.where_clause {
            for pred in &wc.predicates {
                if let syn::WherePredicate::Type(pt) = pred {
                    push(norm_tokens(&pt.bounded_ty), &pt.bounds);
                }
            }
        }
    }
    out
}

pub struct FnRow {
    /// bounds in force: (bounded type, bound) pairs of the fn and of its impl/trait block
    pub bounds: Vec<(String, String)>,
    /// the element type parameter: first type argument of the self type when it is a parameter
    pub elem_param: Option<String>,
    /// `Some(primitive)`: the body (or a same-type fn it calls) duplicates bits with a raw copy
    pub dup_bits: Option<String>,
    /// `&self`, or a parameter that is a shared reference to something mentioning the element type
    pub shared_src: bool,
    /// returns `Self` / the element type by value, or takes `&mut self`
    pub produces_owned: bool,
    /// for rows that must require `T: Copy`: the call instantiated at `String` and at `u8`
    pub copy_probe: Option<Result<(ProbeCall, ProbeCall), String>>,
    /// `Some(callee)`: the body is a pure forwarder to `callee` in unsafe context
    pub forwards: Option<String>,
    pub name: String,
    pub simple: String,
    pub kind: &'static str,
    pub is_unsafe: bool,
    pub name_unchecked: bool,
    pub has_safety_doc: bool,
    pub ins: Vec<(Role, Region)>,
    pub outs: Vec<(Pos, Region)>,
    pub outlives: Vec<(Region, Region)>,
    pub loc: String,
    /// For rows that must be `unsafe`: a client-side call (see `probe`), or why none exists.
    pub probe: Result<ProbeCall, String>,
    /// For safe methods taking `&self`/`&mut self` whose result carries a region: a client
    /// program that lets the result outlive a LOCAL receiver (every other lifetime is `'static`),
    /// and the skeleton's prediction of rustc's verdict. `None` = not applicable.
    pub self_escape: Option<Result<SelfEscape, String>>,
    /// C06 "doors" row: the fn's return type mentions HipStr / HipOsStr / HipPath
    pub door: Option<doors::Door>,
}

#[derive(Clone, Debug)]
pub struct SelfEscape {
    pub generics: String,
    /// type of the local receiver
    pub recv_ty: String,
    pub recv_mut: bool,
    /// `<T>::f` / `<T as Trait>::f`
    pub callee: String,
    /// the arguments after the receiver
    pub args: Vec<String>,
    /// the skeleton ties an output region to the `&self` borrow ⇒ rustc must reject
    pub predicted_reject: bool,
    /// PROPERTY-level expectation, independent of the regions the translator computed: the
    /// result contains a reference, or the receiver type holds a `&'p mut` borrow — such a
    /// result must not outlive the receiver unless the row is a reviewed exception
    pub must_not_outlive_receiver: bool,
}

#[derive(Clone, Debug)]
pub struct ProbeCall {
    /// generic parameter list of the probing fn (`<SelfTy: hipstr::…::MutVector>` or empty)
    pub generics: String,
    /// the call expression, NOT wrapped in `unsafe`
    pub call: String,
}

/// The enclosing impl/trait of a method.
struct Owner<'a> {
    /// row-name prefix (`string::HipStr`, `<string::HipStr as From<&str>>`)
    prefix: String,
    kind: &'static str,
    generics: Vec<&'a syn::Generics>,
    self_ty: Option<RTy>,
    self_syn: Option<&'a syn::Type>,
    /// trait path for trait decl / trait impl probes
    trait_path: Option<syn::Path>,
    is_trait_decl: bool,
    anon_count: usize,
    /// `type X = …;` items of the impl (to read `Self::X` in return types)
    assoc: Vec<(String, syn::Type)>,
    /// key of this owner in `dups`, and the raw-copy index
    owner_key: String,
    dups: &'a BTreeMap<(String, String), String>,
}

fn has_safety_heading(attrs: &[syn::Attribute]) -> bool {
    for a in attrs {
        if a.path().is_ident("doc") {
            if let syn::Meta::NameValue(nv) = &a.meta {
                if let syn::Expr::Lit(syn::ExprLit {
                    lit: syn::Lit::Str(s),
                    ..
                }) = &nv.value
                {
                    for line in s.value().lines() {
                        let t = line.trim_start();
                        if t.starts_with('#') && t.trim_start_matches('#').trim() == "Safety" {
                            return true;
                        }
                    }
                }
            }
        }
    }
    false
}

/// `norm_tokens` for sibling extractors.
pub fn norm_tokens_pub(t: &impl quote::ToTokens) -> String {
    norm_tokens(t)
}

fn norm_tokens(t: &impl quote::ToTokens) -> String {
    let s = t.to_token_stream().to_string();
    // proc-macro2 prints tokens separated by single spaces: tighten the common cases
    s.replace(" :: ", "::")
        .replace(":: ", "::")
        .replace(" ::", "::")
        .replace(" < ", "<")
        .replace("< ", "<")
        .replace(" <", "<")
        .replace(" >", ">")
        .replace("& ", "&")
        .replace(" ,", ",")
        .replace("' ", "'")
}

// ---------------------------------------------------------------------------------------------
// lifetime skeleton of one signature
// ---------------------------------------------------------------------------------------------

struct Skeleton {
    self_ref: Option<Region>,
    ins: Vec<(Role, Region)>,
    outs: Vec<(Pos, Region)>,
    outlives: Vec<(Region, Region)>,
}

fn skeleton(
    cm: &CrateModel,
    module: usize,
    file: &SrcFile,
    owner: &Owner,
    sig: &syn::Signature,
) -> Result<Skeleton, String> {
    let mut bounds: BTreeMap<String, Vec<Region>> = BTreeMap::new();
    let mut outlives = vec![];
    let mut type_params: BTreeSet<String> = BTreeSet::new();
    for g in owner.generics.iter().copied().chain(std::iter::once(&sig.generics)) {
        scan_generics(g, &mut bounds, &mut outlives);
        type_params.extend(generic_names(g).0);
    }
    let mut cx = SigCx {
        cm,
        module,
        file,
        type_params,
        self_ty: owner.self_ty.clone(),
        mode: Mode::Input,
        counter: 0,
        hrtb: vec![],
    };
    let mut ins: Vec<(Role, Region)> = vec![];
    let mut syntactic: BTreeSet<Region> = BTreeSet::new();
    let mut self_ref_region: Option<Region> = None;
    for arg in &sig.inputs {
        match arg {
            syn::FnArg::Receiver(r) => {
                if r.colon_token.is_some() {
                    // `self: T` — treat the written type as the receiver
                    let t = cx.ty(&r.ty)?;
                    if let RTy::Ref(reg, _) = &t {
                        self_ref_region = Some(reg.clone());
                        ins.push((Role::SelfRef, reg.clone()));
                        syntactic.insert(reg.clone());
                    }
                    let inner = match &t {
                        RTy::Ref(_, i) => (**i).clone(),
                        o => o.clone(),
                    };
                    walk_in(&inner, true, &bounds, &mut ins);
                } else {
                    if let Some((_, lt)) = &r.reference {
                        let reg = match lt {
                            Some(l) => cx.lifetime(l).unwrap_or(Region::Static),
                            None => cx.fresh(),
                        };
                        self_ref_region = Some(reg.clone());
                        syntactic.insert(reg.clone());
                        ins.push((Role::SelfRef, reg));
                    }
                    match &owner.self_ty {
                        Some(s) => walk_in(s, true, &bounds, &mut ins),
                        None => walk_in(&RTy::Param("Self".into()), true, &bounds, &mut ins),
                    }
                }
            }
            syn::FnArg::Typed(pt) => {
                let t = cx.ty(&pt.ty)?;
                syntactic_regions(&t, &mut syntactic);
                walk_in(&t, false, &bounds, &mut ins);
            }
        }
    }
    let mut outs = vec![];
    if let syn::ReturnType::Type(_, t) = &sig.output {
        cx.mode = Mode::Output;
        let rt = cx.ty(t)?;
        walk_out(&rt, &mut outs);
    }
    if outs.iter().any(|(_, r)| *r == Region::OutElided) {
        let chosen = if let Some(r) = &self_ref_region {
            r.clone()
        } else if syntactic.len() == 1 {
            syntactic.iter().next().unwrap().clone()
        } else {
            return Err(format!(
                "{}: cannot resolve the elided output lifetime of `{}` ({} candidate input lifetimes)",
                loc(file, sig.ident.span()),
                sig.ident,
                syntactic.len()
            ));
        };
        for o in &mut outs {
            if o.1 == Region::OutElided {
                o.1 = chosen.clone();
            }
        }
    }
    // dedup, keep order
    let mut seen = vec![];
    ins.retain(|x| {
        if seen.contains(x) {
            false
        } else {
            seen.push(x.clone());
            true
        }
    });
    let mut seen_o = vec![];
    outs.retain(|x| {
        if seen_o.contains(x) {
            false
        } else {
            seen_o.push(x.clone());
            true
        }
    });
    Ok(Skeleton {
        self_ref: self_ref_region,
        ins,
        outs,
        outlives,
    })
}

// ---------------------------------------------------------------------------------------------
// client-side probe calls for rows that must be `unsafe`
// ---------------------------------------------------------------------------------------------

struct ProbeCx<'a, 'r> {
    cm: &'a CrateModel<'r>,
    module: usize,
    /// substitution of generic identifiers (types and consts)
    subst: BTreeMap<String, String>,
    self_str: Option<String>,
}

fn bound_names(bs: &syn::punctuated::Punctuated<syn::TypeParamBound, syn::Token![+]>) -> Vec<String> {
    bs.iter()
        .filter_map(|b| match b {
            syn::TypeParamBound::Trait(t) => Some(norm_tokens(&t.path)),
            _ => None,
        })
        .collect()
}

/// A concrete type for a generic parameter / `impl Trait` with the given bounds.
fn witness_for(bounds: &[String]) -> Result<String, String> {
    let has = |s: &str| bounds.iter().any(|b| b == s || b.ends_with(&format!("::{s}")));
    if has("Backend") {
        return Ok("::hipstr::Arc".into());
    }
    if has("RangeBounds<usize>") {
        return Ok("::core::ops::RangeFull".into());
    }
    if has("Pattern") || has("ReversePattern") || has("DoubleEndedPattern") {
        return Ok("char".into());
    }
    if has("MutVector") || has("Vector") {
        return Ok("::hipstr::vecs::ThinVec<u8>".into());
    }
    if has("AsRef<OsStr>") || has("AsRef<Path>") || has("AsRef<str>") {
        return Ok("&'static str".into());
    }
    if has("AsRef<[u8]>") {
        return Ok("&'static [u8]".into());
    }
    for b in bounds {
        let simple = b.rsplit("::").next().unwrap_or(b);
        if !matches!(
            simple,
            "Clone" | "Copy" | "Default" | "Sized" | "PartialEq" | "Eq" | "PartialOrd" | "Ord" | "Debug" | "Hash"
        ) {
            return Err(format!("no witness type for a parameter bounded by `{b}`"));
        }
    }
    Ok("u8".into())
}

impl<'a, 'r> ProbeCx<'a, 'r> {
    fn add_generics(&mut self, g: &syn::Generics) -> Result<(), String> {
        let mut bounds: BTreeMap<String, Vec<String>> = BTreeMap::new();
        for p in &g.params {
            match p {
                syn::GenericParam::Type(t) => {
                    bounds.entry(t.ident.to_string()).or_default().extend(bound_names(&t.bounds));
                }
                syn::GenericParam::Const(c) => {
                    let ty = norm_tokens(&c.ty);
                    let v = match ty.as_str() {
                        "usize" => "7",
                        "u8" => "1",
                        other => return Err(format!("no witness for a const parameter of type `{other}`")),
                    };
                    self.subst.insert(c.ident.to_string(), v.to_string());
                }
                syn::GenericParam::Lifetime(_) => {}
            }
        }
        if let Some(wc) = &g.where_clause {
            for pred in &wc.predicates {
                if let syn::WherePredicate::Type(pt) = pred {
                    if let syn::Type::Path(tp) = &pt.bounded_ty {
                        if let Some(id) = tp.path.get_ident() {
                            bounds.entry(id.to_string()).or_default().extend(bound_names(&pt.bounds));
                        }
                    }
                }
            }
        }
        for (name, bs) in bounds {
            self.subst.insert(name, witness_for(&bs)?);
        }
        Ok(())
    }

    fn path_prefix(&self, p: &syn::Path) -> Result<String, String> {
        let (res, rest) = self.cm.resolve_syn(self.module, p)?;
        if !rest.is_empty() {
            return Err(format!("cannot print path `{}`", norm_tokens(p)));
        }
        match res {
            Res::Prim(n) => Ok(n),
            Res::External(path) => Ok(format!("::{}", path.join("::"))),
            Res::Def(d) => match &self.cm.defs[d].public_path {
                Some(pp) => Ok(format!("::hipstr::{}", pp.join("::"))),
                None => Err(format!("`{}` has no public path", self.cm.def_path(d))),
            },
        }
    }

    fn args(&self, a: &syn::PathArguments) -> Result<String, String> {
        match a {
            syn::PathArguments::None => Ok(String::new()),
            syn::PathArguments::Parenthesized(_) => Err("Fn-sugar in a probe type".into()),
            syn::PathArguments::AngleBracketed(ab) => {
                let mut v = vec![];
                for x in &ab.args {
                    match x {
                        syn::GenericArgument::Lifetime(_) => v.push("'static".to_string()),
                        syn::GenericArgument::Type(t) => {
                            // const arguments parse as type paths: substitute when known
                            if let syn::Type::Path(tp) = t {
                                if let Some(id) = tp.path.get_ident() {
                                    if let Some(s) = self.subst.get(&id.to_string()) {
                                        v.push(s.clone());
                                        continue;
                                    }
                                }
                            }
                            v.push(self.ty(t)?)
                        }
                        syn::GenericArgument::Const(e) => v.push(format!("{{ {} }}", norm_tokens(e))),
                        _ => return Err("unsupported generic argument in a probe type".into()),
                    }
                }
                Ok(format!("<{}>", v.join(", ")))
            }
        }
    }

    fn ty(&self, t: &syn::Type) -> Result<String, String> {
        match t {
            syn::Type::Paren(p) => self.ty(&p.elem),
            syn::Type::Group(p) => self.ty(&p.elem),
            syn::Type::Reference(r) => Ok(format!(
                "&'static {}{}",
                if r.mutability.is_some() { "mut " } else { "" },
                self.ty(&r.elem)?
            )),
            syn::Type::Ptr(p) => Ok(format!(
                "*{} {}",
                if p.mutability.is_some() { "mut" } else { "const" },
                self.ty(&p.elem)?
            )),
            syn::Type::Slice(s) => Ok(format!("[{}]", self.ty(&s.elem)?)),
            syn::Type::Array(a) => {
                let len = norm_tokens(&a.len);
                let len = self.subst.get(&len).cloned().unwrap_or(len);
                Ok(format!("[{}; {}]", self.ty(&a.elem)?, len))
            }
            syn::Type::Tuple(tu) => {
                let v: Result<Vec<_>, _> = tu.elems.iter().map(|e| self.ty(e)).collect();
                let v = v?;
                Ok(if v.len() == 1 {
                    format!("({},)", v[0])
                } else {
                    format!("({})", v.join(", "))
                })
            }
            syn::Type::ImplTrait(it) => witness_for(&bound_names(&it.bounds)),
            syn::Type::Path(tp) => {
                if tp.qself.is_some() {
                    return Err("qualified path in a probe type".into());
                }
                let p = &tp.path;
                if let Some(id) = p.get_ident() {
                    let s = id.to_string();
                    if s == "Self" {
                        return self.self_str.clone().ok_or_else(|| "Self without a self type".to_string());
                    }
                    if let Some(w) = self.subst.get(&s) {
                        return Ok(w.clone());
                    }
                }
                let first = p.segments[0].ident.to_string();
                if p.segments.len() > 1 && (first == "Self" || self.subst.contains_key(&first)) {
                    return Err(format!("associated type `{}` in a probe type", norm_tokens(p)));
                }
                let mut bare = p.clone();
                for s in bare.segments.iter_mut() {
                    s.arguments = syn::PathArguments::None;
                }
                let prefix = self.path_prefix(&bare)?;
                let args = self.args(&p.segments.last().unwrap().arguments)?;
                Ok(format!("{prefix}{args}"))
            }
            _ => Err("unsupported type syntax in a probe type".into()),
        }
    }
}

fn make_probe(
    cm: &CrateModel,
    module: usize,
    owner: &Owner,
    sig: &syn::Signature,
) -> Result<ProbeCall, String> {
    make_probe_with(cm, module, owner, sig, &BTreeMap::new())
}

/// Same, with some generic parameters instantiated as given (`T` → `String`).
fn make_probe_with(
    cm: &CrateModel,
    module: usize,
    owner: &Owner,
    sig: &syn::Signature,
    overrides: &BTreeMap<String, String>,
) -> Result<ProbeCall, String> {
    let (generics, callee, _recv, args) = probe_parts_with(cm, module, owner, sig, overrides)?;
    Ok(ProbeCall {
        generics,
        call: format!("{callee}({})", args.join(", ")),
    })
}

/// (generics of the probing fn, callee path, receiver type if any, `any::<T>()` per argument
/// — the receiver included, first)
fn probe_parts(
    cm: &CrateModel,
    module: usize,
    owner: &Owner,
    sig: &syn::Signature,
) -> Result<(String, String, Option<String>, Vec<String>), String> {
    probe_parts_with(cm, module, owner, sig, &BTreeMap::new())
}

fn probe_parts_with(
    cm: &CrateModel,
    module: usize,
    owner: &Owner,
    sig: &syn::Signature,
    overrides: &BTreeMap<String, String>,
) -> Result<(String, String, Option<String>, Vec<String>), String> {
    let mut pc = ProbeCx {
        cm,
        module,
        subst: BTreeMap::new(),
        self_str: None,
    };
    for g in &owner.generics {
        pc.add_generics(g)?;
    }
    pc.add_generics(&sig.generics)?;
    for (k, v) in overrides {
        pc.subst.insert(k.clone(), v.clone());
    }
    let mut generics = String::new();
    let callee: String;
    if owner.is_trait_decl {
        let tp = owner.trait_path.as_ref().ok_or("trait decl without a usable path (generic trait)")?;
        let tpath = pc.path_prefix(tp)?;
        generics = format!("<SelfTy: {tpath} + 'static>");
        pc.self_str = Some("SelfTy".into());
        callee = format!("<SelfTy as {tpath}>::{}", sig.ident);
    } else if let Some(st) = owner.self_syn {
        let s = pc.ty(st)?;
        pc.self_str = Some(s.clone());
        callee = match &owner.trait_path {
            Some(tp) => {
                let mut bare = tp.clone();
                let last_args = bare.segments.last().unwrap().arguments.clone();
                for sgm in bare.segments.iter_mut() {
                    sgm.arguments = syn::PathArguments::None;
                }
                format!("<{s} as {}{}>::{}", pc.path_prefix(&bare)?, pc.args(&last_args)?, sig.ident)
            }
            None => format!("<{s}>::{}", sig.ident),
        };
    } else {
        // free function: `hipstr::path::to::f`
        let here = &cm.modules[module];
        let pp = here
            .public_path
            .clone()
            .ok_or_else(|| "free fn in a module without a public path".to_string())?;
        let mut p = vec!["::hipstr".to_string()];
        p.extend(pp);
        p.push(sig.ident.to_string());
        callee = p.join("::");
    }
    let mut args = vec![];
    for a in &sig.inputs {
        match a {
            syn::FnArg::Receiver(r) => {
                let s = pc.self_str.clone().ok_or("receiver without a self type")?;
                if r.colon_token.is_some() {
                    args.push(format!("any::<{}>()", pc.ty(&r.ty)?));
                } else if r.reference.is_some() {
                    args.push(format!(
                        "any::<&'static {}{s}>()",
                        if r.mutability.is_some() { "mut " } else { "" }
                    ));
                } else {
                    args.push(format!("any::<{s}>()"));
                }
            }
            syn::FnArg::Typed(pt) => args.push(format!("any::<{}>()", pc.ty(&pt.ty)?)),
        }
    }
    Ok((generics, callee, pc.self_str.clone(), args))
}

// ---------------------------------------------------------------------------------------------
// which functions can a client call?
// ---------------------------------------------------------------------------------------------

/// Local ADTs named by a signature (for the "leaked through a public signature" closure).
fn adts_in_sig(cm: &CrateModel, module: usize, sig: &syn::Signature, out: &mut BTreeSet<usize>) {
    struct V<'a, 'r> {
        cm: &'a CrateModel<'r>,
        module: usize,
        out: &'a mut BTreeSet<usize>,
    }
    impl<'ast, 'a, 'r> Visit<'ast> for V<'a, 'r> {
        fn visit_type_path(&mut self, tp: &'ast syn::TypePath) {
            if tp.qself.is_none() {
                let mut bare = tp.path.clone();
                for s in bare.segments.iter_mut() {
                    s.arguments = syn::PathArguments::None;
                }
                if let Ok((Res::Def(d), rest)) = self.cm.resolve_syn(self.module, &bare) {
                    if rest.is_empty() && self.cm.is_adt(d) && self.cm.defs[d].vis == Vis::Pub {
                        self.out.insert(d);
                    }
                }
            }
            syn::visit::visit_type_path(self, tp);
        }
    }
    let mut v = V { cm, module, out };
    v.visit_signature(sig);
}

fn impl_self_adt(cm: &CrateModel, module: usize, im: &syn::ItemImpl) -> Option<usize> {
    if let syn::Type::Path(tp) = &*im.self_ty {
        if tp.qself.is_none() {
            let mut bare = tp.path.clone();
            for s in bare.segments.iter_mut() {
                s.arguments = syn::PathArguments::None;
            }
            if let Ok((Res::Def(d), rest)) = cm.resolve_syn(module, &bare) {
                if rest.is_empty() && cm.is_adt(d) {
                    return Some(d);
                }
            }
        }
    }
    None
}

fn bare_path(p: &syn::Path) -> syn::Path {
    let mut bare = p.clone();
    for s in bare.segments.iter_mut() {
        s.arguments = syn::PathArguments::None;
    }
    bare
}

pub struct Collected {
    pub rows: Vec<FnRow>,
    pub sites: Vec<Site>,
}

fn make_row(
    cm: &CrateModel,
    module: usize,
    file: &SrcFile,
    owner: &Owner,
    sig: &syn::Signature,
    attrs: &[syn::Attribute],
    body: Option<&syn::Block>,
) -> Result<FnRow, String> {
    let sk = skeleton(cm, module, file, owner, sig)?;
    let forwards = body.and_then(|b| forwarder_of(sig, b));
    let simple = sig.ident.to_string();
    let mut gs: Vec<&syn::Generics> = owner.generics.clone();
    gs.push(&sig.generics);
    let bounds = bounds_in_force(&gs);
    // element type parameter: first type argument of the self type, when it is a parameter
    let impl_tys: Vec<String> = owner.generics.iter().flat_map(|g| generic_names(g).0).collect();
    let elem_param = owner.self_syn.and_then(|st| match st {
        syn::Type::Path(tp) => tp.path.segments.last().and_then(|seg| match &seg.arguments {
            syn::PathArguments::AngleBracketed(ab) => ab.args.iter().find_map(|a| match a {
                syn::GenericArgument::Type(syn::Type::Path(p)) => p.path.get_ident().map(|i| i.to_string()),
                _ => None,
            }),
            _ => None,
        }),
        _ => None,
    })
    .filter(|n| impl_tys.contains(n) && owner.owner_key.starts_with("vecs::"));
    let dup_bits = owner.dups.get(&(owner.owner_key.clone(), simple.clone())).cloned();
    let self_names: Vec<String> = {
        let mut v = vec!["Self".to_string()];
        v.extend(elem_param.iter().cloned());
        if let Some(syn::Type::Path(tp)) = owner.self_syn {
            if let Some(seg) = tp.path.segments.last() {
                v.push(seg.ident.to_string());
            }
        }
        v
    };
    let shared_src = sig.inputs.iter().any(|a| match a {
        syn::FnArg::Receiver(r) => r.colon_token.is_none() && r.reference.is_some() && r.mutability.is_none(),
        syn::FnArg::Typed(pt) => {
            matches!(&*pt.ty, syn::Type::Reference(r) if r.mutability.is_none() && mentions(&r.elem, &self_names))
        }
    });
    let produces_owned = matches!(sig.inputs.first(), Some(syn::FnArg::Receiver(r)) if r.reference.is_some() && r.mutability.is_some())
        || matches!(&sig.output, syn::ReturnType::Type(_, t) if mentions_by_value(t, &self_names));
    let is_unsafe = sig.unsafety.is_some();
    let name_unchecked = simple.ends_with("_unchecked");
    let has_safety_doc = has_safety_heading(attrs);
    let probe = if is_unsafe || name_unchecked || has_safety_doc || forwards.is_some() || owner.is_trait_decl {
        make_probe(cm, module, owner, sig)
    } else {
        Err("not needed".into())
    };
    let ref_receiver = matches!(sig.inputs.first(), Some(syn::FnArg::Receiver(r)) if r.reference.is_some() && r.colon_token.is_none());
    let self_escape = if !is_unsafe
        && ref_receiver
        && !sk.outs.is_empty()
        && (owner.kind == ".inherent" || owner.kind == ".traitImpl")
    {
        Some(probe_parts(cm, module, owner, sig).and_then(|(generics, callee, recv, args)| {
            if !["<::hipstr", "<&", "<::core", "<::alloc", "<::std"].iter().any(|p| callee.starts_with(p))
                || callee.contains("::borsh::")
                || callee.contains("::bstr::")
            {
                return Err(format!("callee `{callee}` needs crates the probe workspace does not depend on"));
            }
            if callee.contains(" as ::serde") || callee.contains(" as ::borsh") || callee.contains(" as ::bstr") {
                return Err(format!("callee `{callee}` is a method of a foreign-crate trait"));
            }
            let recv_ty = recv.ok_or("no receiver type")?;
            let recv_mut = matches!(sig.inputs.first(), Some(syn::FnArg::Receiver(r)) if r.mutability.is_some());
            let predicted_reject = match &sk.self_ref {
                Some(r) => sk.outs.iter().any(|(_, o)| o == r),
                None => false,
            };
            Ok(SelfEscape {
                generics,
                recv_ty,
                recv_mut,
                callee,
                args: args[1..].to_vec(),
                predicted_reject,
                must_not_outlive_receiver: sk.outs.iter().any(|(p, _)| *p == Pos::Ref)
                    || sk.ins.iter().any(|(r, _)| *r == Role::SelfMut),
            })
        }))
    } else {
        None
    };
    // rows that must require `T: Copy` (Rust-side mirror of `Model.PubFns.needsCopy`): the name rule
    // (`copy` / `*_copy*` under `vecs::`) or the body rule
    let name_says_copy = owner.owner_key.starts_with("vecs::") && (simple == "copy" || simple.contains("_copy"));
    let copy_probe = match &elem_param {
        Some(t) if name_says_copy || (dup_bits.is_some() && shared_src && produces_owned) => {
            let at = |w: &str| {
                let mut o = BTreeMap::new();
                o.insert(t.clone(), w.to_string());
                make_probe_with(cm, module, owner, sig, &o)
            };
            Some(at("::alloc::string::String").and_then(|a| at("u8").map(|b| (a, b))))
        }
        _ => None,
    };
    let door = doors::classify(cm, module, owner, sig, || make_probe(cm, module, owner, sig));
    Ok(FnRow {
        bounds,
        elem_param,
        dup_bits,
        shared_src,
        produces_owned,
        copy_probe,
        door,
        forwards,
        self_escape,
        name: if owner.prefix.is_empty() {
            simple.clone()
        } else {
            format!("{}::{}", owner.prefix, simple)
        },
        simple,
        kind: owner.kind,
        is_unsafe,
        name_unchecked,
        has_safety_doc,
        ins: sk.ins,
        outs: sk.outs,
        outlives: sk.outlives,
        loc: loc(file, sig.ident.span()),
        probe,
    })
}

/// `fn` definitions inside a `macro_rules!` body (token scan; no signature available).
fn macro_rows(prefix: &str, file: &SrcFile, ts: proc_macro2::TokenStream, rows: &mut Vec<FnRow>) {
    use proc_macro2::TokenTree as TT;
    let toks: Vec<TT> = ts.into_iter().collect();
    for (i, t) in toks.iter().enumerate() {
        if let TT::Group(g) = t {
            macro_rows(prefix, file, g.stream(), rows);
        }
        let TT::Ident(id) = t else { continue };
        if id != "fn" {
            continue;
        }
        let Some(TT::Ident(name)) = toks.get(i + 1) else {
            continue;
        };
        // look back over qualifiers and attributes
        let mut is_unsafe = false;
        let mut safety = false;
        let mut j = i;
        while j > 0 {
            j -= 1;
            match &toks[j] {
                TT::Ident(q) if q == "unsafe" => is_unsafe = true,
                TT::Ident(q) if q == "pub" || q == "const" || q == "async" || q == "extern" => {}
                TT::Literal(_) => {} // extern "C"
                TT::Group(g) if g.delimiter() == proc_macro2::Delimiter::Parenthesis => {} // pub(crate)
                TT::Group(g) if g.delimiter() == proc_macro2::Delimiter::Bracket => {
                    // attribute body: `doc = "…"`
                    let s = g.stream().to_string();
                    if s.starts_with("doc") && s.contains("# Safety") {
                        safety = true;
                    }
                    if j > 0 {
                        if let TT::Punct(p) = &toks[j - 1] {
                            if p.as_char() == '#' {
                                j -= 1;
                                continue;
                            }
                        }
                    }
                    break;
                }
                _ => break,
            }
        }
        let simple = name.to_string();
        let line = name.span().start().line;
        // the fn item's own tokens: `fn name … { body }` up to the first brace group; analysable
        // when they parse as a method (no `$metavariable` inside)
        let mut item = proc_macro2::TokenStream::new();
        if is_unsafe {
            item.extend(std::iter::once(TT::Ident(proc_macro2::Ident::new("unsafe", name.span()))));
        }
        for t in &toks[i..] {
            item.extend(std::iter::once(t.clone()));
            if matches!(t, TT::Group(g) if g.delimiter() == proc_macro2::Delimiter::Brace) {
                break;
            }
        }
        let forwards = syn::parse2::<syn::ImplItemFn>(item)
            .ok()
            .and_then(|f| forwarder_of(&f.sig, &f.block));
        rows.push(FnRow {
            forwards,
            name: format!("{prefix}@{line}::{simple}"),
            name_unchecked: simple.ends_with("_unchecked"),
            simple,
            kind: ".macroBody",
            is_unsafe,
            has_safety_doc: safety,
            ins: vec![],
            outs: vec![],
            outlives: vec![],
            loc: format!("{}:{}", file.rel, line),
            probe: Err("defined in a macro body (covered by the probe of the trait method it implements)".into()),
            self_escape: None,
            door: None,
            bounds: vec![],
            elem_param: None,
            dup_bits: None,
            shared_src: false,
            produces_owned: false,
            copy_probe: None,
        });
    }
}

pub fn collect(cm: &CrateModel) -> Result<Collected, String> {
    let dups = raw_copy_index(cm)?;
    // ---- public traits (+ supertraits: their methods are callable on `T: PubTrait`) ----
    let mut pub_traits: BTreeSet<usize> = BTreeSet::new();
    for (d, def) in cm.defs.iter().enumerate() {
        if matches!(def.kind, DefKind::Trait(_)) && def.public_path.is_some() {
            pub_traits.insert(d);
        }
    }
    loop {
        let mut add = vec![];
        for &d in &pub_traits {
            if let DefKind::Trait(t) = &cm.defs[d].kind {
                for b in &t.supertraits {
                    if let syn::TypeParamBound::Trait(tb) = b {
                        if let Ok((Res::Def(s), _)) = cm.resolve_syn(cm.defs[d].module, &bare_path(&tb.path)) {
                            if matches!(cm.defs[s].kind, DefKind::Trait(_)) && !pub_traits.contains(&s) {
                                add.push(s);
                            }
                        }
                    }
                }
            }
        }
        if add.is_empty() {
            break;
        }
        pub_traits.extend(add);
    }
    // ---- callable ADTs: nameable ones, then those leaked through callable signatures ----
    let mut adts: BTreeSet<usize> = BTreeSet::new();
    for (d, def) in cm.defs.iter().enumerate() {
        if cm.is_adt(d) && def.public_path.is_some() {
            adts.insert(d);
        }
    }
    let trait_callable = |cm: &CrateModel, mi: usize, im: &syn::ItemImpl, pub_traits: &BTreeSet<usize>| -> Result<Option<bool>, String> {
        // None = inherent; Some(true) = callable trait impl; Some(false) = private trait
        match &im.trait_ {
            None => Ok(None),
            Some((_, tp, _)) => match cm.resolve_syn(mi, &bare_path(tp))? {
                (Res::External(_), _) => Ok(Some(true)),
                (Res::Def(t), _) => Ok(Some(pub_traits.contains(&t))),
                (Res::Prim(_), _) => Err("trait path resolves to a primitive".into()),
            },
        }
    };
    loop {
        let mut found: BTreeSet<usize> = BTreeSet::new();
        for (mi, module) in cm.modules.iter().enumerate() {
            for it in &module.items {
                match it {
                    syn::Item::Impl(im) => {
                        let Some(d) = impl_self_adt(cm, mi, im) else { continue };
                        if !adts.contains(&d) {
                            continue;
                        }
                        let tc = trait_callable(cm, mi, im, &pub_traits)
                            .map_err(|e| format!("{}: {e}", loc(module.file, im.span())))?;
                        if tc == Some(false) {
                            continue;
                        }
                        for ii in &im.items {
                            if let syn::ImplItem::Fn(f) = ii {
                                if !cfg_active(&f.attrs)? {
                                    continue;
                                }
                                if tc.is_none() && vis_of(&f.vis) != Vis::Pub {
                                    continue;
                                }
                                adts_in_sig(cm, mi, &f.sig, &mut found);
                            }
                        }
                    }
                    syn::Item::Fn(f) => {
                        if vis_of(&f.vis) == Vis::Pub && module.public_path.is_some() {
                            adts_in_sig(cm, mi, &f.sig, &mut found);
                        }
                    }
                    _ => {}
                }
            }
        }
        let before = adts.len();
        adts.extend(found);
        if adts.len() == before {
            break;
        }
    }

    let mut rows: Vec<FnRow> = vec![];
    let mut macro_defs: BTreeSet<String> = BTreeSet::new();
    for module in &cm.modules {
        for it in &module.items {
            if let syn::Item::Macro(m) = it {
                if let Some(id) = &m.ident {
                    macro_defs.insert(id.to_string());
                }
            }
        }
    }
    for (mi, module) in cm.modules.iter().enumerate() {
        let file = module.file;
        let mprefix = module.path.join("::");
        for it in &module.items {
            match it {
                syn::Item::Fn(f) => {
                    let d = module
                        .defs
                        .iter()
                        .copied()
                        .find(|&d| matches!(cm.defs[d].kind, DefKind::Fn(g) if std::ptr::eq(g, f)));
                    let public = d.map_or(false, |d| cm.defs[d].public_path.is_some());
                    if !public {
                        continue;
                    }
                    let owner = Owner {
                        prefix: mprefix.clone(),
                        kind: ".free",
                        generics: vec![],
                        self_ty: None,
                        self_syn: None,
                        trait_path: None,
                        is_trait_decl: false,
                        anon_count: 0,
                        assoc: vec![],
                        owner_key: mprefix.clone(),
                        dups: &dups,
                    };
                    rows.push(make_row(cm, mi, file, &owner, &f.sig, &f.attrs, Some(&f.block))?);
                }
                syn::Item::Trait(t) => {
                    let d = module
                        .defs
                        .iter()
                        .copied()
                        .find(|&d| matches!(cm.defs[d].kind, DefKind::Trait(g) if std::ptr::eq(g, t)))
                        .ok_or("trait without a definition entry")?;
                    if !pub_traits.contains(&d) {
                        continue;
                    }
                    // the trait's own path, as a syn::Path relative to this module
                    let tpath: syn::Path = syn::parse_str(&format!("self::{}", t.ident)).unwrap();
                    let owner = Owner {
                        prefix: cm.def_path(d),
                        kind: ".traitDecl",
                        generics: vec![&t.generics],
                        self_ty: None,
                        self_syn: None,
                        trait_path: if t.generics.params.is_empty() { Some(tpath) } else { None },
                        is_trait_decl: true,
                        anon_count: 0,
                        assoc: vec![],
                        owner_key: cm.def_path(d),
                        dups: &dups,
                    };
                    for ti in &t.items {
                        if let syn::TraitItem::Fn(f) = ti {
                            if cfg_active(&f.attrs)? {
                                rows.push(make_row(cm, mi, file, &owner, &f.sig, &f.attrs, f.default.as_ref())?);
                            }
                        }
                    }
                }
                syn::Item::Impl(im) => {
                    let local = impl_self_adt(cm, mi, im);
                    if let Some(d) = local {
                        if !adts.contains(&d) {
                            continue;
                        }
                    }
                    let tc = trait_callable(cm, mi, im, &pub_traits)
                        .map_err(|e| format!("{}: {e}", loc(file, im.span())))?;
                    if tc == Some(false) {
                        continue;
                    }
                    if local.is_none() && tc.is_none() {
                        return Err(format!("{}: inherent impl on a foreign type", loc(file, im.span())));
                    }
                    // impl header
                    let mut hcx = SigCx {
                        cm,
                        module: mi,
                        file,
                        type_params: generic_names(&im.generics).0.into_iter().collect(),
                        self_ty: None,
                        mode: Mode::ImplHeader,
                        counter: 0,
                        hrtb: vec![],
                    };
                    let self_rty = hcx.ty(&im.self_ty)?;
                    let self_name = match (local, &*im.self_ty) {
                        (Some(d), syn::Type::Path(tp)) => format!(
                            "{}{}",
                            cm.def_path(d),
                            norm_tokens(&tp.path.segments.last().unwrap().arguments)
                        ),
                        _ => norm_tokens(&*im.self_ty),
                    };
                    let (prefix, kind) = match &im.trait_ {
                        None => (cm.def_path(local.unwrap()), ".inherent"),
                        Some((_, tp, _)) => (format!("<{} as {}>", self_name, norm_tokens(tp)), ".traitImpl"),
                    };
                    let owner = Owner {
                        prefix,
                        kind,
                        generics: vec![&im.generics],
                        self_ty: Some(self_rty),
                        self_syn: Some(&im.self_ty),
                        trait_path: im.trait_.as_ref().map(|(_, p, _)| p.clone()),
                        is_trait_decl: false,
                        anon_count: hcx.counter,
                        assoc: im
                            .items
                            .iter()
                            .filter_map(|ii| match ii {
                                syn::ImplItem::Type(t) => Some((t.ident.to_string(), t.ty.clone())),
                                _ => None,
                            })
                            .collect(),
                        owner_key: match local {
                            Some(d) => cm.def_path(d),
                            None => norm_tokens(&*im.self_ty),
                        },
                        dups: &dups,
                    };
                    let _ = owner.anon_count;
                    for ii in &im.items {
                        if let syn::ImplItem::Fn(f) = ii {
                            if !cfg_active(&f.attrs)? {
                                continue;
                            }
                            if tc.is_none() && vis_of(&f.vis) != Vis::Pub {
                                continue;
                            }
                            rows.push(make_row(cm, mi, file, &owner, &f.sig, &f.attrs, Some(&f.block))?);
                        }
                    }
                }
                syn::Item::Macro(m) => match &m.ident {
                    Some(id) => {
                        let prefix = if mprefix.is_empty() {
                            format!("macro_rules {id}!")
                        } else {
                            format!("macro_rules {mprefix}::{id}!")
                        };
                        macro_rows(&prefix, file, m.mac.tokens.clone(), &mut rows);
                    }
                    None => {
                        let name = m.mac.path.segments.last().map(|s| s.ident.to_string()).unwrap_or_default();
                        if !macro_defs.contains(&name) {
                            return Err(format!(
                                "{}: item-position invocation of an unknown macro `{name}!`",
                                loc(file, m.span())
                            ));
                        }
                    }
                },
                _ => {}
            }
        }
    }
    // row names key the reviewed lists in Props/C17: they must be unique
    let mut seen = BTreeSet::new();
    for r in &rows {
        if !seen.insert(r.name.clone()) {
            return Err(format!("duplicate row name `{}` ({})", r.name, r.loc));
        }
    }
    let sites = collect_sites(cm)?;
    Ok(Collected { rows, sites })
}

// ---------------------------------------------------------------------------------------------
// lifetime-manufacturing sites
// ---------------------------------------------------------------------------------------------

pub struct Site {
    /// `.transmute | .fromRawParts | .refDeref | .ptrAsRef | .extendedCall`
    pub kind: &'static str,
    pub func: String,
    pub fn_unsafe: bool,
    pub in_macro: bool,
    pub loc: String,
}

fn site_kind_of_ident(s: &str) -> Option<&'static str> {
    if s == "transmute" || s == "transmute_copy" {
        Some(".transmute")
    } else if matches!(s, "from_raw_parts" | "from_raw_parts_mut" | "from_ptr_range" | "from_mut_ptr_range") {
        Some(".fromRawParts")
    } else if s.ends_with("_extended") {
        Some(".extendedCall")
    } else {
        None
    }
}

struct SiteV<'a> {
    file: &'a SrcFile,
    func: String,
    fn_unsafe: bool,
    unsafe_depth: usize,
    out: &'a mut Vec<Site>,
    err: Option<String>,
}

impl<'a> SiteV<'a> {
    fn push(&mut self, kind: &'static str, span: proc_macro2::Span, in_macro: bool) {
        self.out.push(Site {
            kind,
            func: self.func.clone(),
            fn_unsafe: self.fn_unsafe,
            in_macro,
            loc: loc(self.file, span),
        });
    }
    fn scan_tokens(&mut self, ts: proc_macro2::TokenStream) {
        for t in ts {
            match t {
                proc_macro2::TokenTree::Group(g) => self.scan_tokens(g.stream()),
                proc_macro2::TokenTree::Ident(i) => {
                    if let Some(k) = site_kind_of_ident(&i.to_string()) {
                        self.push(k, i.span(), true);
                    }
                }
                _ => {}
            }
        }
    }
    fn active(&mut self, attrs: &[syn::Attribute]) -> bool {
        match cfg_active(attrs) {
            Ok(b) => b,
            Err(e) => {
                self.err.get_or_insert(e);
                false
            }
        }
    }
}

impl<'ast, 'a> Visit<'ast> for SiteV<'a> {
    fn visit_item(&mut self, _: &'ast syn::Item) {
        // nested items are visited on their own by `collect_sites`
    }
    fn visit_local(&mut self, l: &'ast syn::Local) {
        if self.active(&l.attrs) {
            syn::visit::visit_local(self, l);
        }
    }
    fn visit_expr_block(&mut self, b: &'ast syn::ExprBlock) {
        if self.active(&b.attrs) {
            syn::visit::visit_expr_block(self, b);
        }
    }
    fn visit_expr_unsafe(&mut self, u: &'ast syn::ExprUnsafe) {
        if self.active(&u.attrs) {
            self.unsafe_depth += 1;
            syn::visit::visit_expr_unsafe(self, u);
            self.unsafe_depth -= 1;
        }
    }
    fn visit_expr_path(&mut self, p: &'ast syn::ExprPath) {
        if let Some(last) = p.path.segments.last() {
            if let Some(k) = site_kind_of_ident(&last.ident.to_string()) {
                self.push(k, last.ident.span(), false);
            }
        }
        syn::visit::visit_expr_path(self, p);
    }
    fn visit_expr_method_call(&mut self, m: &'ast syn::ExprMethodCall) {
        let name = m.method.to_string();
        if let Some(k) = site_kind_of_ident(&name) {
            self.push(k, m.method.span(), false);
        } else if matches!(name.as_str(), "as_ref" | "as_mut" | "as_uninit_ref" | "as_uninit_mut")
            && m.args.is_empty()
            && (self.unsafe_depth > 0 || self.fn_unsafe)
        {
            // `NonNull::as_ref` / `<*const T>::as_ref`: unsafe fns that pick the lifetime freely
            // (an `AsRef::as_ref` inside an unsafe block is over-reported; it is reviewed too)
            self.push(".ptrAsRef", m.method.span(), false);
        }
        syn::visit::visit_expr_method_call(self, m);
    }
    fn visit_expr_reference(&mut self, r: &'ast syn::ExprReference) {
        // the borrowed place: `*p`, `(*p).field`, `(*p).a[i]` … — find the root of the place
        let mut inner = &*r.expr;
        loop {
            match inner {
                syn::Expr::Paren(p) => inner = &p.expr,
                syn::Expr::Group(p) => inner = &p.expr,
                syn::Expr::Field(f) => inner = &f.base,
                syn::Expr::Index(i) => inner = &i.expr,
                _ => break,
            }
        }
        if let syn::Expr::Unary(u) = inner {
            if matches!(u.op, syn::UnOp::Deref(_)) && (self.unsafe_depth > 0 || self.fn_unsafe) {
                self.push(".refDeref", r.and_token.span(), false);
            }
        }
        syn::visit::visit_expr_reference(self, r);
    }
    fn visit_macro(&mut self, m: &'ast syn::Macro) {
        self.scan_tokens(m.tokens.clone());
    }
}

fn collect_sites(cm: &CrateModel) -> Result<Vec<Site>, String> {
    let mut out = vec![];
    fn scan_fn(
        file: &SrcFile,
        func: String,
        fn_unsafe: bool,
        block: &syn::Block,
        out: &mut Vec<Site>,
    ) -> Result<(), String> {
        let mut v = SiteV {
            file,
            func: func.clone(),
            fn_unsafe,
            unsafe_depth: 0,
            out,
            err: None,
        };
        v.visit_block(block);
        if let Some(e) = v.err {
            return Err(format!("{}: in `{func}`: {e}", file.rel));
        }
        // nested fns
        for st in &block.stmts {
            if let syn::Stmt::Item(syn::Item::Fn(f)) = st {
                if cfg_active(&f.attrs)? {
                    scan_fn(
                        file,
                        format!("{func}::{}", f.sig.ident),
                        f.sig.unsafety.is_some(),
                        &f.block,
                        out,
                    )?;
                }
            }
        }
        Ok(())
    }
    for (mi, module) in cm.modules.iter().enumerate() {
        let file = module.file;
        let mprefix = module.path.join("::");
        let q = |s: &str| {
            if mprefix.is_empty() {
                s.to_string()
            } else {
                format!("{mprefix}::{s}")
            }
        };
        for it in &module.items {
            match it {
                syn::Item::Fn(f) => scan_fn(
                    file,
                    q(&f.sig.ident.to_string()),
                    f.sig.unsafety.is_some(),
                    &f.block,
                    &mut out,
                )?,
                syn::Item::Impl(im) => {
                    let self_name = match impl_self_adt(cm, mi, im) {
                        Some(d) => cm.def_path(d),
                        None => norm_tokens(&*im.self_ty),
                    };
                    let prefix = match &im.trait_ {
                        None => self_name,
                        Some((_, tp, _)) => format!("<{} as {}>", self_name, norm_tokens(tp)),
                    };
                    for ii in &im.items {
                        if let syn::ImplItem::Fn(f) = ii {
                            if cfg_active(&f.attrs)? {
                                scan_fn(
                                    file,
                                    format!("{prefix}::{}", f.sig.ident),
                                    f.sig.unsafety.is_some(),
                                    &f.block,
                                    &mut out,
                                )?;
                            }
                        }
                    }
                }
                syn::Item::Trait(t) => {
                    for ti in &t.items {
                        if let syn::TraitItem::Fn(f) = ti {
                            if let (true, Some(b)) = (cfg_active(&f.attrs)?, &f.default) {
                                scan_fn(
                                    file,
                                    q(&format!("{}::{}", t.ident, f.sig.ident)),
                                    f.sig.unsafety.is_some(),
                                    b,
                                    &mut out,
                                )?;
                            }
                        }
                    }
                }
                syn::Item::Macro(m) => {
                    // macro_rules bodies and item-position invocations: token scan
                    let name = match &m.ident {
                        Some(id) => format!("macro_rules {}!", q(&id.to_string())),
                        None => format!("{}! invocation in {}", norm_tokens(&m.mac.path), if mprefix.is_empty() { "crate" } else { &mprefix }),
                    };
                    let mut v = SiteV {
                        file,
                        func: name,
                        fn_unsafe: false,
                        unsafe_depth: 0,
                        out: &mut out,
                        err: None,
                    };
                    v.scan_tokens(m.mac.tokens.clone());
                }
                _ => {}
            }
        }
    }
    Ok(out)
}

// ---------------------------------------------------------------------------------------------
// rendering
// ---------------------------------------------------------------------------------------------

pub const CHUNK: usize = 50;

pub fn render(c: &Collected) -> String {
    let mut o = String::from(HEADER);
    o.push_str("-- Every function a client crate can call (see harness/src/extract/pubfns.rs for the exact\n");
    o.push_str("-- reachability rules) with its unsafety/doc facts and lifetime skeleton, in chunks of at most\n");
    o.push_str(&format!("-- {CHUNK} rows, and every lifetime-manufacturing site of the compiled non-test source.\n"));
    o.push_str("import HipVerif.Model.PubFnsTy\n\nnamespace HipVerif.Gen.PubFns\nopen HipVerif.Model.PubFns\n\n");
    let n_chunks = (c.rows.len() + CHUNK - 1) / CHUNK;
    for k in 0..n_chunks {
        let part = &c.rows[k * CHUNK..((k + 1) * CHUNK).min(c.rows.len())];
        o.push_str(&format!("def pubFns_{k} : List FnSig := [\n"));
        for (i, r) in part.iter().enumerate() {
            let ins = r
                .ins
                .iter()
                .map(|(role, reg)| format!("⟨{}, {}⟩", role.lean(), reg.lean()))
                .collect::<Vec<_>>()
                .join(", ");
            let outs = r
                .outs
                .iter()
                .map(|(pos, reg)| format!("⟨{}, {}⟩", pos.lean(), reg.lean()))
                .collect::<Vec<_>>()
                .join(", ");
            let ol = r
                .outlives
                .iter()
                .map(|(a, b)| format!("({}, {})", a.lean(), b.lean()))
                .collect::<Vec<_>>()
                .join(", ");
            let owner = r.name.strip_suffix(&r.simple).and_then(|p| p.strip_suffix("::")).unwrap_or("");
            o.push_str(&format!(
                "  ⟨{}, {}, {}, {}, {}, {}, {}, {}, {}, {}, {}, {}, {}, {}, {}, {}, [{}], [{}], [{}], {}⟩{}\n",
                lean_string(&r.name),
                key_of(&r.name),
                lean_string(&r.simple),
                key_of(&r.simple),
                key_of(owner),
                r.kind,
                r.is_unsafe,
                r.name_unchecked,
                r.has_safety_doc,
                match &r.forwards {
                    Some(c) => format!("(some {})", lean_string(c)),
                    None => "none".to_string(),
                },
                format!(
                    "[{}]",
                    r.bounds
                        .iter()
                        .map(|(a, b)| format!("({}, {})", key_of(a), key_of(b)))
                        .collect::<Vec<_>>()
                        .join(", ")
                ),
                lean_string(&r.bounds.iter().map(|(a, b)| format!("{a}: {b}")).collect::<Vec<_>>().join(", ")),
                r.elem_param.as_deref().map_or("0".to_string(), key_of),
                match &r.dup_bits {
                    Some(c) => format!("(some {})", lean_string(c)),
                    None => "none".to_string(),
                },
                r.shared_src,
                r.produces_owned,
                ins,
                outs,
                ol,
                lean_string(&r.loc),
                if i + 1 == part.len() { "" } else { "," }
            ));
        }
        o.push_str("]\n\n");
    }
    o.push_str("def chunks : List (List FnSig) := [");
    o.push_str(&(0..n_chunks).map(|k| format!("pubFns_{k}")).collect::<Vec<_>>().join(", "));
    o.push_str("]\n\ndef pubFns : List FnSig := chunks.flatten\n\n");
    o.push_str("def sites : List Site := [\n");
    for (i, s) in c.sites.iter().enumerate() {
        o.push_str(&format!(
            "  ⟨{}, {}, {}, {}, {}, {}⟩{}\n",
            s.kind,
            lean_string(&s.func),
            key_of(&s.func),
            s.fn_unsafe,
            s.in_macro,
            lean_string(&s.loc),
            if i + 1 == c.sites.len() { "" } else { "," }
        ));
    }
    o.push_str("]\n\nend HipVerif.Gen.PubFns\n");
    o
}

pub fn generate(repo: &Repo) -> Result<Vec<GenFile>, String> {
    let cm = CrateModel::build(repo)?;
    let c = collect(&cm)?;
    if c.rows.len() < 100 {
        return Err(format!("only {} callable functions found — reachability broken?", c.rows.len()));
    }
    Ok(vec![
        GenFile {
            name: "PubFns.lean".into(),
            content: render(&c),
        },
        GenFile {
            name: "Doors.lean".into(),
            content: doors::render(&c.rows),
        },
    ])
}
