//! `Gen/StrGuards.lean`: the validity guards of the `HipStr` API, as present in the source.
//!
//! For each guarded function the generator looks for an ORDERED list of token patterns in the
//! function body (whitespace-insensitive): the check must come before the byte-level operation
//! it guards.  An `assert!` pattern must not be a `debug_assert!`.  The generated table records,
//! per function, whether every pattern was found in order; the theorem `str_guards_present`
//! (Props/C06.lean) then decides the whole table.  A function that cannot be found is a
//! translator failure.

use syn::{ImplItem, Item};

use super::repo::{loc, SrcFile};
use super::{GenFile, Repo, HEADER};

struct Spec {
    file: &'static str,
    /// `Some(trait)` for a trait impl method (matched on the trait's last path segment and the
    /// type argument text), `None` for an inherent method
    in_trait: Option<(&'static str, &'static str)>,
    self_ty: &'static str,
    name: &'static str,
    /// what the guard protects (for humans)
    what: &'static str,
    patterns: &'static [&'static str],
}

const SPECS: &[Spec] = &[
    Spec { file: "src/string.rs", in_trait: None, self_ty: "HipStr", name: "truncate",
        what: "truncate panics off a char boundary (release builds too)",
        patterns: &["ifnew_len<=self.len()", "assert!(self.is_char_boundary(new_len)", "self.0.truncate(new_len)"] },
    Spec { file: "src/string.rs", in_trait: None, self_ty: "HipStr", name: "try_slice",
        what: "try_slice rejects ranges whose ends are not char boundaries",
        patterns: &["simplify_range(range,self.len())", "if!self.is_char_boundary(range.start){returnErr(", "if!self.is_char_boundary(range.end){returnErr(", "self.slice_unchecked(range)"] },
    Spec { file: "src/string.rs", in_trait: None, self_ty: "HipStr", name: "slice",
        what: "slice panics exactly when try_slice errs",
        patterns: &["matchself.try_slice(range){Ok(result)=>result,Err(err)=>panic!("] },
    Spec { file: "src/string.rs", in_trait: None, self_ty: "HipStr", name: "from_utf8",
        what: "from_utf8 validates before the unchecked constructor and hands the bytes back on error",
        patterns: &["matchcore::str::from_utf8(bytes.as_slice()){Ok(_)=>", "Self::from_utf8_unchecked(bytes)", "Err(e)=>Err(FromUtf8Error{bytes,error:e})"] },
    Spec { file: "src/string.rs", in_trait: None, self_ty: "HipStr", name: "pop",
        what: "pop removes exactly the last scalar: truncates at the start index of the last char",
        patterns: &["self.as_str().char_indices().next_back()?", "self.truncate(i)", "Some(ch)"] },
    Spec { file: "src/string.rs", in_trait: None, self_ty: "HipStr", name: "push",
        what: "push appends the UTF-8 encoding of the char",
        patterns: &["ch.encode_utf8(&mutdata)", "self.0.push_slice(s.as_bytes())"] },
    Spec { file: "src/string.rs", in_trait: None, self_ty: "HipStr", name: "push_str",
        what: "push_str takes a &str",
        patterns: &["addition:&str", "self.0.push_slice(addition.as_bytes())"] },
    Spec { file: "src/string.rs", in_trait: None, self_ty: "HipStr", name: "from_utf8_lossy",
        what: "from_utf8_lossy keeps the bytes only when std found them valid",
        patterns: &["matchString::from_utf8_lossy(&bytes){Cow::Borrowed(_)=>Self(bytes),Cow::Owned(s)=>Self::from(s)"] },
    Spec { file: "src/string/convert.rs", in_trait: Some(("TryFrom", "&[u8]")), self_ty: "HipStr", name: "try_from",
        what: "TryFrom<&[u8]> validates",
        patterns: &["Ok(Self::from(core::str::from_utf8(value)?))"] },
    Spec { file: "src/string/convert.rs", in_trait: Some(("TryFrom", "Vec<u8>")), self_ty: "HipStr", name: "try_from",
        what: "TryFrom<Vec<u8>> validates",
        patterns: &["String::from_utf8(value)?", "Ok(Self::from(s))"] },
    Spec { file: "src/string/convert.rs", in_trait: Some(("TryFrom", "HipByt<'borrow,B>")), self_ty: "HipStr", name: "try_from",
        what: "TryFrom<HipByt> goes through from_utf8",
        patterns: &["Self::from_utf8(value)"] },
    Spec { file: "src/os_string.rs", in_trait: None, self_ty: "HipOsStr", name: "to_str",
        what: "OsStr to str only after validation",
        patterns: &["self.as_os_str().to_str()?", "HipStr::from_utf8_unchecked(self.0.clone())"] },
    Spec { file: "src/os_string.rs", in_trait: None, self_ty: "HipOsStr", name: "into_str",
        what: "OsStr into str only after validation",
        patterns: &["HipStr::from_utf8(self.0)"] },
];

fn norm(s: &str) -> String {
    s.chars().filter(|c| !c.is_whitespace()).collect()
}

fn find_fn<'a>(file: &'a SrcFile, spec: &Spec) -> Option<&'a syn::ImplItemFn> {
    for it in &file.ast.items {
        let Item::Impl(imp) = it else { continue };
        let self_ty = &imp.self_ty;
        let st = norm(&quote::quote!(#self_ty).to_string());
        if !st.starts_with(spec.self_ty) {
            continue;
        }
        match (&imp.trait_, spec.in_trait) {
            (None, None) => {}
            (Some((_, path, _)), Some((tr, arg))) => {
                let p = norm(&quote::quote!(#path).to_string());
                if !(p.starts_with(tr) && p.contains(&norm(arg))) {
                    continue;
                }
                // `TryFrom<&HipByt…>` must not match the `HipByt<…>` row
                if arg.starts_with("HipByt") && p.contains("<&") {
                    continue;
                }
            }
            _ => continue,
        }
        for ii in &imp.items {
            if let ImplItem::Fn(f) = ii {
                if f.sig.ident == spec.name {
                    return Some(f);
                }
            }
        }
    }
    None
}

pub fn generate(repo: &Repo) -> Result<Vec<GenFile>, String> {
    use syn::spanned::Spanned;
    let mut s = String::from(HEADER);
    s.push_str("namespace HipVerif.Gen.StrGuards\n\n");
    s.push_str("/-- one guarded function: where it is, what the guard protects, and whether every expected\ncheck was found, in order, in its body -/\nstructure Guard where\n  fn_ : String\n  what : String\n  found : Bool\n  missing : String\n  loc : String\n  deriving Repr, DecidableEq\n\n");
    s.push_str("def guards : List Guard := [\n");
    let mut rows = vec![];
    for spec in SPECS {
        let file = repo.file(spec.file)?;
        let Some(f) = find_fn(file, spec) else {
            return Err(format!(
                "Gen/StrGuards: {}::{} ({:?}) not found in {}",
                spec.self_ty, spec.name, spec.in_trait, spec.file
            ));
        };
        let text = norm(&quote::quote!(#f).to_string());
        let mut pos = 0usize;
        let mut missing = String::new();
        for pat in spec.patterns {
            let p = norm(pat);
            match text[pos..].find(&p) {
                Some(i) => {
                    // an `assert!` must not be a `debug_assert!`
                    if p.starts_with("assert!") && text[..pos + i].ends_with("debug_") {
                        missing = format!("{pat} (only a debug_assert!)");
                        break;
                    }
                    pos += i + p.len();
                }
                None => {
                    missing = pat.to_string();
                    break;
                }
            }
        }
        let tr = spec.in_trait.map(|(t, a)| format!("<{t}<{a}>>")).unwrap_or_default();
        rows.push(format!(
            "  {{ fn_ := \"{}{}::{}\", what := \"{}\", found := {}, missing := \"{}\", loc := \"{}\" }}",
            spec.self_ty,
            tr,
            spec.name,
            spec.what,
            missing.is_empty(),
            missing.replace('"', "'"),
            loc(file, f.sig.span())
        ));
    }
    s.push_str(&rows.join(",\n"));
    s.push_str("\n]\n\nend HipVerif.Gen.StrGuards\n");
    Ok(vec![GenFile { name: "StrGuards.lean".into(), content: s }])
}
