//! Loads and parses every `.rs` file under `<root>/src`.

use std::path::{Path, PathBuf};

pub struct SrcFile {
    /// path relative to the repository root, e.g. `src/bytes/raw.rs`
    pub rel: String,
    pub text: String,
    pub ast: syn::File,
}

pub struct Repo {
    pub root: PathBuf,
    pub files: Vec<SrcFile>,
}

fn walk(dir: &Path, out: &mut Vec<PathBuf>) -> std::io::Result<()> {
    let mut entries: Vec<_> = std::fs::read_dir(dir)?.collect::<Result<_, _>>()?;
    entries.sort_by_key(|e| e.path());
    for e in entries {
        let p = e.path();
        if p.is_dir() {
            walk(&p, out)?;
        } else if p.extension().map_or(false, |x| x == "rs") {
            out.push(p);
        }
    }
    Ok(())
}

impl Repo {
    pub fn load(root: &Path) -> Result<Repo, String> {
        let mut paths = vec![];
        walk(&root.join("src"), &mut paths).map_err(|e| format!("walk {root:?}: {e}"))?;
        let mut files = vec![];
        for p in paths {
            let text = std::fs::read_to_string(&p).map_err(|e| format!("read {p:?}: {e}"))?;
            let ast = syn::parse_file(&text).map_err(|e| format!("parse {p:?}: {e}"))?;
            let rel = p.strip_prefix(root).unwrap().to_string_lossy().to_string();
            files.push(SrcFile { rel, text, ast });
        }
        Ok(Repo {
            root: root.to_path_buf(),
            files,
        })
    }

    pub fn file(&self, rel: &str) -> Result<&SrcFile, String> {
        self.files
            .iter()
            .find(|f| f.rel == rel)
            .ok_or_else(|| format!("source file {rel} not found"))
    }

    /// Files that are not test modules (`tests.rs`, `*/tests.rs`).
    pub fn non_test_files(&self) -> impl Iterator<Item = &SrcFile> {
        self.files
            .iter()
            .filter(|f| !f.rel.ends_with("/tests.rs") && !f.rel.contains("/tests/"))
    }
}

/// `file:line` of a span (needs proc-macro2's `span-locations`).
pub fn loc(file: &SrcFile, span: proc_macro2::Span) -> String {
    format!("{}:{}", file.rel, span.start().line)
}
