//! `Gen/Wiring.lean` (property C11): what every "inherited" `str` method of `HipStr` literally does.
//!
//! Sources: `src/string.rs` (the wrappers and `HipStr::slice_ref_unchecked`) and
//! `src/string/pattern.rs` (the pattern traits, the `impl_pat!` macro definition and invocations,
//! the `Adopt` impls, `IterWrapper`).
//!
//! Everything is read STRUCTURALLY (syn ASTs; the `macro_rules!` token stream is cut into arms, the
//! impl body inside each transcriber is parsed as impl items) and matched against the templates
//! below. Inside a recognised template, a *slot* (receiver, pattern argument, count argument, index
//! component, adoption source) that is not the expected expression is recorded as `.other "<expr>"`
//! so that the Lean row predicate fails on that row; a body that matches no template at all is a
//! translator failure (`Err`): the generator never guesses.
//!
//! Wrapper templates (`HipStr` methods; `CALL` = the std call, see `classify_call`):
//!   T1  `IterWrapper::new(SRC, CALL)`
//!   T2  `let s = CALL; unsafe { SRC.slice_ref_unchecked(s) }`
//!   T3  `CALL.map(|s| unsafe { SRC.slice_ref_unchecked(s) })`
//!   T4  `CALL.map(|(a, b)| unsafe { (SRC.slice_ref_unchecked(a), SRC.slice_ref_unchecked(b)) })`
//!   T5  `Self::from(CALL)`
//!   T6  `Self(self.0.m(args))`
//!   T7  `String::m(v).map(Into::into)` / `String::m(v).into()`
//! CALL: `self.as_str().m(args)` (direct) | `<pattern param>.m([count,] HAYSTACK)` (pattern trait).
//! Arm template: `fn m(self, [n: usize,] h: &str) -> R { RECV.m(args) }` plus
//! `type X<'haystack> = core::str::X<'haystack, Self>;`.
//! `IterWrapper`: one row per method DEFINED in an `impl Iterator / DoubleEndedIterator / FusedIterator /
//! ExactSizeIterator for IterWrapper` block, template
//!   `fn m(&mut self, PARAMS) { RECV.callee(ARGS) [.map(|item| unsafe { item.adopt_unchecked(SRC) })] }`
//! (ARGS = PARAMS in order → `.unchanged`); any other body is a translator failure.
//! `iterTypes`: every type of the crate with an `impl Iterator` (closed world for `coverage`).

use proc_macro2::{Delimiter, TokenStream, TokenTree};
use syn::parse::Parser;
use syn::spanned::Spanned;
use syn::{Block, Expr, FnArg, ImplItem, ImplItemFn, Item, Pat, ReturnType, Stmt, Type};

use super::repo::{loc, SrcFile};
use super::{GenFile, Repo, HEADER};

const STRING_RS: &str = "src/string.rs";
const PATTERN_RS: &str = "src/string/pattern.rs";

/// `str` / `String` functions with an allocating result: a `HipStr` method of that name is a wrapper
/// even though its body contains neither `IterWrapper` nor `slice_ref_unchecked`.
const ALLOCATING: &[&str] = &[
    "to_lowercase",
    "to_uppercase",
    "to_ascii_lowercase",
    "to_ascii_uppercase",
    "repeat",
    "replace",
    "replacen",
    "from_utf16",
    "from_utf16_lossy",
    "from_utf16le",
    "from_utf16le_lossy",
    "from_utf16be",
    "from_utf16be_lossy",
];

// ---------------------------------------------------------------------------------------------
// small helpers

fn lean_str(s: &str) -> String {
    let mut o = String::from("\"");
    for c in s.chars() {
        match c {
            '"' => o.push_str("\\\""),
            '\\' => o.push_str("\\\\"),
            '\n' => o.push_str("\\n"),
            c => o.push(c),
        }
    }
    o.push('"');
    o
}

/// token text of an expression / type with single spaces (deterministic, only used inside `.other`)
fn text<T: quote::ToTokens>(t: &T) -> String {
    t.to_token_stream().to_string()
}

fn squeeze(s: &str) -> String {
    s.chars().filter(|c| !c.is_whitespace()).collect()
}

fn path_ident(e: &Expr) -> Option<String> {
    match e {
        Expr::Path(p) if p.qself.is_none() && p.attrs.is_empty() => p.path.get_ident().map(|i| i.to_string()),
        _ => None,
    }
}

fn is_self(e: &Expr) -> bool {
    path_ident(e).as_deref() == Some("self")
}

/// `self.<name>` (named field) or `self.<index>`
fn self_field(e: &Expr) -> Option<String> {
    if let Expr::Field(f) = e {
        if is_self(&f.base) {
            return Some(match &f.member {
                syn::Member::Named(i) => i.to_string(),
                syn::Member::Unnamed(i) => i.index.to_string(),
            });
        }
    }
    None
}

/// strips parentheses, `unsafe { e }` and `{ e }` wrappers around a single tail expression
fn strip(e: &Expr) -> &Expr {
    match e {
        Expr::Paren(p) => strip(&p.expr),
        Expr::Group(g) => strip(&g.expr),
        Expr::Unsafe(u) => match single_expr(&u.block) {
            Some(inner) => strip(inner),
            None => e,
        },
        Expr::Block(b) if b.label.is_none() => match single_expr(&b.block) {
            Some(inner) => strip(inner),
            None => e,
        },
        _ => e,
    }
}

fn single_expr(b: &Block) -> Option<&Expr> {
    match b.stmts.as_slice() {
        [Stmt::Expr(e, None)] => Some(e),
        _ => None,
    }
}

fn is_self_as_str(e: &Expr) -> bool {
    matches!(e, Expr::MethodCall(m) if m.method == "as_str" && m.args.is_empty() && m.turbofish.is_none() && is_self(&m.receiver))
}

// ---------------------------------------------------------------------------------------------
// Lean rendering of the slot classes

#[derive(Clone, Debug, PartialEq)]
enum Src {
    SelfRef,
    SourceParam,
    SelfSourceField,
    Other(String),
}
impl Src {
    fn lean(&self) -> String {
        match self {
            Src::SelfRef => ".selfRef".into(),
            Src::SourceParam => ".sourceParam".into(),
            Src::SelfSourceField => ".selfSourceField".into(),
            Src::Other(s) => format!("(.other {})", lean_str(s)),
        }
    }
}

#[derive(Clone, Debug, PartialEq)]
enum Pass {
    Absent,
    Unchanged,
    Other(String),
}
impl Pass {
    fn lean(&self) -> String {
        match self {
            Pass::Absent => ".absent".into(),
            Pass::Unchanged => ".unchanged".into(),
            Pass::Other(s) => format!("(.other {})", lean_str(s)),
        }
    }
}

#[derive(Clone, Debug, PartialEq)]
enum Recv {
    SelfAsStr,
    SelfBytes,
    StringFn,
    Other(String),
}
impl Recv {
    fn lean(&self) -> String {
        match self {
            Recv::SelfAsStr => ".selfAsStr".into(),
            Recv::SelfBytes => ".selfBytes".into(),
            Recv::StringFn => ".stringFn".into(),
            Recv::Other(s) => format!("(.other {})", lean_str(s)),
        }
    }
}

#[derive(Clone, Debug)]
enum Via {
    Direct,
    PatTrait(String),
    Bytes,
    StringFn,
}
impl Via {
    fn lean(&self) -> String {
        match self {
            Via::Direct => ".direct".into(),
            Via::PatTrait(b) => format!("(.patTrait {})", lean_str(b)),
            Via::Bytes => ".bytes".into(),
            Via::StringFn => ".stringFn".into(),
        }
    }
}

#[derive(Clone, Debug)]
enum Adopt {
    IterWrapper(Src),
    SliceRef(Src),
    FromString,
    WrapBytes,
    NotAdopted(String),
}
impl Adopt {
    fn lean(&self) -> String {
        match self {
            Adopt::IterWrapper(s) => format!("(.iterWrapper {})", s.lean()),
            Adopt::SliceRef(s) => format!("(.sliceRef {})", s.lean()),
            Adopt::FromString => ".fromString".into(),
            Adopt::WrapBytes => ".wrapBytes".into(),
            Adopt::NotAdopted(s) => format!("(.notAdopted {})", lean_str(s)),
        }
    }
}

// ---------------------------------------------------------------------------------------------
// wrappers (src/string.rs)

/// the parameters of a wrapper that matter
struct Params {
    /// (name, trait bound) of the parameter whose type is a pattern (`P: Bound` or `impl Bound`)
    pattern: Option<(String, String)>,
    /// names of the `usize` parameters
    counts: Vec<String>,
    /// all other parameter names
    others: Vec<String>,
}

fn last_seg(p: &syn::Path) -> String {
    p.segments.last().map(|s| s.ident.to_string()).unwrap_or_default()
}

fn single_trait_bound<'a>(
    bounds: impl Iterator<Item = &'a syn::TypeParamBound>,
    file: &SrcFile,
    f: &ImplItemFn,
) -> Result<String, String> {
    let mut names = vec![];
    for b in bounds {
        match b {
            syn::TypeParamBound::Trait(t) => names.push(last_seg(&t.path)),
            other => {
                return Err(format!(
                    "Gen/Wiring: unsupported bound `{}` in {} at {}",
                    text(other),
                    f.sig.ident,
                    loc(file, f.sig.span())
                ))
            }
        }
    }
    if names.len() != 1 {
        return Err(format!(
            "Gen/Wiring: expected exactly one trait bound on the pattern parameter of {} at {}",
            f.sig.ident,
            loc(file, f.sig.span())
        ));
    }
    Ok(names.remove(0))
}

fn params_of(file: &SrcFile, f: &ImplItemFn) -> Result<Params, String> {
    let mut p = Params { pattern: None, counts: vec![], others: vec![] };
    if f.sig.generics.where_clause.is_some() {
        return Err(format!(
            "Gen/Wiring: where clause on wrapper {} at {}",
            f.sig.ident,
            loc(file, f.sig.span())
        ));
    }
    // generic type parameters with their bound
    let mut generics: Vec<(String, String)> = vec![];
    for gp in &f.sig.generics.params {
        match gp {
            syn::GenericParam::Type(tp) => {
                let b = single_trait_bound(tp.bounds.iter(), file, f)?;
                generics.push((tp.ident.to_string(), b));
            }
            other => {
                return Err(format!(
                    "Gen/Wiring: unsupported generic parameter `{}` on {} at {}",
                    text(other),
                    f.sig.ident,
                    loc(file, f.sig.span())
                ))
            }
        }
    }
    for a in &f.sig.inputs {
        let FnArg::Typed(pt) = a else { continue };
        let Pat::Ident(pi) = &*pt.pat else {
            return Err(format!(
                "Gen/Wiring: parameter pattern `{}` of {} at {}",
                text(&pt.pat),
                f.sig.ident,
                loc(file, f.sig.span())
            ));
        };
        let name = pi.ident.to_string();
        match &*pt.ty {
            Type::Path(tp) if tp.qself.is_none() => {
                if let Some(id) = tp.path.get_ident() {
                    let id = id.to_string();
                    if id == "usize" {
                        p.counts.push(name);
                        continue;
                    }
                    if let Some((_, b)) = generics.iter().find(|(g, _)| *g == id) {
                        if p.pattern.is_some() {
                            return Err(format!(
                                "Gen/Wiring: two pattern parameters on {} at {}",
                                f.sig.ident,
                                loc(file, f.sig.span())
                            ));
                        }
                        p.pattern = Some((name, b.clone()));
                        continue;
                    }
                }
                p.others.push(name);
            }
            Type::ImplTrait(it) => {
                let b = single_trait_bound(it.bounds.iter(), file, f)?;
                if p.pattern.is_some() {
                    return Err(format!(
                        "Gen/Wiring: two pattern parameters on {} at {}",
                        f.sig.ident,
                        loc(file, f.sig.span())
                    ));
                }
                p.pattern = Some((name, b));
            }
            _ => p.others.push(name),
        }
    }
    Ok(p)
}

/// the std call inside a wrapper
struct Call {
    via: Via,
    callee: String,
    recv: Recv,
    pat: Pass,
    count: Pass,
}

fn classify_src(e: &Expr) -> Src {
    let e = strip(e);
    if is_self(e) {
        Src::SelfRef
    } else {
        Src::Other(text(e))
    }
}

fn classify_haystack(e: &Expr) -> Recv {
    let e = strip(e);
    if is_self_as_str(e) {
        Recv::SelfAsStr
    } else {
        Recv::Other(text(e))
    }
}

fn classify_count(e: &Expr, params: &Params) -> Pass {
    match path_ident(strip(e)) {
        Some(id) if params.counts.contains(&id) => Pass::Unchanged,
        _ => Pass::Other(text(e)),
    }
}

fn err_at(file: &SrcFile, span: proc_macro2::Span, what: &str) -> String {
    format!("Gen/Wiring: {what} at {}", loc(file, span))
}

/// CALL: `self.as_str().m(args)` | `<pattern param>.m([count,] HAYSTACK)`
fn classify_call(file: &SrcFile, e: &Expr, params: &Params) -> Result<Call, String> {
    let e = strip(e);
    let Expr::MethodCall(mc) = e else {
        return Err(err_at(file, e.span(), &format!("expected a method call, found `{}`", text(e))));
    };
    if mc.turbofish.is_some() {
        return Err(err_at(file, e.span(), "turbofish on the std call"));
    }
    let callee = mc.method.to_string();
    let recv = strip(&mc.receiver);
    // through the pattern trait
    if let (Some(id), Some((pname, bound))) = (path_ident(recv), &params.pattern) {
        if id == *pname {
            let args: Vec<&Expr> = mc.args.iter().collect();
            let (count, hay) = match args.as_slice() {
                [h] => (Pass::Absent, *h),
                [c, h] => (classify_count(c, params), *h),
                _ => {
                    return Err(err_at(
                        file,
                        e.span(),
                        &format!("pattern-trait call `{}` with {} arguments", text(e), args.len()),
                    ))
                }
            };
            return Ok(Call {
                via: Via::PatTrait(bound.clone()),
                callee,
                recv: classify_haystack(hay),
                pat: Pass::Unchanged,
                count,
            });
        }
    }
    // directly on a `&str`
    let is_str_recv = is_self_as_str(recv);
    if is_str_recv || matches!(recv, Expr::MethodCall(_)) {
        let mut pat = Pass::Absent;
        let mut count = Pass::Absent;
        for a in &mc.args {
            let a = strip(a);
            match path_ident(a) {
                Some(id) if params.pattern.as_ref().map_or(false, |(p, _)| *p == id) => pat = Pass::Unchanged,
                Some(id) if params.counts.contains(&id) => count = Pass::Unchanged,
                _ => {
                    // an argument that is neither parameter passed as is: attribute it to the
                    // pattern slot if the wrapper has a pattern parameter, else to the count slot
                    if params.pattern.is_some() && pat == Pass::Absent {
                        pat = Pass::Other(text(a))
                    } else {
                        count = Pass::Other(text(a))
                    }
                }
            }
        }
        return Ok(Call {
            via: Via::Direct,
            callee,
            recv: if is_str_recv { Recv::SelfAsStr } else { Recv::Other(text(recv)) },
            pat,
            count,
        });
    }
    // a pattern-trait style call whose receiver is not the pattern parameter, or anything else
    Err(err_at(file, e.span(), &format!("unrecognised std call `{}`", text(e))))
}

struct WrapperRow {
    name: String,
    call: Call,
    shape: &'static str,
    adopt: Adopt,
    comps: Vec<usize>,
    ret: String,
    loc: String,
}

/// `SRC.slice_ref_unchecked(ARG)` → (SRC, ARG ident)
fn slice_ref_call(e: &Expr) -> Option<(Src, Option<String>, String)> {
    let e = strip(e);
    if let Expr::MethodCall(mc) = e {
        if mc.method == "slice_ref_unchecked" && mc.args.len() == 1 && mc.turbofish.is_none() {
            let arg = strip(&mc.args[0]);
            return Some((classify_src(&mc.receiver), path_ident(arg), text(arg)));
        }
    }
    None
}

fn same_src(srcs: &[Src]) -> Src {
    if srcs.iter().all(|s| *s == srcs[0]) {
        srcs[0].clone()
    } else {
        Src::Other(
            srcs.iter()
                .map(|s| match s {
                    Src::Other(t) => t.clone(),
                    Src::SelfRef => "self".into(),
                    _ => "?".into(),
                })
                .collect::<Vec<_>>()
                .join(" / "),
        )
    }
}

fn ret_ty(file: &SrcFile, f: &ImplItemFn, params: &Params) -> Result<String, String> {
    let ReturnType::Type(_, ty) = &f.sig.output else {
        return Ok(format!("(.other {})", lean_str("()")));
    };
    let sq = squeeze(&text(ty));
    Ok(match sq.as_str() {
        "Self" => ".self".into(),
        "Option<Self>" => ".optSelf".into(),
        "Option<(Self,Self)>" => ".optPair".into(),
        "Result<Self,FromUtf16Error>" => ".resultSelf".into(),
        _ => {
            if let Type::Path(tp) = &**ty {
                let seg = tp.path.segments.last().unwrap();
                if tp.path.segments.len() == 1 && seg.ident == "IterWrapper" {
                    let syn::PathArguments::AngleBracketed(ab) = &seg.arguments else {
                        return Err(err_at(file, ty.span(), "IterWrapper without generic arguments"));
                    };
                    let tys: Vec<&Type> = ab
                        .args
                        .iter()
                        .filter_map(|a| if let syn::GenericArgument::Type(t) = a { Some(t) } else { None })
                        .collect();
                    // `IterWrapper<'_, 'borrow, B, ITER>`
                    if let [b, Type::Path(it)] = tys.as_slice() {
                        if squeeze(&text(b)) == "B" && it.qself.is_none() {
                            let segs: Vec<String> = it.path.segments.iter().map(|s| s.ident.to_string()).collect();
                            // generic arguments of the iterator type may only be lifetimes
                            let only_lifetimes = it.path.segments.iter().all(|s| match &s.arguments {
                                syn::PathArguments::None => true,
                                syn::PathArguments::AngleBracketed(a) => {
                                    a.args.iter().all(|g| matches!(g, syn::GenericArgument::Lifetime(_)))
                                }
                                _ => false,
                            });
                            if only_lifetimes {
                                // `P::Assoc` where P is the generic pattern type of this fn
                                let generic_names: Vec<String> = f
                                    .sig
                                    .generics
                                    .type_params()
                                    .map(|t| t.ident.to_string())
                                    .collect();
                                if segs.len() == 2 && generic_names.contains(&segs[0]) && params.pattern.is_some() {
                                    return Ok(format!("(.iterAssoc {})", lean_str(&segs[1])));
                                }
                                if segs.len() == 1 {
                                    return Ok(format!("(.iterStd {})", lean_str(&segs[0])));
                                }
                            }
                        }
                    }
                }
            }
            format!("(.other {})", lean_str(&sq))
        }
    })
}

fn wrapper_row(file: &SrcFile, f: &ImplItemFn) -> Result<WrapperRow, String> {
    let params = params_of(file, f)?;
    let name = f.sig.ident.to_string();
    let l = loc(file, f.sig.span());
    let ret = ret_ty(file, f, &params)?;
    let fail = |what: &str| -> String {
        format!("Gen/Wiring: wrapper {name} at {l}: body matches no template ({what})")
    };
    let mk = |call: Call, shape: &'static str, adopt: Adopt, comps: Vec<usize>| WrapperRow {
        name: name.clone(),
        call,
        shape,
        adopt,
        comps,
        ret: ret.clone(),
        loc: l.clone(),
    };
    let stmts = &f.block.stmts;
    // T2: `let s = CALL; unsafe { SRC.slice_ref_unchecked(s) }`
    if let [Stmt::Local(local), Stmt::Expr(tail, None)] = stmts.as_slice() {
        let (Pat::Ident(pi), Some(init)) = (&local.pat, &local.init) else {
            return Err(fail("let without simple binding"));
        };
        if init.diverge.is_some() {
            return Err(fail("let-else"));
        }
        let call = classify_call(file, &init.expr, &params)?;
        let Some((src, arg, arg_text)) = slice_ref_call(tail) else {
            return Err(fail("tail is not a slice_ref_unchecked call"));
        };
        let adopt = if arg.as_deref() == Some(&pi.ident.to_string()) {
            Adopt::SliceRef(src)
        } else {
            Adopt::NotAdopted(format!("slice_ref_unchecked({arg_text})"))
        };
        return Ok(mk(call, ".single", adopt, vec![0]));
    }
    let [Stmt::Expr(body, None)] = stmts.as_slice() else {
        return Err(fail("statement list"));
    };
    let body = strip(body);
    match body {
        // T1 / T5 / T6 / (T7 inner)
        Expr::Call(c) => {
            let func = squeeze(&text(&c.func));
            let args: Vec<&Expr> = c.args.iter().collect();
            match (func.as_str(), args.as_slice()) {
                ("IterWrapper::new", [src, inner]) => {
                    let call = classify_call(file, inner, &params)?;
                    Ok(mk(call, ".iter", Adopt::IterWrapper(classify_src(src)), vec![]))
                }
                ("Self::from", [inner]) => {
                    let call = classify_call(file, inner, &params)?;
                    Ok(mk(call, ".owned", Adopt::FromString, vec![]))
                }
                ("Self", [inner]) => {
                    // T6: `Self(self.0.m(args))`
                    let inner = strip(inner);
                    let Expr::MethodCall(mc) = inner else {
                        return Err(fail("Self(…) around a non-call"));
                    };
                    if self_field(strip(&mc.receiver)).as_deref() != Some("0") {
                        return Err(fail("Self(…) around a call whose receiver is not self.0"));
                    }
                    let mut count = Pass::Absent;
                    for a in &mc.args {
                        count = classify_count(a, &params);
                    }
                    if mc.args.len() > 1 {
                        return Err(fail("self.0 delegation with several arguments"));
                    }
                    let call = Call {
                        via: Via::Bytes,
                        callee: mc.method.to_string(),
                        recv: Recv::SelfBytes,
                        pat: Pass::Absent,
                        count,
                    };
                    Ok(mk(call, ".owned", Adopt::WrapBytes, vec![]))
                }
                _ => Err(fail(&format!("call of `{func}`"))),
            }
        }
        Expr::MethodCall(mc) => {
            let m = mc.method.to_string();
            let args: Vec<&Expr> = mc.args.iter().collect();
            // T7: `String::m(v).map(Into::into)` / `String::m(v).into()`
            if let Expr::Call(c) = strip(&mc.receiver) {
                let func = squeeze(&text(&c.func));
                if let Some(callee) = func.strip_prefix("String::") {
                    let shape = match (m.as_str(), args.as_slice()) {
                        ("into", []) => ".owned",
                        ("map", [a]) if squeeze(&text(*a)) == "Into::into" => ".resultOwned",
                        _ => return Err(fail("String::… result not converted by into")),
                    };
                    // the single argument must be the fn's own parameter
                    let cargs: Vec<&Expr> = c.args.iter().collect();
                    let passed = match cargs.as_slice() {
                        [a] => path_ident(strip(a)).map_or(false, |id| params.others.contains(&id)),
                        _ => false,
                    };
                    let call = Call {
                        via: Via::StringFn,
                        callee: callee.to_string(),
                        recv: Recv::StringFn,
                        pat: Pass::Absent,
                        count: if passed {
                            Pass::Absent
                        } else {
                            Pass::Other(c.args.iter().map(|a| text(a)).collect::<Vec<_>>().join(", "))
                        },
                    };
                    return Ok(mk(call, shape, Adopt::FromString, vec![]));
                }
            }
            // T3 / T4: `CALL.map(|…| …)`
            if m == "map" {
                if let [Expr::Closure(cl)] = args.as_slice() {
                    let call = classify_call(file, &mc.receiver, &params)?;
                    let inputs: Vec<&Pat> = cl.inputs.iter().collect();
                    let [input] = inputs.as_slice() else {
                        return Err(fail("closure arity"));
                    };
                    let cbody = strip(&cl.body);
                    match input {
                        // T3
                        Pat::Ident(pi) => {
                            let Some((src, arg, arg_text)) = slice_ref_call(cbody) else {
                                return Err(fail("closure body is not a slice_ref_unchecked call"));
                            };
                            let adopt = if arg.as_deref() == Some(&pi.ident.to_string()) {
                                Adopt::SliceRef(src)
                            } else {
                                Adopt::NotAdopted(format!("slice_ref_unchecked({arg_text})"))
                            };
                            return Ok(mk(call, ".option", adopt, vec![0]));
                        }
                        // T4
                        Pat::Tuple(pt) => {
                            let mut binds = vec![];
                            for el in &pt.elems {
                                let Pat::Ident(pi) = el else {
                                    return Err(fail("closure tuple pattern"));
                                };
                                binds.push(pi.ident.to_string());
                            }
                            let Expr::Tuple(tu) = cbody else {
                                return Err(fail("closure body is not a tuple"));
                            };
                            if tu.elems.len() != binds.len() || binds.len() != 2 {
                                return Err(fail("tuple arity"));
                            }
                            let mut srcs = vec![];
                            let mut comps = vec![];
                            let mut bad: Option<String> = None;
                            for el in &tu.elems {
                                let Some((src, arg, arg_text)) = slice_ref_call(el) else {
                                    return Err(fail("tuple component is not a slice_ref_unchecked call"));
                                };
                                srcs.push(src);
                                match arg.and_then(|a| binds.iter().position(|b| *b == a)) {
                                    Some(i) => comps.push(i),
                                    None => bad = Some(arg_text),
                                }
                            }
                            let adopt = match bad {
                                Some(t) => Adopt::NotAdopted(format!("slice_ref_unchecked({t})")),
                                None => Adopt::SliceRef(same_src(&srcs)),
                            };
                            return Ok(mk(call, ".optionPair", adopt, comps));
                        }
                        _ => return Err(fail("closure parameter")),
                    }
                }
            }
            Err(fail(&format!("method call `.{m}(…)`")))
        }
        _ => Err(fail(&format!("expression `{}`", text(body)))),
    }
}

struct TokenFinder {
    found: bool,
}
impl TokenFinder {
    fn scan(&mut self, ts: TokenStream) {
        for tt in ts {
            match tt {
                TokenTree::Ident(i) if i == "slice_ref_unchecked" || i == "IterWrapper" => self.found = true,
                TokenTree::Group(g) => self.scan(g.stream()),
                _ => {}
            }
        }
    }
}

fn hipstr_inherent_fns(file: &SrcFile) -> Vec<&ImplItemFn> {
    let mut v = vec![];
    for item in &file.ast.items {
        let Item::Impl(imp) = item else { continue };
        if imp.trait_.is_some() {
            continue;
        }
        let Type::Path(tp) = &*imp.self_ty else { continue };
        if last_seg(&tp.path) != "HipStr" {
            continue;
        }
        for ii in &imp.items {
            if let ImplItem::Fn(f) = ii {
                v.push(f);
            }
        }
    }
    v
}

struct SliceRefRow {
    callee: String,
    conv: String,
    recv: Recv,
    loc: String,
}

/// `let X = P.conv(); unsafe { Self(RECV.callee(X)) }`
fn slice_ref_row(file: &SrcFile, f: &ImplItemFn) -> Result<SliceRefRow, String> {
    let l = loc(file, f.sig.span());
    let fail = |what: &str| format!("Gen/Wiring: HipStr::slice_ref_unchecked at {l}: {what}");
    let slice_param = f
        .sig
        .inputs
        .iter()
        .filter_map(|a| match a {
            FnArg::Typed(pt) => match &*pt.pat {
                Pat::Ident(pi) => Some(pi.ident.to_string()),
                _ => None,
            },
            _ => None,
        })
        .collect::<Vec<_>>();
    let [slice_param] = slice_param.as_slice() else {
        return Err(fail("expected one parameter besides self"));
    };
    let [Stmt::Local(local), Stmt::Expr(tail, None)] = f.block.stmts.as_slice() else {
        return Err(fail("expected `let …; unsafe { … }`"));
    };
    let (Pat::Ident(bind), Some(init)) = (&local.pat, &local.init) else {
        return Err(fail("let shape"));
    };
    let Expr::MethodCall(conv) = strip(&init.expr) else {
        return Err(fail("let initialiser is not a method call"));
    };
    if !conv.args.is_empty() || path_ident(strip(&conv.receiver)).as_deref() != Some(slice_param.as_str()) {
        return Err(fail("let initialiser is not `<param>.conv()`"));
    }
    let Expr::Call(c) = strip(tail) else {
        return Err(fail("tail is not `Self(…)`"));
    };
    if squeeze(&text(&c.func)) != "Self" || c.args.len() != 1 {
        return Err(fail("tail is not `Self(…)`"));
    }
    let Expr::MethodCall(mc) = strip(&c.args[0]) else {
        return Err(fail("Self(…) does not wrap a method call"));
    };
    if mc.args.len() != 1 || path_ident(strip(&mc.args[0])) != Some(bind.ident.to_string()) {
        return Err(fail("the converted slice is not what is passed on"));
    }
    let recv = strip(&mc.receiver);
    let recv = if self_field(recv).as_deref() == Some("0") { Recv::SelfBytes } else { Recv::Other(text(recv)) };
    Ok(SliceRefRow { callee: mc.method.to_string(), conv: conv.method.to_string(), recv, loc: l })
}

// ---------------------------------------------------------------------------------------------
// pattern.rs: traits

struct TraitRow {
    name: String,
    sup: String,
    methods: Vec<(String, bool)>,
    loc: String,
}

const PATTERN_TRAITS: &[&str] = &["Pattern", "ReversePattern", "DoubleEndedPattern"];

fn is_usize(t: &Type) -> bool {
    squeeze(&text(t)) == "usize"
}
fn is_ref_str(t: &Type) -> bool {
    squeeze(&text(t)) == "&str"
}

/// `(self, [n: usize,] h: &str)` → (count param name, haystack param name)
fn pat_method_params(
    file: &SrcFile,
    sig: &syn::Signature,
) -> Result<(Option<String>, String), String> {
    let bad = || err_at(file, sig.span(), &format!("pattern-trait method `{}` has an unexpected parameter list", sig.ident));
    let args: Vec<&FnArg> = sig.inputs.iter().collect();
    let name_ty = |a: &FnArg| -> Option<(String, Type)> {
        if let FnArg::Typed(pt) = a {
            if let Pat::Ident(pi) = &*pt.pat {
                return Some((pi.ident.to_string(), (*pt.ty).clone()));
            }
        }
        None
    };
    let self_by_value = |a: &FnArg| matches!(a, FnArg::Receiver(r) if r.reference.is_none() && r.colon_token.is_none());
    match args.as_slice() {
        [s, h] if self_by_value(s) => {
            let (hn, ht) = name_ty(h).ok_or_else(bad)?;
            if !is_ref_str(&ht) {
                return Err(bad());
            }
            Ok((None, hn))
        }
        [s, n, h] if self_by_value(s) => {
            let (nn, nt) = name_ty(n).ok_or_else(bad)?;
            let (hn, ht) = name_ty(h).ok_or_else(bad)?;
            if !is_usize(&nt) || !is_ref_str(&ht) {
                return Err(bad());
            }
            Ok((Some(nn), hn))
        }
        _ => Err(bad()),
    }
}

fn trait_rows(file: &SrcFile) -> Result<Vec<TraitRow>, String> {
    let mut rows = vec![];
    for item in &file.ast.items {
        let Item::Trait(t) = item else { continue };
        let name = t.ident.to_string();
        if !PATTERN_TRAITS.contains(&name.as_str()) {
            continue;
        }
        let mut sup = String::new();
        for b in &t.supertraits {
            let syn::TypeParamBound::Trait(tb) = b else {
                return Err(err_at(file, b.span(), "unsupported supertrait bound"));
            };
            let s = last_seg(&tb.path);
            if s == "Sized" {
                continue;
            }
            if !PATTERN_TRAITS.contains(&s.as_str()) || !sup.is_empty() {
                return Err(err_at(file, b.span(), &format!("unexpected supertrait `{s}` of {name}")));
            }
            sup = s;
        }
        let mut methods = vec![];
        for ti in &t.items {
            match ti {
                syn::TraitItem::Fn(f) => {
                    if f.default.is_some() {
                        return Err(err_at(file, f.span(), "pattern-trait method with a default body"));
                    }
                    let (cnt, _) = pat_method_params(file, &f.sig)?;
                    methods.push((f.sig.ident.to_string(), cnt.is_some()));
                }
                syn::TraitItem::Type(_) => {}
                other => return Err(err_at(file, other.span(), "unsupported item in a pattern trait")),
            }
        }
        rows.push(TraitRow { name, sup, methods, loc: loc(file, t.ident.span()) });
    }
    for want in PATTERN_TRAITS {
        if !rows.iter().any(|r| r.name == *want) {
            return Err(format!("Gen/Wiring: trait {want} not found in {PATTERN_RS}"));
        }
    }
    Ok(rows)
}

// ---------------------------------------------------------------------------------------------
// pattern.rs: the `impl_pat!` macro definition

struct ArmRow {
    arm: String,
    trait_: String,
    method: String,
    callee: String,
    recv: String,
    pat: Pass,
    count: Pass,
    assoc: String,
    std_ty: String,
    loc: String,
}

struct ChainRow {
    arm: String,
    trait_: String,
    includes: String,
    loc: String,
}

fn arm_kind_of(tokens: &[TokenTree]) -> Result<String, String> {
    match tokens.first() {
        Some(TokenTree::Ident(i)) if i == "reverse" => Ok("reverse".into()),
        Some(TokenTree::Ident(i)) if i == "double_ended" => Ok("double_ended".into()),
        Some(TokenTree::Punct(p)) if p.as_char() == '$' => Ok("base".into()),
        Some(TokenTree::Ident(i)) if i == "for" => Ok("base".into()),
        other => Err(format!(
            "Gen/Wiring: impl_pat! arm/invocation starts with unexpected token `{}`",
            other.map(|t| t.to_string()).unwrap_or_default()
        )),
    }
}

/// `type X<'haystack> = core::str::X<'haystack, Self>;` → `core::str::X<Self>`
fn std_ty_of(ty: &Type) -> String {
    if let Type::Path(tp) = ty {
        if tp.qself.is_none() {
            let mut out = vec![];
            let n = tp.path.segments.len();
            for (i, seg) in tp.path.segments.iter().enumerate() {
                let mut s = seg.ident.to_string();
                match &seg.arguments {
                    syn::PathArguments::None => {}
                    syn::PathArguments::AngleBracketed(ab) if i + 1 == n => {
                        let tys: Vec<String> = ab
                            .args
                            .iter()
                            .filter(|a| !matches!(a, syn::GenericArgument::Lifetime(_)))
                            .map(|a| squeeze(&text(a)))
                            .collect();
                        s.push_str(&format!("<{}>", tys.join(",")));
                    }
                    _ => return squeeze(&text(ty)),
                }
                out.push(s);
            }
            return out.join("::");
        }
    }
    squeeze(&text(ty))
}

fn parse_impl_items(ts: TokenStream) -> syn::Result<Vec<ImplItem>> {
    (|input: syn::parse::ParseStream| {
        let mut v = vec![];
        while !input.is_empty() {
            v.push(input.parse::<ImplItem>()?);
        }
        Ok(v)
    })
    .parse2(ts)
}

fn arm_rows(
    file: &SrcFile,
    arm: &str,
    trait_: &str,
    body: TokenStream,
    rows: &mut Vec<ArmRow>,
) -> Result<(), String> {
    let items = parse_impl_items(body).map_err(|e| {
        format!(
            "Gen/Wiring: impl body of impl_pat! arm `{arm}` is not a plain list of impl items ({e}) at {}:{}",
            file.rel,
            e.span().start().line
        )
    })?;
    // associated types first
    let mut assoc: Vec<(String, String)> = vec![];
    for it in &items {
        if let ImplItem::Type(t) = it {
            assoc.push((t.ident.to_string(), std_ty_of(&t.ty)));
        }
    }
    for it in &items {
        match it {
            ImplItem::Type(_) => {}
            ImplItem::Fn(f) => {
                let l = loc(file, f.sig.span());
                let (cnt, hay) = pat_method_params(file, &f.sig)?;
                let Some(body) = single_expr(&f.block) else {
                    return Err(format!("Gen/Wiring: impl_pat! method {} at {l}: body is not a single expression", f.sig.ident));
                };
                let Expr::MethodCall(mc) = strip(body) else {
                    return Err(format!("Gen/Wiring: impl_pat! method {} at {l}: body is not a method call", f.sig.ident));
                };
                if mc.turbofish.is_some() {
                    return Err(format!("Gen/Wiring: impl_pat! method {} at {l}: turbofish", f.sig.ident));
                }
                let recv = strip(&mc.receiver);
                let recv = if path_ident(recv).as_deref() == Some(hay.as_str()) {
                    ".haystack".to_string()
                } else {
                    format!("(.other {})", lean_str(&text(recv)))
                };
                // std's argument order: `m(pat)` / `m(n, pat)`
                let args: Vec<&Expr> = mc.args.iter().map(strip).collect();
                let pat_slot = |a: &Expr| if is_self(a) { Pass::Unchanged } else { Pass::Other(text(a)) };
                let count_slot = |a: &Expr| match (path_ident(a), cnt.as_ref()) {
                    (Some(id), Some(c)) if id == *c => Pass::Unchanged,
                    _ => Pass::Other(text(a)),
                };
                let (count, pat) = match args.as_slice() {
                    [p] => (Pass::Absent, pat_slot(p)),
                    [c, p] => (count_slot(c), pat_slot(p)),
                    _ => {
                        return Err(format!(
                            "Gen/Wiring: impl_pat! method {} at {l}: str call with {} arguments",
                            f.sig.ident,
                            args.len()
                        ))
                    }
                };
                // `-> Self::X<'_>` names the associated iterator type
                let mut assoc_name = String::new();
                if let ReturnType::Type(_, ty) = &f.sig.output {
                    if let Type::Path(tp) = &**ty {
                        if tp.qself.is_none() && tp.path.segments.len() == 2 && tp.path.segments[0].ident == "Self" {
                            assoc_name = tp.path.segments[1].ident.to_string();
                        }
                    }
                }
                let std_ty = if assoc_name.is_empty() {
                    String::new()
                } else {
                    match assoc.iter().find(|(n, _)| *n == assoc_name) {
                        Some((_, t)) => t.clone(),
                        None => {
                            return Err(format!(
                                "Gen/Wiring: impl_pat! method {} at {l}: associated type {assoc_name} not defined in the arm",
                                f.sig.ident
                            ))
                        }
                    }
                };
                rows.push(ArmRow {
                    arm: arm.to_string(),
                    trait_: trait_.to_string(),
                    method: f.sig.ident.to_string(),
                    callee: mc.method.to_string(),
                    recv,
                    pat,
                    count,
                    assoc: assoc_name,
                    std_ty,
                    loc: l,
                });
            }
            other => return Err(err_at(file, other.span(), "unsupported item inside an impl_pat! arm")),
        }
    }
    Ok(())
}

/// Cuts the transcriber of one arm: optional `impl_pat!( … );` then
/// `impl $( <…> )? TRAIT for $t $( where … )? { ITEMS }`.
fn transcriber(
    file: &SrcFile,
    arm: &str,
    ts: TokenStream,
    arms: &mut Vec<ArmRow>,
    chain: &mut Vec<ChainRow>,
) -> Result<(), String> {
    let toks: Vec<TokenTree> = ts.into_iter().collect();
    let mut i = 0;
    let mut includes = String::new();
    let mut impls = 0;
    while i < toks.len() {
        match &toks[i] {
            TokenTree::Ident(id) if id == "impl_pat" => {
                // `impl_pat ! ( … ) ;`
                let (Some(TokenTree::Punct(bang)), Some(TokenTree::Group(g))) = (toks.get(i + 1), toks.get(i + 2)) else {
                    return Err(err_at(file, id.span(), "malformed recursive impl_pat! call"));
                };
                if bang.as_char() != '!' || !includes.is_empty() {
                    return Err(err_at(file, id.span(), "malformed or repeated recursive impl_pat! call"));
                }
                let inner: Vec<TokenTree> = g.stream().into_iter().collect();
                includes = arm_kind_of(&inner)?;
                i += 3;
                if matches!(toks.get(i), Some(TokenTree::Punct(p)) if p.as_char() == ';') {
                    i += 1;
                }
            }
            TokenTree::Ident(id) if id == "impl" => {
                let impl_span = id.span();
                i += 1;
                // optional `$( <generics> )?`
                if matches!(toks.get(i), Some(TokenTree::Punct(p)) if p.as_char() == '$') {
                    if !matches!(toks.get(i + 1), Some(TokenTree::Group(_)))
                        || !matches!(toks.get(i + 2), Some(TokenTree::Punct(p)) if p.as_char() == '?')
                    {
                        return Err(err_at(file, impl_span, "unexpected tokens after `impl` in impl_pat!"));
                    }
                    i += 3;
                }
                let Some(TokenTree::Ident(tr)) = toks.get(i) else {
                    return Err(err_at(file, impl_span, "expected the trait name after `impl` in impl_pat!"));
                };
                let trait_ = tr.to_string();
                if !PATTERN_TRAITS.contains(&trait_.as_str()) {
                    return Err(err_at(file, tr.span(), &format!("impl_pat! implements unknown trait {trait_}")));
                }
                // `for $t`
                let ok_for = matches!(toks.get(i + 1), Some(TokenTree::Ident(f)) if f == "for")
                    && matches!(toks.get(i + 2), Some(TokenTree::Punct(p)) if p.as_char() == '$')
                    && matches!(toks.get(i + 3), Some(TokenTree::Ident(t)) if t == "t");
                if !ok_for {
                    return Err(err_at(file, tr.span(), "expected `for $t` in impl_pat!"));
                }
                i += 4;
                // optional `$( where … )?`
                if matches!(toks.get(i), Some(TokenTree::Punct(p)) if p.as_char() == '$') {
                    if !matches!(toks.get(i + 1), Some(TokenTree::Group(_)))
                        || !matches!(toks.get(i + 2), Some(TokenTree::Punct(p)) if p.as_char() == '?')
                    {
                        return Err(err_at(file, impl_span, "unexpected tokens before the impl body in impl_pat!"));
                    }
                    i += 3;
                }
                let Some(TokenTree::Group(body)) = toks.get(i) else {
                    return Err(err_at(file, impl_span, "expected the impl body in impl_pat!"));
                };
                if body.delimiter() != Delimiter::Brace {
                    return Err(err_at(file, impl_span, "expected a braced impl body in impl_pat!"));
                }
                arm_rows(file, arm, &trait_, body.stream(), arms)?;
                chain.push(ChainRow {
                    arm: arm.to_string(),
                    trait_,
                    includes: String::new(),
                    loc: loc(file, impl_span),
                });
                impls += 1;
                i += 1;
            }
            other => {
                return Err(err_at(
                    file,
                    other.span(),
                    &format!("unexpected token `{other}` in the transcriber of impl_pat! arm `{arm}`"),
                ))
            }
        }
    }
    if impls != 1 {
        return Err(format!("Gen/Wiring: impl_pat! arm `{arm}` contains {impls} impls (expected 1)"));
    }
    chain.last_mut().unwrap().includes = includes;
    Ok(())
}

fn macro_def(file: &SrcFile, arms: &mut Vec<ArmRow>, chain: &mut Vec<ChainRow>) -> Result<(), String> {
    let mut found = false;
    for item in &file.ast.items {
        let Item::Macro(m) = item else { continue };
        if !m.mac.path.is_ident("macro_rules") || m.ident.as_ref().map_or(true, |i| i != "impl_pat") {
            continue;
        }
        if found {
            return Err("Gen/Wiring: impl_pat! defined twice".into());
        }
        found = true;
        let toks: Vec<TokenTree> = m.mac.tokens.clone().into_iter().collect();
        let mut i = 0;
        while i < toks.len() {
            // `( matcher ) => { transcriber } ;`
            let (Some(TokenTree::Group(matcher)), Some(TokenTree::Punct(eq)), Some(TokenTree::Punct(gt)), Some(TokenTree::Group(body))) =
                (toks.get(i), toks.get(i + 1), toks.get(i + 2), toks.get(i + 3))
            else {
                return Err(err_at(file, toks[i].span(), "malformed macro_rules arm in impl_pat!"));
            };
            if eq.as_char() != '=' || gt.as_char() != '>' {
                return Err(err_at(file, toks[i].span(), "malformed macro_rules arm in impl_pat!"));
            }
            let mt: Vec<TokenTree> = matcher.stream().into_iter().collect();
            let kind = arm_kind_of(&mt)?;
            if chain.iter().any(|c| c.arm == kind) {
                return Err(err_at(file, toks[i].span(), &format!("two impl_pat! arms of kind `{kind}`")));
            }
            transcriber(file, &kind, body.stream(), arms, chain)?;
            i += 4;
            if matches!(toks.get(i), Some(TokenTree::Punct(p)) if p.as_char() == ';') {
                i += 1;
            }
        }
    }
    if !found {
        return Err(format!("Gen/Wiring: macro impl_pat! not found in {PATTERN_RS}"));
    }
    Ok(())
}

// ---------------------------------------------------------------------------------------------
// pattern.rs: invocations

struct InvRow {
    arm: String,
    ty: String,
    where_cl: String,
    loc: String,
}

fn canon_ty(t: &Type) -> Result<String, String> {
    Ok(match t {
        Type::Reference(r) if r.mutability.is_none() => format!("&{}", canon_ty(&r.elem)?),
        Type::Path(p) if p.qself.is_none() && p.path.get_ident().is_some() => p.path.get_ident().unwrap().to_string(),
        Type::Slice(s) => format!("[{}]", canon_ty(&s.elem)?),
        Type::Array(a) => format!("[{}; {}]", canon_ty(&a.elem)?, squeeze(&text(&a.len))),
        Type::Paren(p) => canon_ty(&p.elem)?,
        other => return Err(format!("Gen/Wiring: unsupported pattern type `{}` in an impl_pat! invocation", text(other))),
    })
}

fn invocations(file: &SrcFile) -> Result<Vec<InvRow>, String> {
    let mut rows = vec![];
    for item in &file.ast.items {
        let Item::Macro(m) = item else { continue };
        if !m.mac.path.is_ident("impl_pat") {
            continue;
        }
        let l = loc(file, m.mac.path.span());
        let toks: Vec<TokenTree> = m.mac.tokens.clone().into_iter().collect();
        let arm = arm_kind_of(&toks).or_else(|e| {
            // an invocation of the base arm may start with `<`
            match toks.first() {
                Some(TokenTree::Punct(p)) if p.as_char() == '<' => Ok("base".to_string()),
                _ => Err(format!("{e} at {l}")),
            }
        })?;
        let Some(pos) = toks.iter().position(|t| matches!(t, TokenTree::Ident(i) if i == "for")) else {
            return Err(format!("Gen/Wiring: impl_pat! invocation without `for` at {l}"));
        };
        let rest = &toks[pos + 1..];
        let wpos = rest.iter().position(|t| matches!(t, TokenTree::Ident(i) if i == "where"));
        let (ty_toks, where_toks) = match wpos {
            Some(w) => (&rest[..w], &rest[w + 1..]),
            None => (rest, &rest[rest.len()..]),
        };
        let ty_ts: TokenStream = ty_toks.iter().cloned().collect();
        let ty: Type = syn::parse2(ty_ts).map_err(|e| format!("Gen/Wiring: impl_pat! invocation at {l}: type does not parse ({e})"))?;
        let where_ts: TokenStream = where_toks.iter().cloned().collect();
        rows.push(InvRow { arm, ty: canon_ty(&ty).map_err(|e| format!("{e} at {l}"))?, where_cl: squeeze(&where_ts.to_string()), loc: l });
    }
    if rows.is_empty() {
        return Err(format!("Gen/Wiring: no impl_pat! invocation in {PATTERN_RS}"));
    }
    Ok(rows)
}

// ---------------------------------------------------------------------------------------------
// pattern.rs: Adopt impls and IterWrapper

struct AdoptRow {
    item_ty: String,
    out: Vec<String>,
    loc: String,
}

fn proj_of_self(e: &Expr) -> Option<Option<usize>> {
    let e = strip(e);
    if is_self(e) {
        return Some(None);
    }
    self_field(e).and_then(|f| f.parse::<usize>().ok()).map(Some)
}

fn adopt_comp(e: &Expr, source_param: &str) -> String {
    let e = strip(e);
    if let Expr::MethodCall(mc) = e {
        if mc.method == "slice_ref_unchecked" && mc.args.len() == 1 {
            let recv = strip(&mc.receiver);
            let src = if path_ident(recv).as_deref() == Some(source_param) {
                Src::SourceParam
            } else {
                Src::Other(text(recv))
            };
            if let Some(p) = proj_of_self(&mc.args[0]) {
                let p = match p {
                    None => "none".to_string(),
                    Some(i) => format!("(some {i})"),
                };
                return format!(".adoptStr {} {p}", src.lean());
            }
        }
    }
    if let Some(Some(i)) = proj_of_self(e) {
        return format!(".idx {i}");
    }
    format!(".other {}", lean_str(&text(e)))
}

fn impl_self_name(imp: &syn::ItemImpl) -> String {
    match &*imp.self_ty {
        Type::Path(tp) => last_seg(&tp.path),
        _ => String::new(),
    }
}

fn adopt_rows(file: &SrcFile) -> Result<Vec<AdoptRow>, String> {
    let mut rows = vec![];
    for item in &file.ast.items {
        let Item::Impl(imp) = item else { continue };
        let Some((_, tr, _)) = &imp.trait_ else { continue };
        if last_seg(tr) != "Adopt" {
            continue;
        }
        let item_ty = squeeze(&text(&imp.self_ty));
        let fns: Vec<&ImplItemFn> = imp.items.iter().filter_map(|i| if let ImplItem::Fn(f) = i { Some(f) } else { None }).collect();
        let [f] = fns.as_slice() else {
            return Err(err_at(file, imp.span(), "Adopt impl without exactly one fn"));
        };
        if f.sig.ident != "adopt_unchecked" {
            return Err(err_at(file, f.sig.span(), "Adopt impl fn is not adopt_unchecked"));
        }
        let names: Vec<String> = f
            .sig
            .inputs
            .iter()
            .filter_map(|a| match a {
                FnArg::Typed(pt) => match &*pt.pat {
                    Pat::Ident(pi) => Some(pi.ident.to_string()),
                    _ => None,
                },
                _ => None,
            })
            .collect();
        let [source] = names.as_slice() else {
            return Err(err_at(file, f.sig.span(), "adopt_unchecked parameter list"));
        };
        let Some(body) = single_expr(&f.block) else {
            return Err(err_at(file, f.sig.span(), "adopt_unchecked body is not a single expression"));
        };
        let body = strip(body);
        let out = match body {
            Expr::Tuple(t) => t.elems.iter().map(|e| adopt_comp(e, source)).collect(),
            e => vec![adopt_comp(e, source)],
        };
        rows.push(AdoptRow { item_ty, out, loc: loc(file, f.sig.span()) });
    }
    if rows.is_empty() {
        return Err(format!("Gen/Wiring: no Adopt impl in {PATTERN_RS}"));
    }
    Ok(rows)
}

struct FwdRow {
    trait_: String,
    method: String,
    callee: String,
    recv: String,
    args: Pass,
    item: String,
    inner_bounds: Vec<String>,
    item_adopt: bool,
    loc: String,
}

/// the iterator traits whose impls for `IterWrapper` are read method by method
const ITER_TRAITS: &[&str] = &["Iterator", "DoubleEndedIterator", "FusedIterator", "ExactSizeIterator"];

struct NewRow {
    params: Vec<String>,
    fields: Vec<(String, String)>,
    loc: String,
}

fn iter_wrapper(file: &SrcFile) -> Result<(Vec<FwdRow>, Vec<String>, NewRow), String> {
    let mut fwd = vec![];
    let mut traits = vec![];
    let mut new_row = None;
    for item in &file.ast.items {
        let Item::Impl(imp) = item else { continue };
        if impl_self_name(imp) != "IterWrapper" {
            continue;
        }
        match &imp.trait_ {
            None => {
                for ii in &imp.items {
                    let ImplItem::Fn(f) = ii else { continue };
                    if f.sig.ident != "new" {
                        return Err(err_at(file, f.sig.span(), &format!("unknown inherent fn IterWrapper::{}", f.sig.ident)));
                    }
                    let params: Vec<String> = f
                        .sig
                        .inputs
                        .iter()
                        .map(|a| match a {
                            FnArg::Typed(pt) => squeeze(&text(&pt.pat)),
                            FnArg::Receiver(_) => "self".into(),
                        })
                        .collect();
                    let Some(Expr::Struct(st)) = single_expr(&f.block).map(strip) else {
                        return Err(err_at(file, f.sig.span(), "IterWrapper::new body is not a struct literal"));
                    };
                    if squeeze(&text(&st.path)) != "Self" || st.rest.is_some() {
                        return Err(err_at(file, f.sig.span(), "IterWrapper::new body is not `Self { … }`"));
                    }
                    let fields = st
                        .fields
                        .iter()
                        .map(|fv| (squeeze(&text(&fv.member)), squeeze(&text(&fv.expr))))
                        .collect();
                    new_row = Some(NewRow { params, fields, loc: loc(file, f.sig.span()) });
                }
            }
            Some((_, tr, _)) => {
                let tname = last_seg(tr);
                traits.push(tname.clone());
                // one row per method DEFINED in an iterator-trait impl; other traits (Clone, …) by name only
                if !ITER_TRAITS.contains(&tname.as_str()) {
                    continue;
                }
                // inner iterator type parameter = last generic argument of the self type
                let Type::Path(tp) = &*imp.self_ty else { unreachable!() };
                let syn::PathArguments::AngleBracketed(ab) = &tp.path.segments.last().unwrap().arguments else {
                    return Err(err_at(file, imp.span(), "IterWrapper impl without generic arguments"));
                };
                let Some(syn::GenericArgument::Type(inner_ty)) = ab.args.last() else {
                    return Err(err_at(file, imp.span(), "IterWrapper impl: last generic argument is not a type"));
                };
                let inner_name = squeeze(&text(inner_ty));
                let mut inner_bounds = vec![];
                let mut item_adopt = false;
                let mut add_bounds = |bounded: String, bounds: &syn::punctuated::Punctuated<syn::TypeParamBound, syn::Token![+]>| {
                    for b in bounds {
                        if let syn::TypeParamBound::Trait(tb) = b {
                            let n = last_seg(&tb.path);
                            if bounded == inner_name {
                                inner_bounds.push(n);
                            } else if bounded == format!("{inner_name}::Item") && n == "Adopt" {
                                item_adopt = true;
                            }
                        }
                    }
                };
                for gp in &imp.generics.params {
                    if let syn::GenericParam::Type(t) = gp {
                        add_bounds(t.ident.to_string(), &t.bounds);
                    }
                }
                if let Some(wc) = &imp.generics.where_clause {
                    for p in &wc.predicates {
                        if let syn::WherePredicate::Type(pt) = p {
                            add_bounds(squeeze(&text(&pt.bounded_ty)), &pt.bounds);
                        }
                    }
                }
                for ii in &imp.items {
                    let f = match ii {
                        ImplItem::Fn(f) => f,
                        ImplItem::Type(_) => continue,
                        other => return Err(err_at(file, other.span(), "unsupported item in an IterWrapper impl")),
                    };
                    let l = loc(file, f.sig.span());
                    let fail = |what: &str| format!("Gen/Wiring: IterWrapper {tname}::{} at {l}: {what}", f.sig.ident);
                    let Some(body) = single_expr(&f.block) else {
                        return Err(fail("body is not a single expression"));
                    };
                    let Expr::MethodCall(outer) = strip(body) else {
                        return Err(fail("body is not a method call"));
                    };
                    // `self.inner.M(args)` possibly followed by `.map(|item| unsafe { item.adopt_unchecked(SRC) })`
                    let (inner_call, item) = if outer.method == "map" && outer.args.len() == 1 && matches!(strip(&outer.receiver), Expr::MethodCall(_)) {
                        let Expr::MethodCall(ic) = strip(&outer.receiver) else { unreachable!() };
                        let item = match strip(&outer.args[0]) {
                            Expr::Closure(cl) if cl.inputs.len() == 1 => {
                                let bind = match &cl.inputs[0] {
                                    Pat::Ident(pi) => pi.ident.to_string(),
                                    _ => return Err(fail("closure parameter")),
                                };
                                match strip(&cl.body) {
                                    Expr::MethodCall(ad)
                                        if ad.method == "adopt_unchecked"
                                            && ad.args.len() == 1
                                            && path_ident(strip(&ad.receiver)).as_deref() == Some(bind.as_str()) =>
                                    {
                                        let a = strip(&ad.args[0]);
                                        let src = if self_field(a).as_deref() == Some("source") {
                                            Src::SelfSourceField
                                        } else {
                                            Src::Other(text(a))
                                        };
                                        format!("(.adoptFrom {})", src.lean())
                                    }
                                    other => format!("(.other {})", lean_str(&text(other))),
                                }
                            }
                            other => format!("(.other {})", lean_str(&text(other))),
                        };
                        (ic, item)
                    } else {
                        (outer, ".none".to_string())
                    };
                    let r = strip(&inner_call.receiver);
                    let recv = if self_field(r).as_deref() == Some("inner") {
                        ".selfInner".to_string()
                    } else {
                        format!("(.other {})", lean_str(&text(r)))
                    };
                    // the method's own parameters, handed to the inner method as they are, in order
                    let mut params: Vec<String> = vec![];
                    for a in &f.sig.inputs {
                        if let FnArg::Typed(pt) = a {
                            match &*pt.pat {
                                Pat::Ident(pi) => params.push(pi.ident.to_string()),
                                _ => return Err(fail("parameter pattern")),
                            }
                        }
                    }
                    let passed: Vec<Option<String>> = inner_call.args.iter().map(|a| path_ident(strip(a))).collect();
                    let args = if params.is_empty() && passed.is_empty() {
                        Pass::Absent
                    } else if passed.len() == params.len() && passed.iter().zip(&params).all(|(a, p)| a.as_ref() == Some(p)) {
                        Pass::Unchanged
                    } else {
                        Pass::Other(inner_call.args.iter().map(|a| text(a)).collect::<Vec<_>>().join(", "))
                    };
                    if inner_call.turbofish.is_some() || outer.turbofish.is_some() {
                        return Err(fail("turbofish"));
                    }
                    fwd.push(FwdRow {
                        trait_: tname.clone(),
                        method: f.sig.ident.to_string(),
                        callee: inner_call.method.to_string(),
                        recv,
                        args,
                        item,
                        inner_bounds: inner_bounds.clone(),
                        item_adopt,
                        loc: l,
                    });
                }
            }
        }
    }
    let new_row = new_row.ok_or_else(|| format!("Gen/Wiring: IterWrapper::new not found in {PATTERN_RS}"))?;
    Ok((fwd, traits, new_row))
}

// ---------------------------------------------------------------------------------------------
// every type of the crate that implements `Iterator` (closed world: a new one must be classified)

fn iter_types_in(file: &SrcFile, items: &[Item], out: &mut Vec<(String, String)>) {
    for item in items {
        match item {
            Item::Impl(imp) => {
                if let Some((_, tr, _)) = &imp.trait_ {
                    if last_seg(tr) == "Iterator" {
                        let name = impl_self_name(imp);
                        let name = if name.is_empty() { squeeze(&text(&imp.self_ty)) } else { name };
                        out.push((name, loc(file, imp.impl_token.span)));
                    }
                }
            }
            Item::Mod(m) => {
                let is_test = m.attrs.iter().any(|a| squeeze(&text(a)).contains("cfg(test)")) || m.ident == "tests";
                if let (false, Some((_, items))) = (is_test, &m.content) {
                    iter_types_in(file, items, out);
                }
            }
            _ => {}
        }
    }
}

fn iter_types(repo: &Repo) -> Vec<(String, String)> {
    let mut out = vec![];
    for f in repo.non_test_files() {
        iter_types_in(f, &f.ast.items, &mut out);
    }
    out
}

// ---------------------------------------------------------------------------------------------

fn list(items: Vec<String>) -> String {
    if items.is_empty() {
        "[]".into()
    } else {
        format!("[\n    {}\n  ]", items.join(",\n    "))
    }
}

pub fn generate(repo: &Repo) -> Result<Vec<GenFile>, String> {
    let sfile = repo.file(STRING_RS)?;
    let pfile = repo.file(PATTERN_RS)?;

    // wrappers
    let mut wrappers = vec![];
    let mut slice_ref = None;
    for f in hipstr_inherent_fns(sfile) {
        let name = f.sig.ident.to_string();
        if name == "slice_ref_unchecked" {
            slice_ref = Some(slice_ref_row(sfile, f)?);
            continue;
        }
        let mut tf = TokenFinder { found: false };
        tf.scan(quote::ToTokens::to_token_stream(&f.block));
        tf.scan(quote::ToTokens::to_token_stream(&f.sig.output));
        if tf.found || ALLOCATING.contains(&name.as_str()) {
            wrappers.push(wrapper_row(sfile, f)?);
        }
    }
    let slice_ref = slice_ref.ok_or_else(|| format!("Gen/Wiring: HipStr::slice_ref_unchecked not found in {STRING_RS}"))?;
    if wrappers.is_empty() {
        return Err(format!("Gen/Wiring: no wrapper found in {STRING_RS}"));
    }

    let traits = trait_rows(pfile)?;
    let mut arms = vec![];
    let mut chain = vec![];
    macro_def(pfile, &mut arms, &mut chain)?;
    let invs = invocations(pfile)?;
    let adopts = adopt_rows(pfile)?;
    let (fwd, iter_traits, new_row) = iter_wrapper(pfile)?;

    let mut s = String::from(HEADER);
    s.push_str("import HipVerif.Model.WiringTy\n\nnamespace HipVerif.Gen.Wiring\nopen HipVerif.Wiring\n\n");
    s.push_str("/-- What `src/string.rs` and `src/string/pattern.rs` literally say (one row per wrapper / macro-arm method / impl). -/\n");
    s.push_str("def tables : Tables where\n");
    s.push_str(&format!(
        "  wrappers := {}\n",
        list(wrappers
            .iter()
            .map(|w| format!(
                "⟨{}, {}, {}, {}, {}, {}, {}, {}, [{}], {}, {}⟩",
                lean_str(&w.name),
                w.call.via.lean(),
                lean_str(&w.call.callee),
                w.call.recv.lean(),
                w.call.pat.lean(),
                w.call.count.lean(),
                w.shape,
                w.adopt.lean(),
                w.comps.iter().map(|c| c.to_string()).collect::<Vec<_>>().join(", "),
                w.ret,
                lean_str(&w.loc)
            ))
            .collect())
    ));
    s.push_str(&format!(
        "  arms := {}\n",
        list(arms
            .iter()
            .map(|a| format!(
                "⟨{}, {}, {}, {}, {}, {}, {}, {}, {}, {}⟩",
                lean_str(&a.arm),
                lean_str(&a.trait_),
                lean_str(&a.method),
                lean_str(&a.callee),
                a.recv,
                a.pat.lean(),
                a.count.lean(),
                lean_str(&a.assoc),
                lean_str(&a.std_ty),
                lean_str(&a.loc)
            ))
            .collect())
    ));
    s.push_str(&format!(
        "  chain := {}\n",
        list(chain
            .iter()
            .map(|c| format!(
                "⟨{}, {}, {}, {}⟩",
                lean_str(&c.arm),
                lean_str(&c.trait_),
                lean_str(&c.includes),
                lean_str(&c.loc)
            ))
            .collect())
    ));
    s.push_str(&format!(
        "  invocations := {}\n",
        list(invs
            .iter()
            .map(|i| format!(
                "⟨{}, {}, {}, {}⟩",
                lean_str(&i.arm),
                lean_str(&i.ty),
                lean_str(&i.where_cl),
                lean_str(&i.loc)
            ))
            .collect())
    ));
    s.push_str(&format!(
        "  traits := {}\n",
        list(traits
            .iter()
            .map(|t| format!(
                "⟨{}, {}, [{}], {}⟩",
                lean_str(&t.name),
                lean_str(&t.sup),
                t.methods
                    .iter()
                    .map(|(m, c)| format!("({}, {c})", lean_str(m)))
                    .collect::<Vec<_>>()
                    .join(", "),
                lean_str(&t.loc)
            ))
            .collect())
    ));
    s.push_str(&format!(
        "  adopts := {}\n",
        list(adopts
            .iter()
            .map(|a| format!("⟨{}, [{}], {}⟩", lean_str(&a.item_ty), a.out.join(", "), lean_str(&a.loc)))
            .collect())
    ));
    s.push_str(&format!(
        "  forwards := {}\n",
        list(fwd
            .iter()
            .map(|f| format!(
                "⟨{}, {}, {}, {}, {}, {}, [{}], {}, {}⟩",
                lean_str(&f.trait_),
                lean_str(&f.method),
                lean_str(&f.callee),
                f.recv,
                f.args.lean(),
                f.item,
                f.inner_bounds.iter().map(|b| lean_str(b)).collect::<Vec<_>>().join(", "),
                f.item_adopt,
                lean_str(&f.loc)
            ))
            .collect())
    ));
    s.push_str(&format!(
        "  iterTypes := [{}]\n",
        iter_types(repo).iter().map(|(n, l)| format!("({}, {})", lean_str(n), lean_str(l))).collect::<Vec<_>>().join(", ")
    ));
    s.push_str(&format!(
        "  iterTraits := [{}]\n",
        iter_traits.iter().map(|t| lean_str(t)).collect::<Vec<_>>().join(", ")
    ));
    s.push_str(&format!(
        "  iterNew := ⟨[{}], [{}], {}⟩\n",
        new_row.params.iter().map(|p| lean_str(p)).collect::<Vec<_>>().join(", "),
        new_row
            .fields
            .iter()
            .map(|(f, e)| format!("({}, {})", lean_str(f), lean_str(e)))
            .collect::<Vec<_>>()
            .join(", "),
        lean_str(&new_row.loc)
    ));
    s.push_str(&format!(
        "  sliceRef := ⟨{}, {}, {}, {}⟩\n",
        lean_str(&slice_ref.callee),
        lean_str(&slice_ref.conv),
        slice_ref.recv.lean(),
        lean_str(&slice_ref.loc)
    ));
    s.push_str("\n/-- The flattened table `Props.C11.wiring_ok` quantifies over. -/\ndef table : List Row := tables.rows\n");
    s.push_str("\nend HipVerif.Gen.Wiring\n");
    Ok(vec![GenFile { name: "Wiring.lean".into(), content: s }])
}
