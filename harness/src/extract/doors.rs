//! "Doors" table (property C06, signature part): for every publicly callable fn whose return
//! type mentions `HipStr` / `HipOsStr` / `HipPath`, the CLASS of each input type — read off the
//! signature only — whether the fn is `unsafe`, and whether the return type is fallible
//! (`Result<…>` / `Option<…>` outermost).
//!
//! Submodule of `extract/pubfns.rs` (declared there with `#[path]`): the rows are computed while
//! the public-function table is built (same reachability), and `pubfns::generate` writes
//! `Gen/Doors.lean` next to `Gen/PubFns.lean`.
//!
//! Input classes (fail closed: anything not recognised is `.other`, which no theorem accepts
//! for an infallible producer):
//! * `strLike`  — `str`, `String`, `char`, `HipStr`, `Box`/`Cow`/`&`/slices/`Option` of those,
//!   generic parameters bounded by `AsRef<str>` or iterating over str-like items, the `string`
//!   module's guards/errors/iterators that hold a `HipStr`;
//! * `osLike`   — `OsStr`, `OsString`, `Path`, `PathBuf`, `HipOsStr`, `HipPath`, wrappers thereof,
//!   `AsRef<OsStr>` / `AsRef<Path>` parameters, the `os_string`/`path` guards;
//! * `bytesLike`— `u8`/`u16` slices, arrays and vectors, `HipByt`, `BStr`/`BString`,
//!   `AsRef<[u8]>` parameters, `FromUtf8Error` (it carries the rejected bytes), the `bytes`
//!   module's guards/errors;
//! * `decoder`  — a structured byte source that the fn decodes itself: `D: Deserializer<'de>`,
//!   `R: io::Read`;
//! * `scalar`   — integers, `bool`, ranges, `RangeBounds<usize>`, pattern parameters
//!   (`Pattern`, `FnMut(char) -> bool`): carry no content;
//! * `other`.

use std::collections::BTreeMap;

use super::super::autotraits::{CrateModel, DefKind, Res};
use super::{norm_tokens, Owner, ProbeCall};

#[derive(Clone, Copy, PartialEq, Eq, PartialOrd, Ord, Debug)]
pub enum InClass {
    StrLike,
    OsLike,
    BytesLike,
    Decoder,
    Scalar,
    Other,
}

impl InClass {
    fn lean(self) -> &'static str {
        match self {
            InClass::StrLike => ".strLike",
            InClass::OsLike => ".osLike",
            InClass::BytesLike => ".bytesLike",
            InClass::Decoder => ".decoder",
            InClass::Scalar => ".scalar",
            InClass::Other => ".other",
        }
    }
}

#[derive(Clone, Debug)]
pub struct Door {
    pub produces_str: bool,
    pub produces_os: bool,
    pub produces_path: bool,
    pub inputs: Vec<InClass>,
    pub fallible: bool,
    /// `inputs -> output`, for display
    pub sig: String,
    /// a client-side call (for the probe of a row a theorem flags)
    pub call: Result<ProbeCall, String>,
}

struct Cx<'a, 'r> {
    cm: &'a CrateModel<'r>,
    module: usize,
    /// bounds of the type parameters in scope (impl + fn), as syn bounds
    bounds: BTreeMap<String, Vec<syn::TypeParamBound>>,
    self_syn: Option<&'a syn::Type>,
    assoc: &'a [(String, syn::Type)],
}

fn last_args(p: &syn::Path) -> Vec<&syn::Type> {
    let mut v = vec![];
    if let Some(seg) = p.segments.last() {
        if let syn::PathArguments::AngleBracketed(ab) = &seg.arguments {
            for a in &ab.args {
                match a {
                    syn::GenericArgument::Type(t) => v.push(t),
                    syn::GenericArgument::AssocType(at) => v.push(&at.ty),
                    _ => {}
                }
            }
        }
    }
    v
}

fn bare(p: &syn::Path) -> syn::Path {
    let mut b = p.clone();
    for s in b.segments.iter_mut() {
        s.arguments = syn::PathArguments::None;
    }
    b
}

impl<'a, 'r> Cx<'a, 'r> {
    fn collect_bounds(&mut self, g: &syn::Generics) {
        for p in &g.params {
            if let syn::GenericParam::Type(t) = p {
                self.bounds
                    .entry(t.ident.to_string())
                    .or_default()
                    .extend(t.bounds.iter().cloned());
            }
        }
        if let Some(wc) = &g.where_clause {
            for pred in &wc.predicates {
                if let syn::WherePredicate::Type(pt) = pred {
                    if let syn::Type::Path(tp) = &pt.bounded_ty {
                        if let Some(id) = tp.path.get_ident() {
                            self.bounds
                                .entry(id.to_string())
                                .or_default()
                                .extend(pt.bounds.iter().cloned());
                        }
                    }
                }
            }
        }
    }

    /// class of something described by trait bounds (a type parameter or `impl Trait`)
    fn class_of_bounds<'b>(&self, bounds: impl Iterator<Item = &'b syn::TypeParamBound>, depth: usize) -> InClass {
        let mut best: Option<InClass> = None;
        for b in bounds {
            let syn::TypeParamBound::Trait(tb) = b else { continue };
            let last = tb.path.segments.last().map(|s| s.ident.to_string()).unwrap_or_default();
            let args = last_args(&tb.path);
            let c = match last.as_str() {
                "AsRef" | "Borrow" | "Into" => args.first().map(|t| self.class(t, depth + 1)),
                "IntoIterator" | "Iterator" | "DoubleEndedIterator" | "ExactSizeIterator" => {
                    args.first().map(|t| self.class(t, depth + 1))
                }
                "RangeBounds" => Some(InClass::Scalar),
                "Pattern" | "ReversePattern" | "DoubleEndedPattern" | "FnMut" | "Fn" | "FnOnce" => {
                    Some(InClass::Scalar)
                }
                "Deserializer" | "Read" => Some(InClass::Decoder),
                "Sized" | "Clone" | "Copy" | "Backend" | "Default" => None,
                _ => Some(InClass::Other),
            };
            if let Some(c) = c {
                best = Some(match best {
                    None => c,
                    Some(prev) => prev.max(c),
                });
            }
        }
        best.unwrap_or(InClass::Other)
    }

    fn class(&self, t: &syn::Type, depth: usize) -> InClass {
        if depth > 12 {
            return InClass::Other;
        }
        match t {
            syn::Type::Paren(p) => self.class(&p.elem, depth + 1),
            syn::Type::Group(p) => self.class(&p.elem, depth + 1),
            syn::Type::Reference(r) => self.class(&r.elem, depth + 1),
            syn::Type::Slice(s) => self.class(&s.elem, depth + 1),
            syn::Type::Array(a) => self.class(&a.elem, depth + 1),
            syn::Type::Tuple(tu) => tu
                .elems
                .iter()
                .map(|e| self.class(e, depth + 1))
                .max()
                .unwrap_or(InClass::Scalar),
            syn::Type::ImplTrait(it) => self.class_of_bounds(it.bounds.iter(), depth + 1),
            syn::Type::Path(tp) => {
                if tp.qself.is_some() {
                    return InClass::Other;
                }
                let p = &tp.path;
                if let Some(id) = p.get_ident() {
                    let n = id.to_string();
                    if n == "Self" {
                        return match self.self_syn {
                            Some(s) => self.class(s, depth + 1),
                            None => InClass::Other,
                        };
                    }
                    if let Some(bs) = self.bounds.get(&n) {
                        return self.class_of_bounds(bs.iter(), depth + 1);
                    }
                }
                let first = p.segments[0].ident.to_string();
                if p.segments.len() > 1 && (first == "Self" || self.bounds.contains_key(&first)) {
                    // `S::Item`, `Self::Error` …
                    return InClass::Other;
                }
                let Ok((res, rest)) = self.cm.resolve_syn(self.module, &bare(p)) else {
                    return InClass::Other;
                };
                if !rest.is_empty() {
                    return InClass::Other;
                }
                let args = last_args(p);
                match res {
                    Res::Prim(n) => match n.as_str() {
                        "str" | "char" => InClass::StrLike,
                        "u8" | "u16" => InClass::BytesLike,
                        "usize" | "u32" | "u64" | "isize" | "i32" | "i64" | "bool" => InClass::Scalar,
                        _ => InClass::Other,
                    },
                    Res::External(path) => {
                        let full = path.join("::");
                        let tail = full.rsplit("::").next().unwrap_or("");
                        match tail {
                            "String" => InClass::StrLike,
                            "OsStr" | "OsString" | "Path" | "PathBuf" => InClass::OsLike,
                            "BStr" | "BString" => InClass::BytesLike,
                            "Box" | "Cow" | "Vec" | "Option" | "Rc" | "Arc" => args
                                .first()
                                .map_or(InClass::Other, |a| self.class(a, depth + 1)),
                            "Range" | "RangeFull" | "RangeInclusive" | "RangeTo" | "RangeFrom" => {
                                InClass::Scalar
                            }
                            _ => InClass::Other,
                        }
                    }
                    Res::Def(d) => match &self.cm.defs[d].kind {
                        DefKind::Alias(a) => {
                            // aliases without parameters only (`Owned`, `Slice`)
                            if a.generics.params.is_empty() {
                                let sub = Cx {
                                    cm: self.cm,
                                    module: self.cm.defs[d].module,
                                    bounds: BTreeMap::new(),
                                    self_syn: None,
                                    assoc: &[],
                                };
                                sub.class(&a.ty, depth + 1)
                            } else {
                                InClass::Other
                            }
                        }
                        DefKind::Struct(_) | DefKind::Enum(_) | DefKind::Union(_) => {
                            match self.cm.def_path(d).as_str() {
                                "string::HipStr" | "string::SliceError" | "string::RefMut"
                                | "string::pattern::IterWrapper" => InClass::StrLike,
                                "os_string::HipOsStr" | "path::HipPath" | "os_string::RefMut"
                                | "path::RefMut" => InClass::OsLike,
                                "bytes::raw::HipByt" | "bytes::SliceError" | "bytes::RefMut"
                                | "string::FromUtf8Error" => InClass::BytesLike,
                                _ => InClass::Other,
                            }
                        }
                        _ => InClass::Other,
                    },
                }
            }
            _ => InClass::Other,
        }
    }

    /// which Hip string types does the type mention? (str, os, path)
    fn produces(&self, t: &syn::Type, out: &mut (bool, bool, bool), depth: usize) {
        if depth > 12 {
            return;
        }
        match t {
            syn::Type::Paren(p) => self.produces(&p.elem, out, depth + 1),
            syn::Type::Group(p) => self.produces(&p.elem, out, depth + 1),
            syn::Type::Reference(r) => self.produces(&r.elem, out, depth + 1),
            syn::Type::Slice(s) => self.produces(&s.elem, out, depth + 1),
            syn::Type::Array(a) => self.produces(&a.elem, out, depth + 1),
            syn::Type::Tuple(tu) => {
                for e in &tu.elems {
                    self.produces(e, out, depth + 1);
                }
            }
            syn::Type::Path(tp) => {
                if let Some(q) = &tp.qself {
                    self.produces(&q.ty, out, depth + 1);
                }
                let p = &tp.path;
                for seg in &p.segments {
                    if let syn::PathArguments::AngleBracketed(ab) = &seg.arguments {
                        for a in &ab.args {
                            match a {
                                syn::GenericArgument::Type(x) => self.produces(x, out, depth + 1),
                                syn::GenericArgument::AssocType(at) => self.produces(&at.ty, out, depth + 1),
                                _ => {}
                            }
                        }
                    }
                }
                let first = p.segments[0].ident.to_string();
                if tp.qself.is_none() && first == "Self" {
                    if p.segments.len() == 1 {
                        if let Some(s) = self.self_syn {
                            self.produces(s, out, depth + 1);
                        }
                    } else if p.segments.len() == 2 {
                        let name = p.segments[1].ident.to_string();
                        if let Some((_, ty)) = self.assoc.iter().find(|(n, _)| *n == name) {
                            self.produces(ty, out, depth + 1);
                        }
                    }
                    return;
                }
                if let Ok((Res::Def(d), _)) = self.cm.resolve_syn(self.module, &bare(p)) {
                    match self.cm.def_path(d).as_str() {
                        // the iterator wrapper and the private `Adopt` projection yield HipStr items
                        "string::HipStr" | "string::pattern::IterWrapper" | "string::pattern::Adopt" => out.0 = true,
                        "os_string::HipOsStr" => out.1 = true,
                        "path::HipPath" => out.2 = true,
                        _ => {}
                    }
                }
            }
            _ => {}
        }
    }
}

fn outermost_fallible(t: &syn::Type) -> bool {
    match t {
        syn::Type::Paren(p) => outermost_fallible(&p.elem),
        syn::Type::Group(p) => outermost_fallible(&p.elem),
        syn::Type::Path(tp) => tp
            .path
            .segments
            .last()
            .map_or(false, |s| s.ident == "Result" || s.ident == "Option"),
        _ => false,
    }
}

pub(super) fn classify(
    cm: &CrateModel,
    module: usize,
    owner: &Owner,
    sig: &syn::Signature,
    call: impl FnOnce() -> Result<ProbeCall, String>,
) -> Option<Door> {
    let syn::ReturnType::Type(_, ret) = &sig.output else {
        return None;
    };
    let mut cx = Cx {
        cm,
        module,
        bounds: BTreeMap::new(),
        self_syn: owner.self_syn,
        assoc: &owner.assoc,
    };
    for g in &owner.generics {
        cx.collect_bounds(g);
    }
    cx.collect_bounds(&sig.generics);
    let mut prod = (false, false, false);
    cx.produces(ret, &mut prod, 0);
    if !(prod.0 || prod.1 || prod.2) {
        return None;
    }
    let mut inputs = vec![];
    let mut shown = vec![];
    for a in &sig.inputs {
        match a {
            syn::FnArg::Receiver(r) => {
                let c = if r.colon_token.is_some() {
                    cx.class(&r.ty, 0)
                } else {
                    match owner.self_syn {
                        Some(s) => cx.class(s, 0),
                        None => InClass::Other,
                    }
                };
                inputs.push(c);
                shown.push(match owner.self_syn {
                    Some(s) => format!("self: {}", norm_tokens(s)),
                    None => "self".to_string(),
                });
            }
            syn::FnArg::Typed(pt) => {
                inputs.push(cx.class(&pt.ty, 0));
                shown.push(norm_tokens(&*pt.ty));
            }
        }
    }
    inputs.sort();
    inputs.dedup();
    Some(Door {
        produces_str: prod.0,
        produces_os: prod.1,
        produces_path: prod.2,
        inputs,
        fallible: outermost_fallible(ret),
        sig: format!("({}) -> {}", shown.join(", "), norm_tokens(&**ret)),
        call: call(),
    })
}

/// Class of each non-receiver parameter, in order (used by `extract/delegates.rs`).
pub fn param_classes(
    cm: &CrateModel,
    module: usize,
    generics: &[&syn::Generics],
    self_syn: Option<&syn::Type>,
    sig: &syn::Signature,
) -> Vec<InClass> {
    let mut cx = Cx {
        cm,
        module,
        bounds: BTreeMap::new(),
        self_syn,
        assoc: &[],
    };
    for g in generics {
        cx.collect_bounds(g);
    }
    cx.collect_bounds(&sig.generics);
    sig.inputs
        .iter()
        .filter_map(|a| match a {
            syn::FnArg::Typed(pt) => Some(cx.class(&pt.ty, 0)),
            syn::FnArg::Receiver(_) => None,
        })
        .collect()
}

pub fn render(rows: &[super::FnRow]) -> String {
    use super::super::autotraits::lean_string;
    let mut o = String::from(super::super::HEADER);
    o.push_str("-- Every callable function (same reachability as Gen/PubFns) whose return type mentions HipStr /\n");
    o.push_str("-- HipOsStr / HipPath: input classes, unsafe?, fallible? — read off the signature only.\n");
    o.push_str("import HipVerif.Model.DoorsTy\n\nnamespace HipVerif.Gen.Doors\nopen HipVerif.Model.Doors\n\n");
    let doors: Vec<&super::FnRow> = rows.iter().filter(|r| r.door.is_some()).collect();
    o.push_str("def doors : List Door := [\n");
    for (i, r) in doors.iter().enumerate() {
        let d = r.door.as_ref().unwrap();
        o.push_str(&format!(
            "  ⟨{}, {}, {}, {}, {}, {}, {}, [{}], {}, {}, {}⟩{}\n",
            lean_string(&r.name),
            super::key_of(&r.name),
            super::key_of(&r.simple),
            r.is_unsafe,
            d.produces_str,
            d.produces_os,
            d.produces_path,
            d.inputs.iter().map(|c| c.lean()).collect::<Vec<_>>().join(", "),
            d.fallible,
            lean_string(&d.sig),
            lean_string(&r.loc),
            if i + 1 == doors.len() { "" } else { "," }
        ));
    }
    o.push_str("]\n\nend HipVerif.Gen.Doors\n");
    o
}
