//! `Gen/FmtDelegates.lean`: what each `fmt::Debug` / `fmt::Display` impl of a Hip type formats.
//!
//! Every such impl must be a pure delegation to the SAME trait's impl of the std view obtained
//! through an accessor of `self` (`self.as_slice().fmt(f)`, `fmt::Debug::fmt(self.as_str(), f)`, …):
//! then text equality with the std owned type IS content equality (C01).  Any other body is
//! recorded as `other` so that the table theorem fails and names it.

use syn::{ImplItem, Item};

use super::repo::loc;
use super::{GenFile, Repo, HEADER};

fn norm(s: &str) -> String {
    s.chars().filter(|c| !c.is_whitespace()).collect()
}

pub fn generate(repo: &Repo) -> Result<Vec<GenFile>, String> {
    use syn::spanned::Spanned;
    let mut rows = vec![];
    for (rel, ty) in [
        ("src/bytes.rs", "HipByt"),
        ("src/string.rs", "HipStr"),
        ("src/os_string.rs", "HipOsStr"),
        ("src/path.rs", "HipPath"),
    ] {
        let file = repo.file(rel)?;
        for it in &file.ast.items {
            let Item::Impl(imp) = it else { continue };
            let Some((_, tr, _)) = &imp.trait_ else { continue };
            let trn = tr.segments.last().map(|s| s.ident.to_string()).unwrap_or_default();
            if trn != "Debug" && trn != "Display" {
                continue;
            }
            let st = &imp.self_ty;
            if !norm(&quote::quote!(#st).to_string()).starts_with(&format!("{ty}<")) {
                continue;
            }
            for ii in &imp.items {
                let ImplItem::Fn(f) = ii else { continue };
                if f.sig.ident != "fmt" {
                    continue;
                }
                let b = &f.block;
                let body = norm(&quote::quote!(#b).to_string());
                // accepted shapes: `{self.ACC().fmt(f)}` or `{fmt::TRAIT::fmt(self.ACC(),f)}`
                let mut accessor = String::from("other");
                for acc in ["as_slice", "as_str", "as_os_str", "as_path"] {
                    if body == format!("{{self.{acc}().fmt(f)}}")
                        || body == format!("{{fmt::{trn}::fmt(self.{acc}(),f)}}")
                    {
                        accessor = acc.to_string();
                    }
                }
                rows.push(format!(
                    "  {{ ty := \"{ty}\", trait_ := \"{trn}\", accessor := \"{accessor}\", loc := \"{}\" }}",
                    loc(file, f.sig.span())
                ));
            }
        }
    }
    if rows.is_empty() {
        return Err("Gen/FmtDelegates: no Debug/Display impl found on the Hip types".into());
    }
    let mut s = String::from(HEADER);
    s.push_str("namespace HipVerif.Gen.FmtDelegates\n\nstructure Row where\n  ty : String\n  trait_ : String\n  accessor : String\n  loc : String\n  deriving Repr, DecidableEq\n\ndef table : List Row := [\n");
    s.push_str(&rows.join(",\n"));
    s.push_str("\n]\n\nend HipVerif.Gen.FmtDelegates\n");
    Ok(vec![GenFile { name: "FmtDelegates.lean".into(), content: s }])
}
