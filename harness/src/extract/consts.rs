//! `Gen/Consts.lean`: representation constants read from the source.
//!
//! * `TAG_BITS`, `MASK`, `TAG_INLINE`, `TAG_BORROWED`, `TAG_ALLOCATED` (src/bytes/raw.rs), `MASK`
//!   evaluated from its initialiser expression;
//! * `INLINE_CAPACITY = size_of::<Borrowed>() - 1`, with `size_of::<Borrowed>()` computed from the
//!   `#[repr(C)]` struct definition in src/bytes/raw/borrowed.rs for the 64-bit target;
//! * the inline representation's tag parameters: `Inline = InlineVec<u8, INLINE_CAPACITY, TAG_BITS, TAG_INLINE>`
//!   and how `TaggedU8::new` encodes a length (`(len << SHIFT) as u8 | TAG`);
//! * the increment bounds of the counters: `Arc::incr` loops `while old < <bound>`, `Rc::incr`
//!   accepts `new < <bound>` (src/smart.rs).
//! Fails closed on any other shape.

use syn::{Expr, Item};

use super::repo::{loc, SrcFile};
use super::{GenFile, Repo, HEADER};

const PTR: u64 = 8; // 64-bit target

fn find_const<'a>(file: &'a SrcFile, name: &str) -> Result<&'a syn::ItemConst, String> {
    for it in &file.ast.items {
        if let Item::Const(c) = it {
            if c.ident == name {
                return Ok(c);
            }
        }
    }
    Err(format!("Gen/Consts: const {name} not found in {}", file.rel))
}

fn expr_str(e: &Expr) -> String {
    quote::quote!(#e).to_string().replace(' ', "")
}

/// evaluates the tiny constant-expression language used by these consts
fn eval(file: &SrcFile, e: &Expr, env: &dyn Fn(&str) -> Option<u64>) -> Result<u64, String> {
    use syn::spanned::Spanned;
    match e {
        Expr::Lit(l) => match &l.lit {
            syn::Lit::Int(i) => i.base10_parse::<u64>().map_err(|e| e.to_string()),
            _ => Err(format!("Gen/Consts: literal at {}", loc(file, l.span()))),
        },
        Expr::Paren(p) => eval(file, &p.expr, env),
        Expr::Path(p) => {
            let name = p.path.segments.last().map(|s| s.ident.to_string()).unwrap_or_default();
            env(&name).ok_or_else(|| format!("Gen/Consts: unknown name {name} at {}", loc(file, p.span())))
        }
        Expr::Binary(b) => {
            let l = eval(file, &b.left, env)?;
            let r = eval(file, &b.right, env)?;
            match &b.op {
                syn::BinOp::Add(_) => Ok(l + r),
                syn::BinOp::Sub(_) => l.checked_sub(r).ok_or_else(|| "Gen/Consts: negative constant".to_string()),
                syn::BinOp::Shl(_) => Ok(l << r),
                syn::BinOp::Mul(_) => Ok(l * r),
                _ => Err(format!("Gen/Consts: operator at {}", loc(file, b.span()))),
            }
        }
        Expr::Call(_) => {
            let s = expr_str(e);
            match s.as_str() {
                "size_of::<usize>()" => Some(PTR),
                "size_of::<Borrowed>()" => env("size_of::<Borrowed>"),
                _ => None,
            }
            .ok_or_else(|| format!("Gen/Consts: call {s} at {}", loc(file, e.span())))
        }
        Expr::Cast(c) => eval(file, &c.expr, env),
        _ => Err(format!("Gen/Consts: expression `{}` at {}", expr_str(e), loc(file, e.span()))),
    }
}

/// `size_of` of the `#[repr(C)]` struct `Borrowed` on a 64-bit little-endian target.
fn size_of_borrowed(repo: &Repo) -> Result<u64, String> {
    use syn::spanned::Spanned;
    let file = repo.file("src/bytes/raw/borrowed.rs")?;
    for it in &file.ast.items {
        let Item::Struct(st) = it else { continue };
        if st.ident != "Borrowed" {
            continue;
        }
        let repr_c = st.attrs.iter().any(|a| a.path().is_ident("repr") && quote::quote!(#a).to_string().contains('C'));
        if !repr_c {
            return Err(format!("Gen/Consts: Borrowed is not repr(C) at {}", loc(file, st.span())));
        }
        let mut off = 0u64;
        let mut max_align = 1u64;
        for f in &st.fields {
            // skip the big-endian alternative fields
            let cfg_big = f.attrs.iter().any(|a| quote::quote!(#a).to_string().replace(' ', "").contains("target_endian=\"big\""));
            if cfg_big {
                continue;
            }
            let ty = &f.ty;
            let t = quote::quote!(#ty).to_string().replace(' ', "");
            let (size, align) = match t.as_str() {
                "NonZeroU8" => (1, 1),
                "MaybeUninit<[u8;size_of::<usize>()-1]>" => (PTR - 1, 1),
                "&'borrow[u8]" => (2 * PTR, PTR),
                other => return Err(format!("Gen/Consts: field type {other} at {}", loc(file, f.span()))),
            };
            off = off.div_ceil(align) * align + size;
            max_align = max_align.max(align);
        }
        return Ok(off.div_ceil(max_align) * max_align);
    }
    Err("Gen/Consts: struct Borrowed not found".into())
}

/// the bound `B` in `while old < B` (Arc) / `if new < B` (Rc) inside `incr`
fn incr_bound(repo: &Repo, ty: &str) -> Result<(String, String), String> {
    use syn::spanned::Spanned;
    let file = repo.file("src/smart.rs")?;
    for it in &file.ast.items {
        let Item::Impl(imp) = it else { continue };
        let Some((_, tr, _)) = &imp.trait_ else { continue };
        if !tr.is_ident("Kind") {
            continue;
        }
        let self_ty = &imp.self_ty;
        if quote::quote!(#self_ty).to_string() != ty {
            continue;
        }
        for ii in &imp.items {
            let syn::ImplItem::Fn(f) = ii else { continue };
            if f.sig.ident != "incr" {
                continue;
            }
            let body = quote::quote!(#f).to_string().replace(' ', "");
            let (pat, what) = if ty == "Arc" { ("whileold<", "old") } else { ("ifnew<", "new") };
            let Some(i) = body.find(pat) else {
                return Err(format!("Gen/Consts: `{what} < bound` not found in {ty}::incr at {}", loc(file, f.span())));
            };
            let rest = &body[i + pat.len()..];
            let end = rest.find('{').unwrap_or(rest.len());
            let bound = &rest[..end];
            let lean = match bound {
                "usize::MAX-1" => "U - 2",
                "usize::MAX" => "U - 1",
                other => return Err(format!("Gen/Consts: unsupported bound `{other}` in {ty}::incr at {}", loc(file, f.span()))),
            };
            return Ok((lean.to_string(), loc(file, f.sig.span())));
        }
    }
    Err(format!("Gen/Consts: impl Kind for {ty} / incr not found"))
}

pub fn generate(repo: &Repo) -> Result<Vec<GenFile>, String> {
    use syn::spanned::Spanned;
    let raw = repo.file("src/bytes/raw.rs")?;
    let sob = size_of_borrowed(repo)?;
    let mut vals: Vec<(String, u64, String)> = vec![];
    for name in ["TAG_BITS", "MASK", "TAG_INLINE", "TAG_BORROWED", "TAG_ALLOCATED", "INLINE_CAPACITY"] {
        let c = find_const(raw, name)?;
        let snapshot = vals.clone();
        let env = move |n: &str| -> Option<u64> {
            if n == "size_of::<Borrowed>" {
                return Some(sob);
            }
            snapshot.iter().find(|(k, _, _)| k == n).map(|(_, v, _)| *v)
        };
        let v = eval(raw, &c.expr, &env)?;
        vals.push((name.to_string(), v, loc(raw, c.span())));
    }
    // type Inline = InlineVec<u8, INLINE_CAPACITY, TAG_BITS, TAG_INLINE>
    let mut inline_alias = None;
    for it in &raw.ast.items {
        if let Item::Type(t) = it {
            if t.ident == "Inline" {
                let ty = &t.ty;
                inline_alias = Some((quote::quote!(#ty).to_string().replace(' ', ""), loc(raw, t.span())));
            }
        }
    }
    let Some((alias, alias_loc)) = inline_alias else {
        return Err("Gen/Consts: type Inline not found".into());
    };
    if alias != "InlineVec<u8,INLINE_CAPACITY,TAG_BITS,TAG_INLINE>" {
        return Err(format!("Gen/Consts: unexpected Inline alias `{alias}` at {alias_loc}"));
    }
    // TaggedU8::new encoding
    let inl = repo.file("src/vecs/inline.rs")?;
    let text = inl.text.replace([' ', '\n'], "");
    if !text.contains("letshifted=len<<SHIFT;letvalue=shiftedasu8|TAG;") {
        return Err("Gen/Consts: TaggedU8::new no longer encodes `(len << SHIFT) as u8 | TAG` (src/vecs/inline.rs)".into());
    }
    if !text.contains("(self.0.get()>>SHIFT)asusize") {
        return Err("Gen/Consts: TaggedU8::get no longer decodes `value >> SHIFT` (src/vecs/inline.rs)".into());
    }
    let (arc_bound, arc_loc) = incr_bound(repo, "Arc")?;
    let (rc_bound, rc_loc) = incr_bound(repo, "Rc")?;

    let mut s = String::from(HEADER);
    s.push_str("import HipVerif.Model.RangeTy\n\nnamespace HipVerif.Gen.Consts\nopen HipVerif.RangeTy\n\n");
    let lean_names = [
        ("TAG_BITS", "tagBits"),
        ("MASK", "mask"),
        ("TAG_INLINE", "tagInline"),
        ("TAG_BORROWED", "tagBorrowed"),
        ("TAG_ALLOCATED", "tagAllocated"),
        ("INLINE_CAPACITY", "inlineCapacity"),
    ];
    for (name, v, l) in &vals {
        let ln = lean_names.iter().find(|(k, _)| k == name).unwrap().1;
        s.push_str(&format!("/-- `{name}` — {l} -/\ndef {ln} : Nat := {v}\n\n"));
    }
    s.push_str(&format!("/-- `size_of::<Borrowed>()` computed from the repr(C) definition (64-bit) -/\ndef sizeOfBorrowed : Nat := {sob}\n\n"));
    s.push_str(&format!("/-- `type Inline = {alias}` — {alias_loc}; length byte = `(len << inlineShift) ||| inlineTag` -/\ndef inlineShift : Nat := tagBits\ndef inlineTag : Nat := tagInline\n\n"));
    s.push_str(&format!("/-- `Arc::incr` succeeds while `old < arcIncrBound` — {arc_loc} -/\ndef arcIncrBound : Nat := {arc_bound}\n\n"));
    s.push_str(&format!("/-- `Rc::incr` succeeds while `new < rcIncrBound` — {rc_loc} -/\ndef rcIncrBound : Nat := {rc_bound}\n\n"));
    s.push_str("end HipVerif.Gen.Consts\n");
    Ok(vec![GenFile { name: "Consts.lean".into(), content: s }])
}
