//! Translator module for `Gen/Visitors.lean` (property C16).
//!
//! Reads every feature-gated serialisation item of the crate and emits a data table:
//!
//! * each `impl Visitor for X`: which `visit_*` methods exist and the *class* of each body
//!   (`copy`, `take`, `borrow`, `validateThen x`, `seq cap`, `error`) — bodies are matched
//!   against a closed list of token-tree templates;
//! * each `impl Serialize` / `impl Deserialize` / `pub fn borrow_deserialize`: the serializer
//!   call or the visitor/delegate it hands the deserializer to;
//! * each `impl BorshSerialize` / `impl BorshDeserialize`: the reader's shape (length prefix
//!   type, zero shortcut, the capacity expression `len.min(4096)`, per-byte loop, constructor);
//! * each `From`/`TryFrom` of a `bstr` type into a Hip type.
//!
//! Capacity caps are read from the source as numerals.  The generator FAILS CLOSED: any item or
//! body that does not match a template is an `Err` naming `file:line`.

use std::collections::BTreeMap;
use std::str::FromStr;

use proc_macro2::{Delimiter, Spacing, TokenStream, TokenTree};
use quote::ToTokens;
use syn::spanned::Spanned;

use super::repo::{loc, SrcFile};
use super::{GenFile, Repo, HEADER};

type R<T> = Result<T, String>;

// ---------------------------------------------------------------------------------------------
// Token-tree templates
// ---------------------------------------------------------------------------------------------

/// A token tree normalised for matching: groups are kept as units, a trailing `,` inside a group
/// is dropped (so `match` arms with or without the last comma compare equal).
#[derive(Clone, Debug, PartialEq)]
enum Tok {
    Ident(String),
    Punct(char, bool),
    Lit(String),
    Group(Delimiter, Vec<Tok>),
}

fn normalise(ts: TokenStream) -> Vec<Tok> {
    let mut out = vec![];
    for tt in ts {
        match tt {
            TokenTree::Ident(i) => out.push(Tok::Ident(i.to_string())),
            TokenTree::Punct(p) => out.push(Tok::Punct(p.as_char(), p.spacing() == Spacing::Joint)),
            TokenTree::Literal(l) => out.push(Tok::Lit(l.to_string())),
            TokenTree::Group(g) => {
                let mut inner = normalise(g.stream());
                if let Some(Tok::Punct(',', _)) = inner.last() {
                    inner.pop();
                }
                if g.delimiter() == Delimiter::None {
                    out.extend(inner);
                } else {
                    out.push(Tok::Group(g.delimiter(), inner));
                }
            }
        }
    }
    out
}

/// Bindings of template holes.
#[derive(Default, Debug, Clone)]
struct Binds {
    idents: BTreeMap<String, String>,
    nums: BTreeMap<String, u64>,
}

impl Binds {
    fn id(&self, k: &str) -> &str {
        self.idents.get(k).map(String::as_str).unwrap_or("")
    }
    fn num(&self, k: &str) -> u64 {
        *self.nums.get(k).expect("template numeral hole")
    }
}

fn parse_int_lit(s: &str) -> Option<u64> {
    // a plain or suffixed integer literal, decimal / hex / with `_`
    let lit: syn::LitInt = syn::parse_str(s).ok()?;
    lit.base10_parse::<u64>().ok()
}

/// Holes in a template: identifiers `__I<name>` match any identifier (the same name must match
/// the same identifier everywhere), `__N<name>` match an integer literal, `__T<name>` match any
/// single token tree (typically a parenthesised argument list).
fn match_seq(pat: &[Tok], src: &[Tok], b: &mut Binds) -> bool {
    if pat.len() != src.len() {
        return false;
    }
    for (p, s) in pat.iter().zip(src) {
        match (p, s) {
            (Tok::Ident(h), _) if h.starts_with("__T") => {}
            (Tok::Ident(h), Tok::Ident(i)) if h.starts_with("__I") => {
                let key = h[3..].to_string();
                match b.idents.get(&key) {
                    Some(prev) if prev != i => return false,
                    Some(_) => {}
                    None => {
                        b.idents.insert(key, i.clone());
                    }
                }
            }
            (Tok::Ident(h), Tok::Lit(l)) if h.starts_with("__N") => match parse_int_lit(l) {
                Some(n) => {
                    b.nums.insert(h[3..].to_string(), n);
                }
                None => return false,
            },
            (Tok::Ident(a), Tok::Ident(c)) => {
                if a != c {
                    return false;
                }
            }
            (Tok::Punct(a, _), Tok::Punct(c, _)) => {
                if a != c {
                    return false;
                }
            }
            (Tok::Lit(a), Tok::Lit(c)) => {
                if a != c {
                    return false;
                }
            }
            (Tok::Group(d1, i1), Tok::Group(d2, i2)) => {
                if d1 != d2 || !match_seq(i1, i2, b) {
                    return false;
                }
            }
            _ => return false,
        }
    }
    true
}

fn template(pat: &str) -> Vec<Tok> {
    normalise(TokenStream::from_str(pat).expect("template parses"))
}

fn matches(pat: &str, src: &[Tok]) -> Option<Binds> {
    let mut b = Binds::default();
    if match_seq(&template(pat), src, &mut b) {
        Some(b)
    } else {
        None
    }
}

/// Tokens of a block's content (without the braces).
fn block_toks(block: &syn::Block) -> Vec<Tok> {
    let mut ts = TokenStream::new();
    for s in &block.stmts {
        s.to_tokens(&mut ts);
    }
    normalise(ts)
}

// ---------------------------------------------------------------------------------------------
// Table data
// ---------------------------------------------------------------------------------------------

#[derive(Clone, Copy, PartialEq, Eq, Debug, PartialOrd, Ord)]
enum Kind {
    Byt,
    Str,
    Os,
    Path,
}

impl Kind {
    fn from_ident(s: &str) -> Option<Kind> {
        match s {
            "HipByt" => Some(Kind::Byt),
            "HipStr" => Some(Kind::Str),
            "HipOsStr" => Some(Kind::Os),
            "HipPath" => Some(Kind::Path),
            _ => None,
        }
    }
    fn lean(self) -> &'static str {
        match self {
            Kind::Byt => ".byt",
            Kind::Str => ".str",
            Kind::Os => ".os",
            Kind::Path => ".path",
        }
    }
}

#[derive(Clone, PartialEq, Eq, Debug)]
enum Body {
    Copy,
    Take,
    Borrow,
    ValidateThen(Box<Body>),
    Seq(Option<u64>),
    Error,
}

impl Body {
    fn lean(&self) -> String {
        match self {
            Body::Copy => ".copy".into(),
            Body::Take => ".take".into(),
            Body::Borrow => ".borrow".into(),
            Body::ValidateThen(b) => format!(".validateThen ({})", b.lean_inner()),
            Body::Seq(Some(n)) => format!(".seq (some {n})"),
            Body::Seq(None) => ".seq none".into(),
            Body::Error => ".error".into(),
        }
    }
    fn lean_inner(&self) -> String {
        self.lean()
    }
}

/// Data class of a method parameter.
#[derive(Clone, Copy, PartialEq, Eq, Debug)]
enum Ty {
    Bytes,
    Str,
}

/// Ownership class of a method parameter: `Long` = a reference that lives as long as the value
/// being produced (the `'de` data), `Short` = a transient reference, `Owned` = `Vec<u8>`/`String`.
#[derive(Clone, Copy, PartialEq, Eq, Debug)]
enum Own {
    Long,
    Short,
    Owned,
}

struct VisitorRow {
    kind: Kind,
    name: String,
    borrows_de: bool,
    loc: String,
    methods: Vec<(String, Body, String)>,
    file: String,
}

fn visitor_id(kind: Kind, borrows: bool) -> R<&'static str> {
    match (kind, borrows) {
        (Kind::Byt, false) => Ok(".bytOwned"),
        (Kind::Byt, true) => Ok(".bytBorrowed"),
        (Kind::Str, false) => Ok(".strOwned"),
        (Kind::Str, true) => Ok(".strBorrowed"),
        _ => Err(format!("no visitor id for {kind:?}")),
    }
}

// ---------------------------------------------------------------------------------------------
// syn helpers
// ---------------------------------------------------------------------------------------------

fn bad(file: &SrcFile, span: proc_macro2::Span, what: &str) -> String {
    format!("Gen/Visitors: unsupported {what} at {}", loc(file, span))
}

fn type_last_ident(t: &syn::Type) -> Option<String> {
    match t {
        syn::Type::Path(p) => p.path.segments.last().map(|s| s.ident.to_string()),
        _ => None,
    }
}

/// First lifetime generic argument of the last path segment (`HipByt<'de, B>` → `de`, `'_` → `_`).
fn first_lifetime_arg(p: &syn::Path) -> Option<String> {
    let seg = p.segments.last()?;
    if let syn::PathArguments::AngleBracketed(a) = &seg.arguments {
        for arg in &a.args {
            if let syn::GenericArgument::Lifetime(l) = arg {
                return Some(l.ident.to_string());
            }
        }
    }
    None
}

fn first_type_arg(p: &syn::Path) -> Option<&syn::Type> {
    let seg = p.segments.last()?;
    if let syn::PathArguments::AngleBracketed(a) = &seg.arguments {
        for arg in &a.args {
            if let syn::GenericArgument::Type(t) = arg {
                return Some(t);
            }
        }
    }
    None
}

fn is_cfg_test(attrs: &[syn::Attribute]) -> bool {
    attrs.iter().any(|a| {
        a.path().is_ident("cfg") && a.to_token_stream().to_string().replace(' ', "").contains("cfg(test)")
    })
}

/// `(name, type)` of the n-th non-receiver parameter.
fn nth_param(sig: &syn::Signature, n: usize) -> Option<(String, &syn::Type)> {
    let mut k = 0;
    for inp in &sig.inputs {
        if let syn::FnArg::Typed(pt) = inp {
            if k == n {
                let name = match &*pt.pat {
                    syn::Pat::Ident(pi) => pi.ident.to_string(),
                    _ => return None,
                };
                return Some((name, &pt.ty));
            }
            k += 1;
        }
    }
    None
}

/// Classifies a visit-method parameter type: `&str`, `&'x str`, `String`, `&[u8]`, `&'x [u8]`,
/// `Vec<u8>`.  The lifetime is returned when written.
fn classify_param(t: &syn::Type) -> Option<(Ty, bool, Option<String>)> {
    match t {
        syn::Type::Reference(r) => {
            if r.mutability.is_some() {
                return None;
            }
            let lt = r.lifetime.as_ref().map(|l| l.ident.to_string());
            match &*r.elem {
                syn::Type::Path(p) if p.path.is_ident("str") => Some((Ty::Str, false, lt)),
                syn::Type::Slice(s) => match &*s.elem {
                    syn::Type::Path(p) if p.path.is_ident("u8") => Some((Ty::Bytes, false, lt)),
                    _ => None,
                },
                _ => None,
            }
        }
        syn::Type::Path(p) => {
            let last = p.path.segments.last()?;
            if last.ident == "String" && last.arguments.is_none() {
                Some((Ty::Str, true, None))
            } else if last.ident == "Vec" {
                match first_type_arg(&p.path) {
                    Some(syn::Type::Path(e)) if e.path.is_ident("u8") => Some((Ty::Bytes, true, None)),
                    _ => None,
                }
            } else {
                None
            }
        }
        _ => None,
    }
}

// ---------------------------------------------------------------------------------------------
// Visitor method bodies
// ---------------------------------------------------------------------------------------------

const FROM_UTF8: [&str; 3] = ["core::str::from_utf8", "str::from_utf8", "std::str::from_utf8"];
const FROM_UTF8_UNCHECKED: [&str; 3] = [
    "core::str::from_utf8_unchecked",
    "str::from_utf8_unchecked",
    "std::str::from_utf8_unchecked",
];
const STRING_PATHS: [&str; 2] = ["String", "alloc::string::String"];

/// Classifies the body of a non-`seq` visit method (or of a bstr conversion when `wrap_ok` is
/// false and the constructor is not wrapped in `Ok(..)`).
fn classify_value_body(
    toks: &[Tok],
    kind: Kind,
    kind_ident: &str,
    param: &str,
    ty: Ty,
    own: Own,
) -> Option<Body> {
    let kind_ty = match kind {
        Kind::Byt => Ty::Bytes,
        Kind::Str => Ty::Str,
        _ => return None,
    };
    let ok_k = |b: &Binds| {
        b.id("v") == param && (b.id("K") == kind_ident || b.id("K") == "Self")
    };
    let from_body = |own: Own| if own == Own::Owned { Body::Take } else { Body::Copy };

    // direct constructors
    if let Some(b) = matches("Ok(__IK::from(__Iv))", toks) {
        if ok_k(&b) && ty == kind_ty {
            return Some(from_body(own));
        }
        return None;
    }
    if let Some(b) = matches("Ok(__IK::from(__Iv.as_bytes()))", toks) {
        if ok_k(&b) && ty == Ty::Str && kind == Kind::Byt {
            return Some(Body::Copy);
        }
        return None;
    }
    if let Some(b) = matches("Ok(__IK::from(__Iv.into_bytes()))", toks) {
        if ok_k(&b) && ty == Ty::Str && own == Own::Owned && kind == Kind::Byt {
            return Some(Body::Take);
        }
        return None;
    }
    if let Some(b) = matches("Ok(__IK::borrowed(__Iv))", toks) {
        if ok_k(&b) && ty == kind_ty && own == Own::Long {
            return Some(Body::Borrow);
        }
        return None;
    }
    if let Some(b) = matches("Ok(__IK::borrowed(__Iv.as_bytes()))", toks) {
        if ok_k(&b) && ty == Ty::Str && own == Own::Long && kind == Kind::Byt {
            return Some(Body::Borrow);
        }
        return None;
    }
    // validation, `match` style
    for f in FROM_UTF8 {
        for (ctor, need_long) in [("from", false), ("borrowed", true)] {
            let pat = format!(
                "match {f}(__Iv) {{ Ok(__Is) => Ok(__IK::{ctor}(__Is)), Err(__Ie) => Err __Targs }}"
            );
            if let Some(b) = matches(&pat, toks) {
                if ok_k(&b) && ty == Ty::Bytes && own != Own::Owned && kind == Kind::Str
                    && b.id("s") != "_"
                    && (!need_long || own == Own::Long)
                {
                    let inner = if need_long { Body::Borrow } else { Body::Copy };
                    return Some(Body::ValidateThen(Box::new(inner)));
                }
                return None;
            }
        }
    }
    for s in STRING_PATHS {
        let pat = format!(
            "match {s}::from_utf8(__Iv) {{ Ok(__Is) => Ok(__IK::from(__Is)), Err(__Ie) => Err __Targs }}"
        );
        if let Some(b) = matches(&pat, toks) {
            if ok_k(&b) && ty == Ty::Bytes && own == Own::Owned && kind == Kind::Str && b.id("s") != "_" {
                return Some(Body::ValidateThen(Box::new(Body::Take)));
            }
            return None;
        }
    }
    // no validation (`unsafe { from_utf8_unchecked }`): recorded as the bare class
    for f in FROM_UTF8_UNCHECKED {
        for (ctor, need_long) in [("from", false), ("borrowed", true)] {
            let pat = format!("Ok(__IK::{ctor}(unsafe {{ {f}(__Iv) }}))");
            if let Some(b) = matches(&pat, toks) {
                if ok_k(&b) && ty == Ty::Bytes && own != Own::Owned && kind == Kind::Str
                    && (!need_long || own == Own::Long)
                {
                    return Some(if need_long { Body::Borrow } else { Body::Copy });
                }
                return None;
            }
        }
    }
    for s in STRING_PATHS {
        let pat = format!("Ok(__IK::from(unsafe {{ {s}::from_utf8_unchecked(__Iv) }}))");
        if let Some(b) = matches(&pat, toks) {
            if ok_k(&b) && ty == Ty::Bytes && own == Own::Owned && kind == Kind::Str {
                return Some(Body::Take);
            }
            return None;
        }
    }
    // the private tuple constructor `HipStr(HipByt::…(v))`: bytes wrapped WITHOUT validation
    for (ctor, need_long) in [("from", false), ("borrowed", true)] {
        let pat = format!("Ok(__IK(__IR::{ctor}(__Iv)))");
        if let Some(b) = matches(&pat, toks) {
            if b.id("v") == param && b.id("K") == kind_ident && b.id("R") == "HipByt" && kind == Kind::Str
                && ty == Ty::Bytes && (!need_long || own == Own::Long)
            {
                return Some(if need_long { Body::Borrow } else { from_body(own) });
            }
            return None;
        }
    }
    if matches("Err __Targs", toks).is_some() {
        return Some(Body::Error);
    }
    None
}

/// Classifies the body of `visit_seq`.
fn classify_seq_body(toks: &[Tok], kind_ident: &str, param: &str) -> Option<Body> {
    let loop_ = "while let Some(__Ib) = __Iseq.next_element()? { __Ibuf.push(__Ib); }";
    // the value is built by `K::from(vec)` or by the raw tuple constructor `K(HipByt::from(vec))`
    // (for a string type the latter — like the former — performs no validation)
    let ctors = ["Ok(__IK::from(__Ibuf))", "Ok(__IK(__IR::from(__Ibuf)))"];
    let heads: [(&str, u8); 5] = [
        ("let __Ilen = core::cmp::min(__Iseq.size_hint().unwrap_or(0), __Ncap); let mut __Ibuf = Vec::with_capacity(__Ilen);", 1),
        ("let __Ilen = __Iseq.size_hint().unwrap_or(0).min(__Ncap); let mut __Ibuf = Vec::with_capacity(__Ilen);", 1),
        ("let __Ilen = cmp::min(__Iseq.size_hint().unwrap_or(0), __Ncap); let mut __Ibuf = Vec::with_capacity(__Ilen);", 1),
        ("let __Ilen = __Iseq.size_hint().unwrap_or(0); let mut __Ibuf = Vec::with_capacity(__Ilen);", 0),
        ("let mut __Ibuf = Vec::new();", 2),
    ];
    for ctor in ctors {
        for (head, capped) in heads {
            if let Some(b) = matches(&format!("{head} {loop_} {ctor}"), toks) {
                let k_ok = b.id("K") == kind_ident || (b.id("K") == "Self" && b.id("R").is_empty());
                let r_ok = b.id("R").is_empty() || b.id("R") == "HipByt";
                if b.id("seq") != param || !k_ok || !r_ok {
                    return None;
                }
                return Some(match capped {
                    1 => Body::Seq(Some(b.num("cap"))),
                    0 => Body::Seq(None),
                    _ => Body::Seq(Some(0)),
                });
            }
        }
    }
    None
}

fn method_lean(name: &str) -> Option<&'static str> {
    Some(match name {
        "visit_str" => ".str",
        "visit_borrowed_str" => ".borrowedStr",
        "visit_string" => ".string",
        "visit_bytes" => ".bytes",
        "visit_borrowed_bytes" => ".borrowedBytes",
        "visit_byte_buf" => ".byteBuf",
        "visit_seq" => ".seq",
        "visit_char" => ".char",
        _ => return None,
    })
}

/// A visitor whose `Value` is not a Hip type (`type Value = ()` of an in-place visitor): only the
/// names of its `visit_*` methods are recorded, the model does not interpret it.
struct AuxVisitor {
    name: String,
    value: String,
    methods: Vec<String>,
    loc: String,
}

enum ParsedVisitor {
    Hip(VisitorRow),
    Aux(AuxVisitor),
}

fn parse_any_visitor(file: &SrcFile, imp: &syn::ItemImpl, trait_path: &syn::Path) -> R<ParsedVisitor> {
    let name = type_last_ident(&imp.self_ty).ok_or_else(|| bad(file, imp.self_ty.span(), "visitor self type"))?;
    for it in &imp.items {
        if let syn::ImplItem::Type(t) = it {
            if t.ident == "Value" {
                let hip = match &t.ty {
                    syn::Type::Path(p) => p.path.segments.last().and_then(|s| Kind::from_ident(&s.ident.to_string())).is_some(),
                    _ => false,
                };
                if !hip {
                    let mut methods = vec![];
                    for m in &imp.items {
                        if let syn::ImplItem::Fn(f) = m {
                            let n = f.sig.ident.to_string();
                            if n != "expecting" {
                                methods.push(n);
                            }
                        }
                    }
                    return Ok(ParsedVisitor::Aux(AuxVisitor {
                        name,
                        value: t.ty.to_token_stream().to_string().replace(' ', ""),
                        methods,
                        loc: loc(file, imp.impl_token.span()),
                    }));
                }
            }
        }
    }
    parse_visitor(file, imp, trait_path).map(ParsedVisitor::Hip)
}

fn parse_visitor(file: &SrcFile, imp: &syn::ItemImpl, trait_path: &syn::Path) -> R<VisitorRow> {
    let name = type_last_ident(&imp.self_ty).ok_or_else(|| bad(file, imp.self_ty.span(), "visitor self type"))?;
    let de_lt = first_lifetime_arg(trait_path).ok_or_else(|| bad(file, trait_path.span(), "Visitor without lifetime"))?;
    let mut value: Option<(Kind, String, Option<String>)> = None;
    for it in &imp.items {
        if let syn::ImplItem::Type(t) = it {
            if t.ident == "Value" {
                if let syn::Type::Path(p) = &t.ty {
                    let id = p.path.segments.last().map(|s| s.ident.to_string()).unwrap_or_default();
                    let kind = Kind::from_ident(&id).ok_or_else(|| bad(file, t.span(), "visitor Value type"))?;
                    value = Some((kind, id, first_lifetime_arg(&p.path)));
                } else {
                    return Err(bad(file, t.span(), "visitor Value type"));
                }
            } else {
                return Err(bad(file, t.span(), "associated type in visitor"));
            }
        }
    }
    let (kind, kind_ident, value_lt) = value.ok_or_else(|| bad(file, imp.span(), "visitor without Value"))?;
    if kind != Kind::Byt && kind != Kind::Str {
        return Err(bad(file, imp.span(), "visitor for a non byt/str type"));
    }
    let borrows_de = de_lt != "_" && value_lt.as_deref() == Some(de_lt.as_str());
    let mut methods = vec![];
    for it in &imp.items {
        match it {
            syn::ImplItem::Type(_) => {}
            syn::ImplItem::Fn(f) => {
                let fname = f.sig.ident.to_string();
                if fname == "expecting" {
                    continue;
                }
                let m = method_lean(&fname).ok_or_else(|| bad(file, f.sig.span(), &format!("visitor method `{fname}`")))?;
                let (pname, pty) = nth_param(&f.sig, 0).ok_or_else(|| bad(file, f.sig.span(), "visit method parameter"))?;
                let toks = block_toks(&f.block);
                let body = if fname == "visit_seq" {
                    classify_seq_body(&toks, &kind_ident, &pname)
                } else if fname == "visit_char" {
                    if matches("Err __Targs", &toks).is_some() { Some(Body::Error) } else { None }
                } else {
                    let (ty, owned, lt) = classify_param(pty).ok_or_else(|| bad(file, pty.span(), "visit method parameter type"))?;
                    // the parameter class must be the one the trait method prescribes
                    let (want_ty, want_owned, may_long) = match fname.as_str() {
                        "visit_str" => (Ty::Str, false, false),
                        "visit_borrowed_str" => (Ty::Str, false, true),
                        "visit_string" => (Ty::Str, true, false),
                        "visit_bytes" => (Ty::Bytes, false, false),
                        "visit_borrowed_bytes" => (Ty::Bytes, false, true),
                        "visit_byte_buf" => (Ty::Bytes, true, false),
                        _ => unreachable!(),
                    };
                    if ty != want_ty || owned != want_owned {
                        return Err(bad(file, pty.span(), "visit method parameter type"));
                    }
                    let own = if owned {
                        Own::Owned
                    } else if may_long && lt.is_some() && lt == value_lt && lt.as_deref() == Some(de_lt.as_str()) {
                        Own::Long
                    } else {
                        Own::Short
                    };
                    classify_value_body(&toks, kind, &kind_ident, &pname, ty, own)
                };
                let body = body.ok_or_else(|| bad(file, f.block.span(), &format!("body of `{fname}`")))?;
                methods.push((m.to_string(), body, loc(file, f.sig.fn_token.span())));
            }
            other => return Err(bad(file, other.span(), "item in visitor impl")),
        }
    }
    Ok(VisitorRow {
        kind,
        name,
        borrows_de,
        loc: loc(file, imp.impl_token.span()),
        methods,
        file: file.rel.clone(),
    })
}

// ---------------------------------------------------------------------------------------------
// Serialize / Deserialize / borsh / bstr
// ---------------------------------------------------------------------------------------------

fn hint_lean(method: &str) -> Option<&'static str> {
    Some(match method {
        "deserialize_bytes" => ".bytes",
        "deserialize_byte_buf" => ".byteBuf",
        "deserialize_str" => ".str",
        "deserialize_string" => ".string",
        "deserialize_seq" => ".seq",
        "deserialize_any" => ".any",
        _ => return None,
    })
}

/// Target of a deserialisation entry point, as Lean source (visitor names resolved later).
enum DeTarget {
    Visitor { hint: &'static str, visitor: String },
    StdOsString,
    Hip { kind: Kind, borrowing: bool },
}

struct DeRow {
    kind: Kind,
    borrowing: bool,
    target: DeTarget,
    in_place: bool,
    loc: String,
    file: String,
}

fn single_fn<'a>(file: &SrcFile, imp: &'a syn::ItemImpl, name: &str) -> R<&'a syn::ImplItemFn> {
    let mut found = None;
    for it in &imp.items {
        match it {
            syn::ImplItem::Fn(f) if f.sig.ident == name && found.is_none() => found = Some(f),
            other => return Err(bad(file, other.span(), &format!("item in impl (expected only `fn {name}`)"))),
        }
    }
    found.ok_or_else(|| bad(file, imp.span(), &format!("impl without `fn {name}`")))
}

fn parse_de_body(file: &SrcFile, block: &syn::Block, param: &str, kind: Kind, borrowing: bool) -> R<DeTarget> {
    let toks = block_toks(block);
    if let Some(b) = matches("__Id.__Ihint(__IV(PhantomData))", &toks) {
        if b.id("d") == param {
            if let Some(h) = hint_lean(b.id("hint")) {
                return Ok(DeTarget::Visitor { hint: h, visitor: b.id("V").to_string() });
            }
        }
        return Err(bad(file, block.span(), "deserializer call"));
    }
    if !borrowing {
        let direct = matches("Ok(Self::from(__IK::deserialize(__Id)?))", &toks);
        let via_let = matches("let __Is = __IK::deserialize(__Id)?; Ok(Self::from(__Is))", &toks);
        if let Some(b) = direct.or(via_let) {
            if b.id("d") == param {
                if b.id("K") == "OsString" && kind == Kind::Os {
                    return Ok(DeTarget::StdOsString);
                }
                if let Some(k) = Kind::from_ident(b.id("K")) {
                    if k != kind {
                        return Ok(DeTarget::Hip { kind: k, borrowing: false });
                    }
                }
            }
            return Err(bad(file, block.span(), "delegating deserialize"));
        }
    } else if let Some(b) = matches("crate::__Imod::serde::borrow_deserialize(__Id).map(__IK::from)", &toks) {
        let k = match b.id("mod") {
            "bytes" => Some(Kind::Byt),
            "string" => Some(Kind::Str),
            "path" => Some(Kind::Path),
            _ => None,
        };
        if let (Some(k), true, true) = (k, b.id("d") == param, Kind::from_ident(b.id("K")) == Some(kind)) {
            if k != kind {
                return Ok(DeTarget::Hip { kind: k, borrowing: true });
            }
        }
        return Err(bad(file, block.span(), "delegating borrow_deserialize"));
    }
    Err(bad(file, block.span(), "deserialize body"))
}

fn parse_ser_body(file: &SrcFile, block: &syn::Block, param: &str, kind: Kind) -> R<&'static str> {
    let toks = block_toks(block);
    let table: [(&str, &str, &[Kind]); 5] = [
        ("__Is.serialize_bytes(self.as_slice())", ".serializeBytes", &[Kind::Byt]),
        ("__Is.serialize_bytes(self.as_bytes())", ".serializeBytes", &[Kind::Byt]),
        ("__Is.serialize_str(self.as_str())", ".serializeStr", &[Kind::Str]),
        ("self.as_os_str().serialize(__Is)", ".stdOsStr", &[Kind::Os]),
        ("self.as_path().serialize(__Is)", ".stdPath", &[Kind::Path]),
    ];
    for (pat, lean, kinds) in table {
        if let Some(b) = matches(pat, &toks) {
            if b.id("s") == param && kinds.contains(&kind) {
                return Ok(lean);
            }
            return Err(bad(file, block.span(), "serialize call for this type"));
        }
    }
    Err(bad(file, block.span(), "serialize body"))
}

/// Every use of the `reader`/`writer` parameter in a borsh impl body, in source order, as Lean
/// `IoCall`s, and whether the body contains an `unsafe` block.
struct IoScan<'a> {
    param: &'a str,
    calls: Vec<String>,
    uses_unsafe: bool,
}

impl IoScan<'_> {
    fn is_param(&self, e: &syn::Expr) -> bool {
        match e {
            syn::Expr::Path(p) => p.path.is_ident(self.param),
            syn::Expr::Reference(r) => self.is_param(&r.expr),
            syn::Expr::Unary(u) => self.is_param(&u.expr),
            syn::Expr::Paren(p) => self.is_param(&p.expr),
            _ => false,
        }
    }
}

fn compact(t: &impl ToTokens) -> String {
    t.to_token_stream().to_string().replace(' ', "")
}

impl<'ast> syn::visit::Visit<'ast> for IoScan<'_> {
    fn visit_expr_unsafe(&mut self, e: &'ast syn::ExprUnsafe) {
        self.uses_unsafe = true;
        syn::visit::visit_expr_unsafe(self, e);
    }
    fn visit_expr_method_call(&mut self, m: &'ast syn::ExprMethodCall) {
        let name = m.method.to_string();
        if self.is_param(&m.receiver) {
            self.calls.push(match name.as_str() {
                "read_exact" => ".readExact".to_string(),
                "read" => ".read".to_string(),
                "write_all" => ".writeAll".to_string(),
                "write" => ".write".to_string(),
                other => format!(".other \"{other}\""),
            });
        } else if m.args.iter().any(|a| self.is_param(a)) {
            if name == "serialize" {
                self.calls.push(format!(".delegate \"{}.serialize\"", compact(&m.receiver)));
            } else {
                self.calls.push(format!(".other \"{name}\""));
            }
        }
        syn::visit::visit_expr_method_call(self, m);
    }
    fn visit_expr_call(&mut self, c: &'ast syn::ExprCall) {
        if c.args.iter().any(|a| self.is_param(a)) {
            let f = compact(&c.func);
            if f.ends_with("::deserialize_reader") {
                self.calls.push(format!(".delegate \"{f}\""));
            } else {
                self.calls.push(format!(".other \"{f}\""));
            }
        }
        syn::visit::visit_expr_call(self, c);
    }
}

fn io_scan(block: &syn::Block, param: &str) -> (Vec<String>, bool) {
    use syn::visit::Visit;
    let mut sc = IoScan { param, calls: vec![], uses_unsafe: false };
    sc.visit_block(block);
    (sc.calls, sc.uses_unsafe)
}

fn prefix_bytes(ty: &str) -> Option<u64> {
    Some(match ty {
        "u8" => 1,
        "u16" => 2,
        "u32" => 4,
        "u64" => 8,
        _ => return None,
    })
}

fn parse_borsh_de_body(file: &SrcFile, block: &syn::Block, param: &str, kind: Kind) -> R<String> {
    let toks = block_toks(block);
    let head = "let __Ilen = __Ipfx::deserialize_reader(__Ir)? as usize; if __Ilen == 0 { Ok(Self::new()) } else";
    let push_loop = "for _ in 0..__Ilen { __Ivec.push(u8::deserialize_reader(__Ir)?); } Ok(Self::from(__Ivec))";
    let check = |b: &Binds| b.id("r") == param && kind == Kind::Byt;
    let pfx = |b: &Binds| prefix_bytes(b.id("pfx")).ok_or_else(|| bad(file, block.span(), "borsh length prefix type"));

    if let Some(b) = matches(
        &format!("{head} {{ let mut __Ivec = Vec::with_capacity(__Ilen.min(__Ncap)); {push_loop} }}"),
        &toks,
    ) {
        if check(&b) {
            return Ok(format!(".reader {} true (.minLen {}) true .fromVec", pfx(&b)?, b.num("cap")));
        }
    }
    if let Some(b) = matches(
        &format!("{head} {{ let mut __Ivec = Vec::with_capacity(core::cmp::min(__Ilen, __Ncap)); {push_loop} }}"),
        &toks,
    ) {
        if check(&b) {
            return Ok(format!(".reader {} true (.minLen {}) true .fromVec", pfx(&b)?, b.num("cap")));
        }
    }
    if let Some(b) = matches(&format!("{head} {{ let mut __Ivec = Vec::with_capacity(__Ilen); {push_loop} }}"), &toks) {
        if check(&b) {
            return Ok(format!(".reader {} true .exact true .fromVec", pfx(&b)?));
        }
    }
    if let Some(b) = matches(
        &format!(
            "{head} {{ let mut __Ires = Self::with_capacity(__Ilen); \
             let __Isl = __Ires.spare_capacity_mut(); \
             for __Ib in __Isl.iter_mut().take(__Ilen) {{ __Ib.write(u8::deserialize_reader(__Ir)?); }} \
             unsafe {{ __Ires.set_len(__Ilen); }} \
             Ok(__Ires) }}"
        ),
        &toks,
    ) {
        if check(&b) {
            return Ok(format!(".reader {} true .exact true .setLen", pfx(&b)?));
        }
    }
    let via = "let __Ib: HipByt<__IB> = HipByt::deserialize_reader(__Ir)?;";
    if let Some(b) = matches(&format!("{via} Self::try_from(__Ib).map_err __Targs"), &toks) {
        if b.id("r") == param && kind == Kind::Str {
            // the closure must build an `InvalidData` error
            let text = block.to_token_stream().to_string();
            if text.contains("ErrorKind :: InvalidData") {
                return Ok(".viaBytThenValidate".into());
            }
        }
    }
    if let Some(b) = matches(&format!("{via} Ok(unsafe {{ Self::from_utf8_unchecked(__Ib) }})"), &toks) {
        if b.id("r") == param && kind == Kind::Str {
            return Ok(".viaBytUnchecked".into());
        }
    }
    Err(bad(file, block.span(), "borsh deserialize_reader body"))
}

fn parse_borsh_ser_body(file: &SrcFile, block: &syn::Block, param: &str, kind: Kind) -> R<&'static str> {
    let toks = block_toks(block);
    for (pat, kinds) in [
        ("self.as_slice().serialize(__Iw)", &[Kind::Byt][..]),
        ("self.as_bytes().serialize(__Iw)", &[Kind::Byt, Kind::Str][..]),
    ] {
        if let Some(b) = matches(pat, &toks) {
            if b.id("w") == param && kinds.contains(&kind) {
                return Ok(".sliceU8");
            }
        }
    }
    Err(bad(file, block.span(), "borsh serialize body"))
}

/// `impl … for HipX<'lt, B>`: the kind and the written lifetime.
fn hip_self(imp: &syn::ItemImpl) -> Option<(Kind, Option<String>)> {
    if let syn::Type::Path(p) = &*imp.self_ty {
        let id = p.path.segments.last()?.ident.to_string();
        let k = Kind::from_ident(&id)?;
        return Some((k, first_lifetime_arg(&p.path)));
    }
    None
}

struct BstrRow {
    src: &'static str,
    kind: Kind,
    fallible: bool,
    body: Body,
    loc: String,
}

/// Source class of a bstr conversion: `&'a BStr`, `BString`, `Cow<'a, BStr>`.
fn bstr_source(t: &syn::Type) -> Option<(&'static str, Option<String>)> {
    match t {
        syn::Type::Reference(r) if r.mutability.is_none() => {
            if type_last_ident(&r.elem).as_deref() == Some("BStr") {
                return Some(("ref", r.lifetime.as_ref().map(|l| l.ident.to_string())));
            }
            None
        }
        syn::Type::Path(p) => {
            let last = p.path.segments.last()?;
            if last.ident == "BString" {
                return Some(("owned", None));
            }
            if last.ident == "Cow" {
                if let Some(inner) = first_type_arg(&p.path) {
                    if type_last_ident(inner).as_deref() == Some("BStr") {
                        return Some(("cow", first_lifetime_arg(&p.path)));
                    }
                }
            }
            None
        }
        _ => None,
    }
}

fn mentions(t: &impl ToTokens, words: &[&str]) -> bool {
    let s = t.to_token_stream().to_string();
    words.iter().any(|w| s.split(|c: char| !c.is_alphanumeric() && c != '_').any(|x| x == *w))
}

fn parse_bstr_impl(file: &SrcFile, imp: &syn::ItemImpl, trait_path: &syn::Path, rows: &mut Vec<BstrRow>) -> R<()> {
    let tname = trait_path.segments.last().unwrap().ident.to_string();
    let hip = hip_self(imp);
    match tname.as_str() {
        "Borrow" | "AsRef" | "PartialEq" | "PartialOrd" => return Ok(()),
        "From" | "TryFrom" => {}
        _ => return Err(bad(file, imp.span(), &format!("impl of `{tname}` in a bstr module"))),
    }
    let src_ty = first_type_arg(trait_path).ok_or_else(|| bad(file, trait_path.span(), "conversion source"))?;
    let (kind, self_lt) = match hip {
        Some(x) => x,
        None => {
            // conversion OUT of a Hip type (`From<HipByt> for BString`): cannot create a Hip value
            if mentions(&imp.self_ty, &["HipByt", "HipStr", "HipOsStr", "HipPath"]) {
                return Err(bad(file, imp.span(), "conversion target"));
            }
            return Ok(());
        }
    };
    let fallible = tname == "TryFrom";
    let fname = if fallible { "try_from" } else { "from" };
    let mut func = None;
    for it in &imp.items {
        match it {
            syn::ImplItem::Fn(f) if f.sig.ident == fname => func = Some(f),
            syn::ImplItem::Type(t) if fallible && t.ident == "Error" => {}
            other => return Err(bad(file, other.span(), "item in bstr conversion impl")),
        }
    }
    let func = func.ok_or_else(|| bad(file, imp.span(), "conversion without fn"))?;
    let (pname, _) = nth_param(&func.sig, 0).ok_or_else(|| bad(file, func.sig.span(), "conversion parameter"))?;
    let (src, src_lt) = bstr_source(src_ty).ok_or_else(|| bad(file, src_ty.span(), "conversion source type"))?;
    let long = src_lt.is_some() && src_lt != Some("_".into()) && src_lt == self_lt;
    let toks = block_toks(&func.block);
    let here = loc(file, imp.impl_token.span());
    let unsupported = || bad(file, func.block.span(), "bstr conversion body");
    let mut push = |src: &'static str, body: Body| rows.push(BstrRow { src, kind, fallible, body, loc: here.clone() });
    match (src, kind, fallible) {
        ("ref", Kind::Byt, false) => {
            let b = matches("__IK::borrowed(__Iv.as_ref())", &toks).ok_or_else(unsupported)?;
            if b.id("v") != pname || !long || !(b.id("K") == "HipByt" || b.id("K") == "Self") {
                return Err(unsupported());
            }
            push(".bstrRef", Body::Borrow);
        }
        ("owned", Kind::Byt, false) => {
            let b = matches("__IK::from(Vec::from(__Iv))", &toks).ok_or_else(unsupported)?;
            if b.id("v") != pname || !(b.id("K") == "HipByt" || b.id("K") == "Self") {
                return Err(unsupported());
            }
            push(".bstring", Body::Take);
        }
        ("cow", Kind::Byt, false) => {
            let b = matches(
                "match __Iv { Cow::Borrowed(__Ib) => Self::from(__Ib), Cow::Owned(__Io) => Self::from(__Io) }",
                &toks,
            )
            .ok_or_else(unsupported)?;
            if b.id("v") != pname || !long {
                return Err(unsupported());
            }
            // the two arms dispatch to the `&BStr` and `BString` conversions of the same type:
            // their bodies are copied from those rows once the whole file is read
            push(".cowBorrowed", Body::Error);
            push(".cowOwned", Body::Error);
        }
        ("owned", Kind::Str, true) => {
            let b = matches(
                "let __Ivec = Vec::from(__Iv); let __Istring = String::from_utf8(__Ivec)?; Ok(Self::from(__Istring))",
                &toks,
            )
            .ok_or_else(unsupported)?;
            if b.id("v") != pname {
                return Err(unsupported());
            }
            push(".bstring", Body::ValidateThen(Box::new(Body::Take)));
        }
        ("ref", Kind::Str, true) => {
            let b = matches(
                "let __Isl = <&'__Ia [u8]>::from(__Iv); let __Istring = str::from_utf8(__Isl)?; Ok(Self::borrowed(__Istring))",
                &toks,
            )
            .ok_or_else(unsupported)?;
            if b.id("v") != pname || !long || Some(b.id("a").to_string()) != self_lt {
                return Err(unsupported());
            }
            push(".bstrRef", Body::ValidateThen(Box::new(Body::Borrow)));
        }
        _ => return Err(bad(file, imp.span(), "bstr conversion")),
    }
    Ok(())
}

// ---------------------------------------------------------------------------------------------
// Driver
// ---------------------------------------------------------------------------------------------

struct BorshRow {
    kind: Kind,
    shape: String,
    io: Vec<String>,
    uses_unsafe: bool,
    loc: String,
}

#[derive(Default)]
struct Tables {
    visitors: Vec<VisitorRow>,
    de: Vec<DeRow>,
    ser: Vec<(Kind, &'static str, String)>,
    borsh_de: Vec<BorshRow>,
    borsh_ser: Vec<BorshRow>,
    aux: Vec<AuxVisitor>,
    bstr: Vec<BstrRow>,
}

fn is_codec_file(rel: &str) -> Option<&'static str> {
    if rel.ends_with("/serde.rs") {
        Some("serde")
    } else if rel.ends_with("/borsh.rs") {
        Some("borsh")
    } else if rel.ends_with("/bstr.rs") {
        Some("bstr")
    } else {
        None
    }
}

fn scan_items(file: &SrcFile, items: &[syn::Item], t: &mut Tables) -> R<()> {
    let module = is_codec_file(&file.rel);
    for item in items {
        match item {
            syn::Item::Mod(m) => {
                if is_cfg_test(&m.attrs) {
                    continue;
                }
                if let Some((_, inner)) = &m.content {
                    scan_items(file, inner, t)?;
                }
            }
            syn::Item::Impl(imp) => {
                let Some((_, trait_path, _)) = &imp.trait_ else {
                    if module.is_some() {
                        return Err(bad(file, imp.span(), "inherent impl in a serialisation module"));
                    }
                    continue;
                };
                let tname = trait_path.segments.last().unwrap().ident.to_string();
                match tname.as_str() {
                    "Visitor" => match parse_any_visitor(file, imp, trait_path)? {
                        ParsedVisitor::Hip(v) => t.visitors.push(v),
                        ParsedVisitor::Aux(a) => t.aux.push(a),
                    },
                    "Deserialize" => {
                        let (kind, _) = hip_self(imp).ok_or_else(|| bad(file, imp.span(), "Deserialize for a non-Hip type"))?;
                        // `deserialize` (required, modelled) and optionally `deserialize_in_place`
                        // (recorded as an override; its body is not modelled)
                        let mut func = None;
                        let mut in_place = false;
                        for it in &imp.items {
                            match it {
                                syn::ImplItem::Fn(f) if f.sig.ident == "deserialize" && func.is_none() => func = Some(f),
                                syn::ImplItem::Fn(f) if f.sig.ident == "deserialize_in_place" && !in_place => in_place = true,
                                other => return Err(bad(file, other.span(), "item in impl Deserialize")),
                            }
                        }
                        let f = func.ok_or_else(|| bad(file, imp.span(), "impl without `fn deserialize`"))?;
                        let (p, _) = nth_param(&f.sig, 0).ok_or_else(|| bad(file, f.sig.span(), "deserialize parameter"))?;
                        let target = parse_de_body(file, &f.block, &p, kind, false)?;
                        t.de.push(DeRow { kind, borrowing: false, target, in_place, loc: loc(file, imp.impl_token.span()), file: file.rel.clone() });
                    }
                    "Serialize" => {
                        let (kind, _) = hip_self(imp).ok_or_else(|| bad(file, imp.span(), "Serialize for a non-Hip type"))?;
                        let f = single_fn(file, imp, "serialize")?;
                        let (p, _) = nth_param(&f.sig, 0).ok_or_else(|| bad(file, f.sig.span(), "serialize parameter"))?;
                        let call = parse_ser_body(file, &f.block, &p, kind)?;
                        t.ser.push((kind, call, loc(file, imp.impl_token.span())));
                    }
                    "BorshDeserialize" => {
                        let (kind, _) = hip_self(imp).ok_or_else(|| bad(file, imp.span(), "BorshDeserialize for a non-Hip type"))?;
                        let f = single_fn(file, imp, "deserialize_reader")?;
                        let (p, _) = nth_param(&f.sig, 0).ok_or_else(|| bad(file, f.sig.span(), "reader parameter"))?;
                        let (io, uses_unsafe) = io_scan(&f.block, &p);
                        // a body matching no template is still a row (shape `.other`, which the
                        // row predicate rejects) as long as the uses of the reader could be listed
                        let shape = match parse_borsh_de_body(file, &f.block, &p, kind) {
                            Ok(s) => s,
                            Err(_) if !io.is_empty() => ".other".to_string(),
                            Err(e) => return Err(e),
                        };
                        t.borsh_de.push(BorshRow { kind, shape, io, uses_unsafe, loc: loc(file, imp.impl_token.span()) });
                    }
                    "BorshSerialize" => {
                        let (kind, _) = hip_self(imp).ok_or_else(|| bad(file, imp.span(), "BorshSerialize for a non-Hip type"))?;
                        let f = single_fn(file, imp, "serialize")?;
                        let (p, _) = nth_param(&f.sig, 0).ok_or_else(|| bad(file, f.sig.span(), "writer parameter"))?;
                        let (io, uses_unsafe) = io_scan(&f.block, &p);
                        let shape = match parse_borsh_ser_body(file, &f.block, &p, kind) {
                            Ok(s) => s.to_string(),
                            Err(_) if !io.is_empty() => ".other".to_string(),
                            Err(e) => return Err(e),
                        };
                        t.borsh_ser.push(BorshRow { kind, shape, io, uses_unsafe, loc: loc(file, imp.impl_token.span()) });
                    }
                    _ if module == Some("bstr") => parse_bstr_impl(file, imp, trait_path, &mut t.bstr)?,
                    _ if module.is_some() => {
                        return Err(bad(file, imp.span(), &format!("impl of `{tname}` in a serialisation module")))
                    }
                    _ => {
                        // elsewhere: only conversions that mention a bstr type would matter
                        if mentions(trait_path, &["BStr", "BString"]) && (tname == "From" || tname == "TryFrom") {
                            return Err(bad(file, imp.span(), "bstr conversion outside a bstr module"));
                        }
                    }
                }
            }
            syn::Item::Fn(f) => {
                let name = f.sig.ident.to_string();
                match module {
                    Some("serde") => {
                        if name != "borrow_deserialize" {
                            return Err(bad(file, f.sig.span(), &format!("free function `{name}` in a serde module")));
                        }
                        // return type: Result<HipX<'a, B>, D::Error>
                        let kind = match &f.sig.output {
                            syn::ReturnType::Type(_, ty) => match &**ty {
                                syn::Type::Path(p) if p.path.segments.last().map_or(false, |s| s.ident == "Result") => {
                                    first_type_arg(&p.path).and_then(type_last_ident).and_then(|s| Kind::from_ident(&s))
                                }
                                _ => None,
                            },
                            _ => None,
                        }
                        .ok_or_else(|| bad(file, f.sig.span(), "borrow_deserialize return type"))?;
                        let (p, _) = nth_param(&f.sig, 0).ok_or_else(|| bad(file, f.sig.span(), "borrow_deserialize parameter"))?;
                        let target = parse_de_body(file, &f.block, &p, kind, true)?;
                        t.de.push(DeRow { kind, borrowing: true, target, in_place: false, loc: loc(file, f.sig.fn_token.span()), file: file.rel.clone() });
                    }
                    Some("borsh") => return Err(bad(file, f.sig.span(), "free function in a borsh module")),
                    Some("bstr") => {
                        if mentions(&f.sig.output, &["HipByt", "HipStr", "HipOsStr", "HipPath", "Self"]) {
                            return Err(bad(file, f.sig.span(), "free function producing a Hip value in a bstr module"));
                        }
                    }
                    _ => {}
                }
            }
            syn::Item::Macro(m) => {
                if module.is_some() {
                    let name = m.mac.path.segments.last().map(|s| s.ident.to_string()).unwrap_or_default();
                    if !(module == Some("bstr") && (name == "symmetric_eq" || name == "symmetric_ord")) {
                        return Err(bad(file, m.span(), &format!("macro `{name}!` in a serialisation module")));
                    }
                }
            }
            syn::Item::Use(_) | syn::Item::Const(_) | syn::Item::Struct(_) => {}
            other => {
                if module.is_some() {
                    return Err(bad(file, other.span(), "item in a serialisation module"));
                }
            }
        }
    }
    Ok(())
}

pub fn generate(repo: &Repo) -> Result<Vec<GenFile>, String> {
    let mut t = Tables::default();
    for file in repo.non_test_files() {
        scan_items(file, &file.ast.items, &mut t)?;
    }
    for required in [
        "src/bytes/serde.rs",
        "src/string/serde.rs",
        "src/os_string/serde.rs",
        "src/path/serde.rs",
        "src/bytes/borsh.rs",
        "src/string/borsh.rs",
        "src/bytes/bstr.rs",
        "src/string/bstr.rs",
    ] {
        repo.file(required)?;
    }

    // `Cow<BStr>` arms take the body of the conversion they dispatch to
    for i in 0..t.bstr.len() {
        let want = match t.bstr[i].src {
            ".cowBorrowed" => ".bstrRef",
            ".cowOwned" => ".bstring",
            _ => continue,
        };
        let kind = t.bstr[i].kind;
        let target = t
            .bstr
            .iter()
            .find(|r| r.src == want && r.kind == kind && !r.fallible)
            .map(|r| r.body.clone())
            .ok_or_else(|| format!("Gen/Visitors: Cow<BStr> conversion at {} dispatches to a missing `From` impl", t.bstr[i].loc))?;
        t.bstr[i].body = target;
    }

    // visitor ids are unique
    let mut ids = BTreeMap::new();
    for v in &t.visitors {
        let id = visitor_id(v.kind, v.borrows_de)?;
        if let Some(prev) = ids.insert(id, v.loc.clone()) {
            return Err(format!("Gen/Visitors: two visitors with id {id}: {prev} and {}", v.loc));
        }
    }

    let mut o = String::new();
    o.push_str(HEADER);
    o.push_str("import HipVerif.Model.CodecTy\n\n");
    o.push_str("/-! Serialisation table (C16): serde visitors, `Serialize`/`Deserialize` entry points, borsh\n");
    o.push_str("reader/writer shapes and bstr conversions, as read from the crate's source. -/\n\n");
    o.push_str("namespace HipVerif.Gen.Visitors\nopen HipVerif.Codec\n\n");

    o.push_str("def visitors : List VisitorRow := [\n");
    for (i, v) in t.visitors.iter().enumerate() {
        o.push_str(&format!(
            "  {{ id := {}, kind := {}, name := \"{}\", borrowsDe := {}, loc := \"{}\",\n    methods := [\n",
            visitor_id(v.kind, v.borrows_de)?,
            v.kind.lean(),
            v.name,
            v.borrows_de,
            v.loc
        ));
        for (j, (m, b, l)) in v.methods.iter().enumerate() {
            let sep = if j + 1 == v.methods.len() { "" } else { "," };
            o.push_str(&format!("      ⟨{m}, {}, \"{l}\"⟩{sep}\n", b.lean()));
        }
        let sep = if i + 1 == t.visitors.len() { "" } else { "," };
        o.push_str(&format!("    ] }}{sep}\n"));
    }
    o.push_str("]\n\n");

    o.push_str("def deRows : List DeRow := [\n");
    for (i, d) in t.de.iter().enumerate() {
        let target = match &d.target {
            DeTarget::Visitor { hint, visitor } => {
                let v = t
                    .visitors
                    .iter()
                    .find(|v| v.file == d.file && &v.name == visitor)
                    .ok_or_else(|| format!("Gen/Visitors: visitor `{visitor}` used at {} not found in {}", d.loc, d.file))?;
                format!(".visitor {hint} {}", visitor_id(v.kind, v.borrows_de)?)
            }
            DeTarget::StdOsString => ".stdOsString".to_string(),
            DeTarget::Hip { kind, borrowing } => {
                format!(".hip {} {}", kind.lean(), if *borrowing { ".borrowing" } else { ".owned" })
            }
        };
        let sep = if i + 1 == t.de.len() { "" } else { "," };
        o.push_str(&format!(
            "  ⟨{}, {}, {target}, {}, \"{}\"⟩{sep}\n",
            d.kind.lean(),
            if d.borrowing { ".borrowing" } else { ".owned" },
            d.in_place,
            d.loc
        ));
    }
    o.push_str("]\n\n");

    o.push_str("def auxVisitors : List AuxVisitorRow := [\n");
    for (i, a) in t.aux.iter().enumerate() {
        let sep = if i + 1 == t.aux.len() { "" } else { "," };
        let ms: Vec<String> = a.methods.iter().map(|m| format!("\"{m}\"")).collect();
        o.push_str(&format!("  ⟨\"{}\", \"{}\", [{}], \"{}\"⟩{sep}\n", a.name, a.value, ms.join(", "), a.loc));
    }
    o.push_str("]\n\n");

    o.push_str("def serRows : List SerRow := [\n");
    for (i, (k, c, l)) in t.ser.iter().enumerate() {
        let sep = if i + 1 == t.ser.len() { "" } else { "," };
        o.push_str(&format!("  ⟨{}, {c}, \"{l}\"⟩{sep}\n", k.lean()));
    }
    o.push_str("]\n\n");

    o.push_str("def borshDeRows : List BorshDeRow := [\n");
    for (i, r) in t.borsh_de.iter().enumerate() {
        let sep = if i + 1 == t.borsh_de.len() { "" } else { "," };
        o.push_str(&format!("  ⟨{}, {}, [{}], {}, \"{}\"⟩{sep}\n", r.kind.lean(), r.shape, r.io.join(", "), r.uses_unsafe, r.loc));
    }
    o.push_str("]\n\n");

    o.push_str("def borshSerRows : List BorshSerRow := [\n");
    for (i, r) in t.borsh_ser.iter().enumerate() {
        let sep = if i + 1 == t.borsh_ser.len() { "" } else { "," };
        o.push_str(&format!("  ⟨{}, {}, [{}], {}, \"{}\"⟩{sep}\n", r.kind.lean(), r.shape, r.io.join(", "), r.uses_unsafe, r.loc));
    }
    o.push_str("]\n\n");

    o.push_str("def bstrRows : List BstrRow := [\n");
    for (i, r) in t.bstr.iter().enumerate() {
        let sep = if i + 1 == t.bstr.len() { "" } else { "," };
        o.push_str(&format!(
            "  ⟨{}, {}, {}, {}, \"{}\"⟩{sep}\n",
            r.src,
            r.kind.lean(),
            r.fallible,
            r.body.lean(),
            r.loc
        ));
    }
    o.push_str("]\n\n");
    o.push_str("end HipVerif.Gen.Visitors\n");

    Ok(vec![GenFile { name: "Visitors.lean".into(), content: o }])
}
