//! `Gen/Concat.lean`: which bounds checks guard the copy pass of `HipByt::concat` / `HipByt::join`.
//!
//! Reads the bodies of the two functions in src/bytes.rs and records
//! * how many `assert!(end_ptr <= final_ptr, …)` there are (in closures too) — the per-copy guard,
//! * whether a TOP-LEVEL `assert!(end_ptr == final_ptr, …)` statement precedes the `set_len` call.
//! `debug_assert!`s are not counted: they vanish in release builds.

use syn::visit::Visit;
use syn::{ImplItem, Item, Stmt};

use super::repo::loc;
use super::{GenFile, Repo, HEADER};

struct Macros {
    le_asserts: usize,
}

fn norm(ts: &proc_macro2::TokenStream) -> String {
    ts.to_string().replace(' ', "")
}

impl<'ast> Visit<'ast> for Macros {
    fn visit_macro(&mut self, m: &'ast syn::Macro) {
        if m.path.is_ident("assert") && norm(&m.tokens).starts_with("end_ptr<=final_ptr") {
            self.le_asserts += 1;
        }
    }
}

fn analyse(repo: &Repo, name: &str) -> Result<String, String> {
    use syn::spanned::Spanned;
    let file = repo.file("src/bytes.rs")?;
    for item in &file.ast.items {
        let Item::Impl(imp) = item else { continue };
        if imp.trait_.is_some() {
            continue;
        }
        for ii in &imp.items {
            let ImplItem::Fn(f) = ii else { continue };
            if f.sig.ident != name {
                continue;
            }
            let mut m = Macros { le_asserts: 0 };
            m.visit_block(&f.block);
            // top-level statements: the final equality assert must come before `set_len`
            let mut final_eq = false;
            let mut seen_set_len = false;
            for st in &f.block.stmts {
                let text = quote::quote!(#st).to_string().replace(' ', "");
                if text.contains(".set_len(") {
                    seen_set_len = true;
                }
                if let Stmt::Macro(sm) = st {
                    if sm.mac.path.is_ident("assert")
                        && norm(&sm.mac.tokens).starts_with("end_ptr==final_ptr")
                        && !seen_set_len
                    {
                        final_eq = true;
                    }
                }
            }
            if !seen_set_len {
                return Err(format!(
                    "Gen/Concat: no set_len call in {name} at {}",
                    loc(file, f.span())
                ));
            }
            return Ok(format!(
                "def {name} : Checks := {{ perPiece := {}, finalEq := {}, loc := \"{}\" }}\n",
                m.le_asserts,
                final_eq,
                loc(file, f.sig.span())
            ));
        }
    }
    Err(format!("Gen/Concat: inherent fn {name} not found in src/bytes.rs"))
}

pub fn generate(repo: &Repo) -> Result<Vec<GenFile>, String> {
    let mut s = String::from(HEADER);
    s.push_str("import HipVerif.Model.ConcatTy\n\nnamespace HipVerif.Gen.Concat\nopen HipVerif.ConcatTy\n\n");
    s.push_str(&analyse(repo, "concat")?);
    s.push('\n');
    s.push_str(&analyse(repo, "join")?);
    s.push_str("\nend HipVerif.Gen.Concat\n");
    Ok(vec![GenFile { name: "Concat.lean".into(), content: s }])
}
