//! `Gen/Concat.lean`: which bounds checks guard the copy pass of `HipByt::concat` / `HipByt::join`.
//!
//! Reads the bodies of the two functions in src/bytes.rs and records
//! * how many `assert!(end_ptr <= final_ptr, …)` there are (in closures too) — the per-copy guard,
//! * whether a TOP-LEVEL `assert!(end_ptr == final_ptr, …)` statement precedes the `set_len` call.
//! `debug_assert!`s are not counted: they vanish in release builds.
//! * how many times the body evaluates `sep.as_ref()` (`sepEvals`): a separator whose `AsRef` answers
//!   differently on successive calls must be read ONCE, else the buffer is sized with one answer and
//!   filled with another. Also recorded for `join_slices` (bytes.rs) and `HipStr::join` (string.rs).

use syn::visit::Visit;
use syn::{ImplItem, Item, Stmt};

use super::repo::loc;
use super::{GenFile, Repo, HEADER};

struct Macros {
    le_asserts: usize,
}

fn norm(ts: &proc_macro2::TokenStream) -> String {
    ts.to_string().replace(' ', "")
}

impl<'ast> Visit<'ast> for Macros {
    fn visit_macro(&mut self, m: &'ast syn::Macro) {
        if m.path.is_ident("assert") && norm(&m.tokens).starts_with("end_ptr<=final_ptr") {
            self.le_asserts += 1;
        }
    }
}

fn analyse(repo: &Repo, name: &str) -> Result<String, String> {
    analyse_in(repo, "src/bytes.rs", name, name, true)
}

fn analyse_in(repo: &Repo, path: &str, name: &str, lean_name: &str, needs_set_len: bool) -> Result<String, String> {
    use syn::spanned::Spanned;
    let file = repo.file(path)?;
    for item in &file.ast.items {
        let Item::Impl(imp) = item else { continue };
        if imp.trait_.is_some() {
            continue;
        }
        for ii in &imp.items {
            let ImplItem::Fn(f) = ii else { continue };
            if f.sig.ident != name {
                continue;
            }
            let mut m = Macros { le_asserts: 0 };
            m.visit_block(&f.block);
            // top-level statements: the final equality assert must come before `set_len`
            let mut final_eq = false;
            let mut seen_set_len = false;
            for st in &f.block.stmts {
                let text = quote::quote!(#st).to_string().replace(' ', "");
                if text.contains(".set_len(") {
                    seen_set_len = true;
                }
                if let Stmt::Macro(sm) = st {
                    if sm.mac.path.is_ident("assert")
                        && norm(&sm.mac.tokens).starts_with("end_ptr==final_ptr")
                        && !seen_set_len
                    {
                        final_eq = true;
                    }
                }
            }
            let body = quote::quote!(#f).to_string().replace(' ', "");
            let sep_evals = body.matches("sep.as_ref()").count();
            if !seen_set_len && needs_set_len {
                return Err(format!(
                    "Gen/Concat: no set_len call in {name} at {}",
                    loc(file, f.span())
                ));
            }
            return Ok(format!(
                "def {lean_name} : Checks := {{ perPiece := {}, finalEq := {}, sepEvals := {}, loc := \"{}\" }}\n",
                m.le_asserts,
                final_eq,
                sep_evals,
                loc(file, f.sig.span())
            ));
        }
    }
    Err(format!("Gen/Concat: inherent fn {name} not found in {path}"))
}

pub fn generate(repo: &Repo) -> Result<Vec<GenFile>, String> {
    let mut s = String::from(HEADER);
    s.push_str("import HipVerif.Model.ConcatTy\n\nnamespace HipVerif.Gen.Concat\nopen HipVerif.ConcatTy\n\n");
    s.push_str(&analyse(repo, "concat")?);
    s.push('\n');
    s.push_str(&analyse(repo, "join")?);
    s.push('\n');
    s.push_str(&analyse_in(repo, "src/bytes.rs", "join_slices", "joinSlices", true)?);
    s.push('\n');
    s.push_str(&analyse_in(repo, "src/string.rs", "join", "strJoin", false)?);
    s.push_str("\nend HipVerif.Gen.Concat\n");
    Ok(vec![GenFile { name: "Concat.lean".into(), content: s }])
}
