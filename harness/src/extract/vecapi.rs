//! Generator of `Gen/VecApi.lean` (C13 coverage gate).
//!
//! * `vecFns`: every callable function of the vector family — the rows of the public-function
//!   table (`pubfns::collect`, same reachability rules as `Gen/PubFns.lean`) whose path is in
//!   `vecs::…`, `common::drain::…` or `common::traits::…`.
//! * `driveOps`: the operation names `harness/src/bin/vecdrive.rs` dispatches on — the string
//!   literals returned by `Op::name`, which must also be accepted by `Op::parse`.
//! * `driveCalls`: every method / associated-function identifier vecdrive.rs CALLS
//!   (`recv.name(…)`, `recv.name::<…>(…)`, `Type::name(…)`, `Trait::name(…)`), found by a token
//!   scan so that calls inside `macro_rules!` bodies and macro invocations count too.
//!
//! `Props/C13Api.lean` proves over these tables that every safe function of the vector family is
//! driven by a named operation of the list model (whose name vecdrive dispatches on and whose
//! method vecdrive calls), or watched by a named monitor, or on the reviewed list.
//!
//! Fails closed: no `impl Op { fn name … }` / `fn parse`, a name not accepted by `parse`, fewer
//! rows than expected → `Err`.

use std::collections::BTreeSet;

use proc_macro2::{Delimiter, TokenStream, TokenTree};

use super::autotraits::{lean_string, CrateModel};
use super::pubfns::{collect, key_of};
use super::{GenFile, Repo, HEADER};

const VECDRIVE_SRC: &str = include_str!("../bin/vecdrive.rs");

/// Is the row (by its display name) part of the vector family?
fn in_scope(name: &str) -> bool {
    let n = name.strip_prefix('<').unwrap_or(name);
    n.starts_with("vecs::") || n.starts_with("common::drain::") || n.starts_with("common::traits::")
}

/// String literals in the body of `impl Op { fn <which>(..) }`; for `parse`, only the first
/// element of the slice patterns (`["push", v] => …`).
fn op_fn_literals(file: &syn::File, which: &str) -> Result<Vec<String>, String> {
    for item in &file.items {
        let syn::Item::Impl(im) = item else { continue };
        if im.trait_.is_some() {
            continue;
        }
        let syn::Type::Path(tp) = &*im.self_ty else { continue };
        if !tp.path.is_ident("Op") {
            continue;
        }
        for it in &im.items {
            let syn::ImplItem::Fn(f) = it else { continue };
            if f.sig.ident != which {
                continue;
            }
            let mut out = vec![];
            if which == "name" {
                struct V<'a>(&'a mut Vec<String>);
                impl<'ast> syn::visit::Visit<'ast> for V<'_> {
                    fn visit_arm(&mut self, a: &'ast syn::Arm) {
                        match &*a.body {
                            syn::Expr::Lit(syn::ExprLit { lit: syn::Lit::Str(s), .. }) => self.0.push(s.value()),
                            _ => {}
                        }
                        syn::visit::visit_arm(self, a);
                    }
                }
                syn::visit::Visit::visit_block(&mut V(&mut out), &f.block);
            } else {
                struct P<'a>(&'a mut Vec<String>);
                impl<'ast> syn::visit::Visit<'ast> for P<'_> {
                    fn visit_pat_slice(&mut self, p: &'ast syn::PatSlice) {
                        if let Some(syn::Pat::Lit(syn::ExprLit { lit: syn::Lit::Str(s), .. })) = p.elems.first() {
                            self.0.push(s.value());
                        }
                    }
                }
                syn::visit::Visit::visit_block(&mut P(&mut out), &f.block);
            }
            return Ok(out);
        }
    }
    Err(format!("vecdrive.rs: `impl Op {{ fn {which} }}` not found"))
}

/// Identifiers that are called: `. name (`, `. name :: < … > (`, `:: name (`, `:: name :: < … > (`.
fn called_idents(ts: TokenStream, out: &mut BTreeSet<String>) {
    let toks: Vec<TokenTree> = ts.into_iter().collect();
    let is_p = |t: &TokenTree, c: char| matches!(t, TokenTree::Punct(p) if p.as_char() == c);
    for i in 0..toks.len() {
        if let TokenTree::Group(g) = &toks[i] {
            called_idents(g.stream(), out);
            continue;
        }
        let TokenTree::Ident(id) = &toks[i] else { continue };
        // preceded by `.` or `::`
        let after_dot = i >= 1 && is_p(&toks[i - 1], '.');
        let after_path = i >= 2 && is_p(&toks[i - 1], ':') && is_p(&toks[i - 2], ':');
        if !after_dot && !after_path {
            continue;
        }
        // followed by `(` — possibly after a turbofish
        let mut j = i + 1;
        if j + 2 < toks.len() && is_p(&toks[j], ':') && is_p(&toks[j + 1], ':') && is_p(&toks[j + 2], '<') {
            let mut depth = 0i32;
            j += 2;
            while j < toks.len() {
                if is_p(&toks[j], '<') {
                    depth += 1;
                } else if is_p(&toks[j], '>') {
                    depth -= 1;
                    if depth == 0 {
                        j += 1;
                        break;
                    }
                }
                j += 1;
            }
        }
        if let Some(TokenTree::Group(g)) = toks.get(j) {
            if g.delimiter() == Delimiter::Parenthesis {
                out.insert(id.to_string());
            }
        }
    }
}

pub fn generate(repo: &Repo) -> Result<Vec<GenFile>, String> {
    let cm = CrateModel::build(repo)?;
    let c = collect(&cm)?;
    let rows: Vec<_> = c.rows.iter().filter(|r| in_scope(&r.name)).collect();
    if rows.len() < 80 {
        return Err(format!("only {} functions of the vector family found", rows.len()));
    }

    let ast = syn::parse_file(VECDRIVE_SRC).map_err(|e| format!("vecdrive.rs: {e}"))?;
    let names = op_fn_literals(&ast, "name")?;
    let parsed = op_fn_literals(&ast, "parse")?;
    if names.len() < 20 {
        return Err(format!("vecdrive.rs: only {} operation names in `Op::name`", names.len()));
    }
    let parsed_set: BTreeSet<&String> = parsed.iter().collect();
    for n in &names {
        if !parsed_set.contains(n) {
            return Err(format!("vecdrive.rs: `Op::name` returns {n:?} but `Op::parse` does not accept it"));
        }
    }
    let name_set: BTreeSet<&String> = names.iter().collect();
    for n in &parsed {
        if !name_set.contains(n) {
            return Err(format!("vecdrive.rs: `Op::parse` accepts {n:?} but `Op::name` never returns it"));
        }
    }
    let mut calls = BTreeSet::new();
    let ts: TokenStream = VECDRIVE_SRC
        .parse()
        .map_err(|e| format!("vecdrive.rs: token scan: {e}"))?;
    called_idents(ts, &mut calls);

    let mut o = String::from(HEADER);
    o.push_str(
        "-- The callable functions of the vector family (rows of the public-function table under\n\
         -- vecs::, common::drain::, common::traits::), the operation names vecdrive.rs dispatches on\n\
         -- and the method identifiers it calls. See harness/src/extract/vecapi.rs.\n\
         import HipVerif.Model.VecApiTy\n\n\
         namespace HipVerif.Gen.VecApi\n\
         open HipVerif.Model.VecApi\n\n",
    );
    o.push_str("def vecFns : List VecFn := [\n");
    for (i, r) in rows.iter().enumerate() {
        o.push_str(&format!(
            "  ⟨{}, {}, {}, {}, {}, {}⟩{}\n",
            lean_string(&r.name),
            key_of(&r.name),
            lean_string(&r.simple),
            key_of(&r.simple),
            r.is_unsafe,
            lean_string(&r.loc),
            if i + 1 < rows.len() { "," } else { "" }
        ));
    }
    o.push_str("]\n\n");
    let mut sorted_names: Vec<&String> = names.iter().collect();
    sorted_names.sort();
    sorted_names.dedup();
    o.push_str("/-- Operation names dispatched by `vecdrive` (`Op::name` = `Op::parse`). -/\n");
    o.push_str("def driveOps : List (String × Nat) := [\n");
    for (i, n) in sorted_names.iter().enumerate() {
        o.push_str(&format!(
            "  ({}, {}){}\n",
            lean_string(n),
            key_of(n),
            if i + 1 < sorted_names.len() { "," } else { "" }
        ));
    }
    o.push_str("]\n\n");
    o.push_str("/-- Identifiers `vecdrive.rs` calls as a method or an associated function. -/\n");
    o.push_str("def driveCalls : List (String × Nat) := [\n");
    let n_calls = calls.len();
    for (i, n) in calls.iter().enumerate() {
        o.push_str(&format!(
            "  ({}, {}){}\n",
            lean_string(n),
            key_of(n),
            if i + 1 < n_calls { "," } else { "" }
        ));
    }
    o.push_str("]\n\nend HipVerif.Gen.VecApi\n");
    Ok(vec![GenFile { name: "VecApi.lean".into(), content: o }])
}
