//! Translator for `Gen/AutoTraits.lean` (property C05) — and the shared *crate model*
//! (`CrateModel`: cfg evaluation, module tree, name resolution, public reachability) that
//! `extract/pubfns.rs` reuses.
//!
//! Generated table: every `struct`/`enum`/`union` of the compiled, non-test source with its
//! type parameters and field types translated into the term language of
//! `HipVerif/Model/AutoTraitTy.lean`, and every `unsafe impl … Send/Sync for …` (and negative
//! impl) with its `Send`/`Sync` where-clauses. Anything not recognised is an `Err`
//! (fail closed): unknown type syntax, a specialised impl (`impl Send for X<Arc>`), a bound on
//! something that is not a plain type parameter, an unknown `cfg` key, …

use std::collections::{BTreeMap, BTreeSet};

use syn::spanned::Spanned;

use super::repo::{loc, SrcFile};
use super::{GenFile, Repo, HEADER};

// ---------------------------------------------------------------------------------------------
// cfg evaluation: ONE fixed configuration (the one the rustc probes are compiled with)
// ---------------------------------------------------------------------------------------------

/// Features enabled in the modelled configuration (the probe crates enable the same ones).
pub const FEATURES_ON: &[&str] = &["std", "serde", "borsh", "bstr"];
const FEATURES_OFF: &[&str] = &["unstable"];

fn eval_cfg_meta(m: &syn::Meta) -> Result<bool, String> {
    use syn::punctuated::Punctuated;
    match m {
        syn::Meta::Path(p) => {
            let id = p
                .get_ident()
                .map(|i| i.to_string())
                .ok_or_else(|| "cfg: non-ident path".to_string())?;
            match id.as_str() {
                "test" | "loom" | "miri" | "coverage_nightly" | "docsrs" | "hipstr_verif"
                | "windows" => Ok(false),
                "unix" | "debug_assertions" => Ok(true),
                other => Err(format!("cfg: unknown predicate `{other}`")),
            }
        }
        syn::Meta::NameValue(nv) => {
            let key = nv
                .path
                .get_ident()
                .map(|i| i.to_string())
                .ok_or_else(|| "cfg: non-ident key".to_string())?;
            let val = match &nv.value {
                syn::Expr::Lit(syn::ExprLit {
                    lit: syn::Lit::Str(s),
                    ..
                }) => s.value(),
                _ => return Err(format!("cfg: non-string value for `{key}`")),
            };
            match key.as_str() {
                "feature" => {
                    if FEATURES_ON.contains(&val.as_str()) {
                        Ok(true)
                    } else if FEATURES_OFF.contains(&val.as_str()) {
                        Ok(false)
                    } else {
                        Err(format!("cfg: unknown feature `{val}`"))
                    }
                }
                "target_endian" => Ok(val == "little"),
                "target_pointer_width" => Ok(val == "64"),
                "target_has_atomic" => Ok(val == "ptr" || val == "64" || val == "8"),
                other => Err(format!("cfg: unknown key `{other}`")),
            }
        }
        syn::Meta::List(l) => {
            let id = l
                .path
                .get_ident()
                .map(|i| i.to_string())
                .ok_or_else(|| "cfg: non-ident list".to_string())?;
            let inner = l
                .parse_args_with(Punctuated::<syn::Meta, syn::Token![,]>::parse_terminated)
                .map_err(|e| format!("cfg: {e}"))?;
            match id.as_str() {
                "all" => {
                    let mut r = true;
                    for m in &inner {
                        r &= eval_cfg_meta(m)?;
                    }
                    Ok(r)
                }
                "any" => {
                    let mut r = false;
                    for m in &inner {
                        r |= eval_cfg_meta(m)?;
                    }
                    Ok(r)
                }
                "not" => {
                    if inner.len() != 1 {
                        return Err("cfg: not() with != 1 argument".into());
                    }
                    Ok(!eval_cfg_meta(&inner[0])?)
                }
                other => Err(format!("cfg: unknown combinator `{other}`")),
            }
        }
    }
}

/// Is the item carrying `attrs` compiled in the modelled configuration?
pub fn cfg_active(attrs: &[syn::Attribute]) -> Result<bool, String> {
    for a in attrs {
        if a.path().is_ident("cfg") {
            let m: syn::Meta = a.parse_args().map_err(|e| format!("cfg: {e}"))?;
            if !eval_cfg_meta(&m)? {
                return Ok(false);
            }
        }
    }
    Ok(true)
}

pub fn item_attrs(it: &syn::Item) -> &[syn::Attribute] {
    use syn::Item::*;
    match it {
        Const(i) => &i.attrs,
        Enum(i) => &i.attrs,
        ExternCrate(i) => &i.attrs,
        Fn(i) => &i.attrs,
        ForeignMod(i) => &i.attrs,
        Impl(i) => &i.attrs,
        Macro(i) => &i.attrs,
        Mod(i) => &i.attrs,
        Static(i) => &i.attrs,
        Struct(i) => &i.attrs,
        Trait(i) => &i.attrs,
        TraitAlias(i) => &i.attrs,
        Type(i) => &i.attrs,
        Union(i) => &i.attrs,
        Use(i) => &i.attrs,
        _ => &[],
    }
}

// ---------------------------------------------------------------------------------------------
// crate model
// ---------------------------------------------------------------------------------------------

#[derive(Clone, Copy, PartialEq, Eq, Debug)]
pub enum Vis {
    Pub,
    Restricted,
    Private,
}

pub fn vis_of(v: &syn::Visibility) -> Vis {
    match v {
        syn::Visibility::Public(_) => Vis::Pub,
        syn::Visibility::Restricted(_) => Vis::Restricted,
        syn::Visibility::Inherited => Vis::Private,
    }
}

pub enum DefKind<'r> {
    Struct(&'r syn::ItemStruct),
    Enum(&'r syn::ItemEnum),
    Union(&'r syn::ItemUnion),
    Alias(&'r syn::ItemType),
    Trait(&'r syn::ItemTrait),
    Fn(&'r syn::ItemFn),
    Mod(usize),
    /// const / static / macro_rules: nameable, not a type
    Other,
}

pub struct Def<'r> {
    pub module: usize,
    pub name: String,
    pub kind: DefKind<'r>,
    pub vis: Vis,
    /// some public path (`bytes::HipByt`) if the item is nameable from outside the crate
    pub public_path: Option<Vec<String>>,
}

pub struct UseBinding {
    pub alias: String,
    pub path: Vec<String>,
    pub leading_colon: bool,
    pub is_pub: bool,
}

pub struct GlobUse {
    pub path: Vec<String>,
    pub leading_colon: bool,
    pub is_pub: bool,
}

pub struct Module<'r> {
    pub path: Vec<String>,
    pub file: &'r SrcFile,
    pub items: Vec<&'r syn::Item>,
    pub parent: Option<usize>,
    pub defs: Vec<usize>,
    pub uses: Vec<UseBinding>,
    pub globs: Vec<GlobUse>,
    /// some public path if every module on it is `pub` (or it was `pub use`d)
    pub public_path: Option<Vec<String>>,
}

#[derive(Clone, Debug, PartialEq, Eq)]
pub enum Res {
    Def(usize),
    /// a path into another crate (`alloc::vec::Vec`)
    External(Vec<String>),
    Prim(String),
}

pub struct CrateModel<'r> {
    pub modules: Vec<Module<'r>>,
    pub defs: Vec<Def<'r>>,
}

const EXTERN_CRATES: &[&str] = &["core", "alloc", "std", "bstr", "serde", "borsh"];
const PRIMS: &[&str] = &[
    "u8", "u16", "u32", "u64", "u128", "usize", "i8", "i16", "i32", "i64", "i128", "isize",
    "bool", "char", "str", "f32", "f64",
];
/// `core::prelude` (the crate is `no_std`, edition 2021).
const PRELUDE: &[(&str, &str)] = &[
    ("Option", "core::option::Option"),
    ("Some", "core::option::Option::Some"),
    ("None", "core::option::Option::None"),
    ("Result", "core::result::Result"),
    ("Ok", "core::result::Result::Ok"),
    ("Err", "core::result::Result::Err"),
    ("Send", "core::marker::Send"),
    ("Sync", "core::marker::Sync"),
    ("Sized", "core::marker::Sized"),
    ("Copy", "core::marker::Copy"),
    ("Unpin", "core::marker::Unpin"),
    ("Clone", "core::clone::Clone"),
    ("Default", "core::default::Default"),
    ("Drop", "core::ops::Drop"),
    ("Fn", "core::ops::Fn"),
    ("FnMut", "core::ops::FnMut"),
    ("FnOnce", "core::ops::FnOnce"),
    ("From", "core::convert::From"),
    ("Into", "core::convert::Into"),
    ("TryFrom", "core::convert::TryFrom"),
    ("TryInto", "core::convert::TryInto"),
    ("AsRef", "core::convert::AsRef"),
    ("AsMut", "core::convert::AsMut"),
    ("Iterator", "core::iter::Iterator"),
    ("IntoIterator", "core::iter::IntoIterator"),
    ("DoubleEndedIterator", "core::iter::DoubleEndedIterator"),
    ("ExactSizeIterator", "core::iter::ExactSizeIterator"),
    ("Extend", "core::iter::Extend"),
    ("FromIterator", "core::iter::FromIterator"),
    ("PartialEq", "core::cmp::PartialEq"),
    ("Eq", "core::cmp::Eq"),
    ("PartialOrd", "core::cmp::PartialOrd"),
    ("Ord", "core::cmp::Ord"),
];

fn flatten_use(
    tree: &syn::UseTree,
    prefix: &mut Vec<String>,
    leading_colon: bool,
    is_pub: bool,
    m: &mut Module,
) {
    match tree {
        syn::UseTree::Path(p) => {
            prefix.push(p.ident.to_string());
            flatten_use(&p.tree, prefix, leading_colon, is_pub, m);
            prefix.pop();
        }
        syn::UseTree::Name(n) => {
            let name = n.ident.to_string();
            if name == "self" {
                if let Some(last) = prefix.last() {
                    m.uses.push(UseBinding {
                        alias: last.clone(),
                        path: prefix.clone(),
                        leading_colon,
                        is_pub,
                    });
                }
            } else {
                let mut path = prefix.clone();
                path.push(name.clone());
                m.uses.push(UseBinding {
                    alias: name,
                    path,
                    leading_colon,
                    is_pub,
                });
            }
        }
        syn::UseTree::Rename(r) => {
            let alias = r.rename.to_string();
            if alias != "_" {
                let mut path = prefix.clone();
                let name = r.ident.to_string();
                if name != "self" {
                    path.push(name);
                }
                m.uses.push(UseBinding {
                    alias,
                    path,
                    leading_colon,
                    is_pub,
                });
            }
        }
        syn::UseTree::Glob(_) => m.globs.push(GlobUse {
            path: prefix.clone(),
            leading_colon,
            is_pub,
        }),
        syn::UseTree::Group(g) => {
            for t in &g.items {
                flatten_use(t, prefix, leading_colon, is_pub, m);
            }
        }
    }
}

impl<'r> CrateModel<'r> {
    pub fn build(repo: &'r Repo) -> Result<CrateModel<'r>, String> {
        let mut cm = CrateModel {
            modules: vec![],
            defs: vec![],
        };
        let root = repo.file("src/lib.rs")?;
        cm.add_module(repo, vec![], root, root.ast.items.iter().collect(), None)?;
        cm.compute_public()?;
        Ok(cm)
    }

    fn add_module(
        &mut self,
        repo: &'r Repo,
        path: Vec<String>,
        file: &'r SrcFile,
        items: Vec<&'r syn::Item>,
        parent: Option<usize>,
    ) -> Result<usize, String> {
        let id = self.modules.len();
        self.modules.push(Module {
            path: path.clone(),
            file,
            items: vec![],
            parent,
            defs: vec![],
            uses: vec![],
            globs: vec![],
            public_path: None,
        });
        let mut active = vec![];
        for it in items {
            if !cfg_active(item_attrs(it)).map_err(|e| format!("{}: {e}", file.rel))? {
                continue;
            }
            active.push(it);
        }
        for it in &active {
            let (name, kind, vis) = match it {
                syn::Item::Struct(s) => (s.ident.to_string(), DefKind::Struct(s), vis_of(&s.vis)),
                syn::Item::Enum(s) => (s.ident.to_string(), DefKind::Enum(s), vis_of(&s.vis)),
                syn::Item::Union(s) => (s.ident.to_string(), DefKind::Union(s), vis_of(&s.vis)),
                syn::Item::Type(s) => (s.ident.to_string(), DefKind::Alias(s), vis_of(&s.vis)),
                syn::Item::Trait(s) => (s.ident.to_string(), DefKind::Trait(s), vis_of(&s.vis)),
                syn::Item::Fn(s) => (s.sig.ident.to_string(), DefKind::Fn(s), vis_of(&s.vis)),
                syn::Item::Const(s) => (s.ident.to_string(), DefKind::Other, vis_of(&s.vis)),
                syn::Item::Static(s) => (s.ident.to_string(), DefKind::Other, vis_of(&s.vis)),
                syn::Item::Mod(m) => {
                    for a in &m.attrs {
                        if a.path().is_ident("path") {
                            return Err(format!(
                                "{}: #[path] on module unsupported",
                                loc(file, m.span())
                            ));
                        }
                    }
                    let mut sub = path.clone();
                    sub.push(m.ident.to_string());
                    let child = match &m.content {
                        Some((_, its)) => {
                            self.add_module(repo, sub, file, its.iter().collect(), Some(id))?
                        }
                        None => {
                            let a = format!("src/{}.rs", sub.join("/"));
                            let b = format!("src/{}/mod.rs", sub.join("/"));
                            let f = repo.file(&a).or_else(|_| repo.file(&b)).map_err(|_| {
                                format!("{}: file of module not found", loc(file, m.span()))
                            })?;
                            self.add_module(repo, sub, f, f.ast.items.iter().collect(), Some(id))?
                        }
                    };
                    (m.ident.to_string(), DefKind::Mod(child), vis_of(&m.vis))
                }
                syn::Item::Use(u) => {
                    let is_pub = vis_of(&u.vis) == Vis::Pub;
                    let mut m = std::mem::replace(
                        &mut self.modules[id],
                        Module {
                            path: vec![],
                            file,
                            items: vec![],
                            parent: None,
                            defs: vec![],
                            uses: vec![],
                            globs: vec![],
                            public_path: None,
                        },
                    );
                    flatten_use(&u.tree, &mut vec![], u.leading_colon.is_some(), is_pub, &mut m);
                    self.modules[id] = m;
                    continue;
                }
                syn::Item::Macro(m) => match &m.ident {
                    Some(i) => (i.to_string(), DefKind::Other, Vis::Private),
                    None => continue,
                },
                syn::Item::Impl(_) | syn::Item::ExternCrate(_) | syn::Item::ForeignMod(_) => {
                    continue
                }
                other => {
                    return Err(format!(
                        "{}: unsupported item kind",
                        loc(file, other.span())
                    ))
                }
            };
            let did = self.defs.len();
            self.defs.push(Def {
                module: id,
                name,
                kind,
                vis,
                public_path: None,
            });
            self.modules[id].defs.push(did);
        }
        self.modules[id].items = active;
        Ok(id)
    }

    /// `a::b::Name` (module path of the definition, crate-relative) — the canonical row name.
    pub fn def_path(&self, d: usize) -> String {
        let def = &self.defs[d];
        let mut p = self.modules[def.module].path.clone();
        p.push(def.name.clone());
        p.join("::")
    }

    fn lookup_in_module(&self, m: usize, name: &str, depth: usize) -> Result<Option<Res>, String> {
        if depth > 16 {
            return Err(format!("resolution too deep at `{name}`"));
        }
        let module = &self.modules[m];
        // local definitions: prefer types/modules/traits over values (fn/const) of the same name
        let mut found: Option<usize> = None;
        for &d in &module.defs {
            if self.defs[d].name == name {
                let is_value = matches!(self.defs[d].kind, DefKind::Fn(_) | DefKind::Other);
                if found.is_none() || !is_value {
                    found = Some(d);
                }
            }
        }
        if let Some(d) = found {
            return Ok(Some(Res::Def(d)));
        }
        for u in &module.uses {
            if u.alias == name {
                let (res, rest) = self.resolve_inner(m, &u.path, u.leading_colon, depth + 1, true)?;
                if !rest.is_empty() {
                    // e.g. `use Enum::Variant` — not a type
                    return Ok(Some(match res {
                        Res::External(mut p) => {
                            p.extend(rest);
                            Res::External(p)
                        }
                        other => other,
                    }));
                }
                return Ok(Some(res));
            }
        }
        for g in &module.globs {
            let (res, rest) = self.resolve_inner(m, &g.path, g.leading_colon, depth + 1, true)?;
            if !rest.is_empty() {
                continue;
            }
            if let Res::Def(d) = res {
                if let DefKind::Mod(target) = self.defs[d].kind {
                    if target != m {
                        if let Some(r) = self.lookup_in_module(target, name, depth + 1)? {
                            return Ok(Some(r));
                        }
                    }
                }
            }
            // globs of external modules/enums: cannot enumerate, fall through
        }
        Ok(None)
    }

    fn root_def_for_module(&self, m: usize) -> Option<usize> {
        self.defs
            .iter()
            .position(|d| matches!(d.kind, DefKind::Mod(x) if x == m))
    }

    /// Resolves a path written in module `m`. Returns the resolution and the unresolved tail
    /// (associated items / enum variants).
    fn resolve_inner(
        &self,
        m: usize,
        segs: &[String],
        leading_colon: bool,
        depth: usize,
        in_use: bool,
    ) -> Result<(Res, Vec<String>), String> {
        if segs.is_empty() {
            return Err("empty path".into());
        }
        if leading_colon {
            return Ok((Res::External(segs.to_vec()), vec![]));
        }
        enum Cur {
            Mod(usize),
            Res(Res),
        }
        let mut idx = 0;
        let mut cur = match segs[0].as_str() {
            "crate" => {
                idx = 1;
                Cur::Mod(0)
            }
            "self" => {
                idx = 1;
                Cur::Mod(m)
            }
            "super" => {
                let mut mm = m;
                while idx < segs.len() && segs[idx] == "super" {
                    mm = self.modules[mm]
                        .parent
                        .ok_or_else(|| "super above the crate root".to_string())?;
                    idx += 1;
                }
                Cur::Mod(mm)
            }
            first => {
                idx = 1;
                // `use` paths are resolved like ordinary paths (edition 2018+): names in scope
                // first, then extern crates.
                let _ = in_use;
                if let Some(r) = self.lookup_in_module(m, first, depth + 1)? {
                    Cur::Res(r)
                } else if EXTERN_CRATES.contains(&first) {
                    Cur::Res(Res::External(vec![first.to_string()]))
                } else if PRIMS.contains(&first) {
                    Cur::Res(Res::Prim(first.to_string()))
                } else if let Some((_, full)) = PRELUDE.iter().find(|(n, _)| *n == first) {
                    Cur::Res(Res::External(
                        full.split("::").map(str::to_string).collect(),
                    ))
                } else {
                    return Err(format!(
                        "cannot resolve `{}` in module `{}`",
                        segs.join("::"),
                        self.modules[m].path.join("::")
                    ));
                }
            }
        };
        loop {
            match cur {
                Cur::Mod(mm) => {
                    if idx >= segs.len() {
                        let d = self
                            .root_def_for_module(mm)
                            .ok_or_else(|| "path names the crate root".to_string())?;
                        return Ok((Res::Def(d), vec![]));
                    }
                    match self.lookup_in_module(mm, &segs[idx], depth + 1)? {
                        Some(r) => {
                            idx += 1;
                            cur = Cur::Res(r);
                        }
                        None => {
                            return Err(format!(
                                "cannot resolve `{}` (segment `{}`) from module `{}`",
                                segs.join("::"),
                                segs[idx],
                                self.modules[m].path.join("::")
                            ))
                        }
                    }
                }
                Cur::Res(Res::Def(d)) => {
                    if let DefKind::Mod(mm) = self.defs[d].kind {
                        if idx >= segs.len() {
                            return Ok((Res::Def(d), vec![]));
                        }
                        cur = Cur::Mod(mm);
                    } else {
                        return Ok((Res::Def(d), segs[idx..].to_vec()));
                    }
                }
                Cur::Res(Res::External(mut p)) => {
                    p.extend(segs[idx..].iter().cloned());
                    return Ok((Res::External(p), vec![]));
                }
                Cur::Res(Res::Prim(p)) => return Ok((Res::Prim(p), segs[idx..].to_vec())),
            }
        }
    }

    pub fn resolve(
        &self,
        m: usize,
        segs: &[String],
        leading_colon: bool,
    ) -> Result<(Res, Vec<String>), String> {
        self.resolve_inner(m, segs, leading_colon, 0, false)
    }

    /// Resolve a `syn::Path` (generic arguments ignored here).
    pub fn resolve_syn(&self, m: usize, p: &syn::Path) -> Result<(Res, Vec<String>), String> {
        let segs: Vec<String> = p.segments.iter().map(|s| s.ident.to_string()).collect();
        self.resolve(m, &segs, p.leading_colon.is_some())
    }

    /// Public reachability: `pub mod` chains from the root and `pub use` re-exports.
    fn compute_public(&mut self) -> Result<(), String> {
        self.modules[0].public_path = Some(vec![]);
        let mut changed = true;
        let mut rounds = 0;
        while changed {
            changed = false;
            rounds += 1;
            if rounds > 64 {
                return Err("public reachability does not converge".into());
            }
            for m in 0..self.modules.len() {
                let Some(mpath) = self.modules[m].public_path.clone() else {
                    continue;
                };
                // pub items defined here
                for di in 0..self.modules[m].defs.len() {
                    let d = self.modules[m].defs[di];
                    if self.defs[d].vis == Vis::Pub && self.defs[d].public_path.is_none() {
                        let mut p = mpath.clone();
                        p.push(self.defs[d].name.clone());
                        if let DefKind::Mod(child) = self.defs[d].kind {
                            if self.modules[child].public_path.is_none() {
                                self.modules[child].public_path = Some(p.clone());
                            }
                        }
                        self.defs[d].public_path = Some(p);
                        changed = true;
                    }
                }
                // pub use re-exports
                let mut marks: Vec<(usize, Vec<String>)> = vec![];
                for u in &self.modules[m].uses {
                    if !u.is_pub {
                        continue;
                    }
                    let (res, rest) = self.resolve(m, &u.path, u.leading_colon)?;
                    if let (Res::Def(d), true) = (res, rest.is_empty()) {
                        let mut p = mpath.clone();
                        p.push(u.alias.clone());
                        marks.push((d, p));
                    }
                }
                for g in &self.modules[m].globs {
                    if !g.is_pub {
                        continue;
                    }
                    let (res, rest) = self.resolve(m, &g.path, g.leading_colon)?;
                    if let (Res::Def(d), true) = (res, rest.is_empty()) {
                        if let DefKind::Mod(target) = self.defs[d].kind {
                            for &td in &self.modules[target].defs {
                                if self.defs[td].vis == Vis::Pub {
                                    let mut p = mpath.clone();
                                    p.push(self.defs[td].name.clone());
                                    marks.push((td, p));
                                }
                            }
                            for u in &self.modules[target].uses {
                                if u.is_pub {
                                    let (r2, rest2) =
                                        self.resolve(target, &u.path, u.leading_colon)?;
                                    if let (Res::Def(d2), true) = (r2, rest2.is_empty()) {
                                        let mut p = mpath.clone();
                                        p.push(u.alias.clone());
                                        marks.push((d2, p));
                                    }
                                }
                            }
                        }
                    }
                }
                for (d, p) in marks {
                    if self.defs[d].public_path.is_none() {
                        if let DefKind::Mod(child) = self.defs[d].kind {
                            if self.modules[child].public_path.is_none() {
                                self.modules[child].public_path = Some(p.clone());
                            }
                        }
                        self.defs[d].public_path = Some(p);
                        changed = true;
                    }
                }
            }
        }
        Ok(())
    }

    /// (number of lifetime params, names of the type params, names of the const params) of a
    /// local struct/enum/union/alias/trait.
    pub fn generics_of(&self, d: usize) -> Option<&'r syn::Generics> {
        match &self.defs[d].kind {
            DefKind::Struct(s) => Some(&s.generics),
            DefKind::Enum(s) => Some(&s.generics),
            DefKind::Union(s) => Some(&s.generics),
            DefKind::Alias(s) => Some(&s.generics),
            DefKind::Trait(s) => Some(&s.generics),
            DefKind::Fn(s) => Some(&s.sig.generics),
            _ => None,
        }
    }

    pub fn is_adt(&self, d: usize) -> bool {
        matches!(
            self.defs[d].kind,
            DefKind::Struct(_) | DefKind::Enum(_) | DefKind::Union(_)
        )
    }
}

// ---------------------------------------------------------------------------------------------
// the auto-trait term language (mirror of Model/AutoTraitTy.lean)
// ---------------------------------------------------------------------------------------------

#[derive(Clone, Debug, PartialEq, Eq)]
pub enum Ty {
    Named(String, Vec<Ty>),
    Std(String, Vec<Ty>),
    Ref(Box<Ty>),
    RefMut(Box<Ty>),
    RawPtrConst(Box<Ty>),
    RawPtrMut(Box<Ty>),
    Phantom(Box<Ty>),
    Cell(Box<Ty>),
    AtomicUsize,
    NonNull(Box<Ty>),
    Prim(String),
    Param(usize),
    MaybeUninit(Box<Ty>),
    ManuallyDrop(Box<Ty>),
    Tuple(Vec<Ty>),
    Slice(Box<Ty>),
    Array(Box<Ty>),
    Unit,
    NonZeroU8,
}

fn lean_str(s: &str) -> String {
    let mut o = String::from("\"");
    for c in s.chars() {
        match c {
            '"' => o.push_str("\\\""),
            '\\' => o.push_str("\\\\"),
            '\n' => o.push_str("\\n"),
            c => o.push(c),
        }
    }
    o.push('"');
    o
}

pub fn lean_string(s: &str) -> String {
    lean_str(s)
}

impl Ty {
    pub fn lean(&self) -> String {
        fn list(ts: &[Ty]) -> String {
            format!(
                "[{}]",
                ts.iter().map(|t| t.lean()).collect::<Vec<_>>().join(", ")
            )
        }
        match self {
            Ty::Named(n, a) => format!(".named {} {}", lean_str(n), list(a)),
            Ty::Std(n, a) => format!(".std {} {}", lean_str(n), list(a)),
            Ty::Ref(t) => format!(".ref ({})", t.lean()),
            Ty::RefMut(t) => format!(".refMut ({})", t.lean()),
            Ty::RawPtrConst(t) => format!(".rawPtrConst ({})", t.lean()),
            Ty::RawPtrMut(t) => format!(".rawPtrMut ({})", t.lean()),
            Ty::Phantom(t) => format!(".phantom ({})", t.lean()),
            Ty::Cell(t) => format!(".cell ({})", t.lean()),
            Ty::AtomicUsize => ".atomicUsize".into(),
            Ty::NonNull(t) => format!(".nonNull ({})", t.lean()),
            Ty::Prim(n) => format!(".prim {}", lean_str(n)),
            Ty::Param(i) => format!(".param {i}"),
            Ty::MaybeUninit(t) => format!(".maybeUninit ({})", t.lean()),
            Ty::ManuallyDrop(t) => format!(".manuallyDrop ({})", t.lean()),
            Ty::Tuple(ts) => format!(".tuple {}", list(ts)),
            Ty::Slice(t) => format!(".slice ({})", t.lean()),
            Ty::Array(t) => format!(".array ({})", t.lean()),
            Ty::Unit => ".unit".into(),
            Ty::NonZeroU8 => ".nonZeroU8".into(),
        }
    }

    fn subst(&self, args: &[Ty]) -> Result<Ty, String> {
        let b = |t: &Ty| -> Result<Box<Ty>, String> { Ok(Box::new(t.subst(args)?)) };
        let l = |ts: &[Ty]| -> Result<Vec<Ty>, String> { ts.iter().map(|t| t.subst(args)).collect() };
        Ok(match self {
            Ty::Param(i) => args
                .get(*i)
                .cloned()
                .ok_or_else(|| format!("alias parameter {i} not supplied"))?,
            Ty::Named(n, a) => Ty::Named(n.clone(), l(a)?),
            Ty::Std(n, a) => Ty::Std(n.clone(), l(a)?),
            Ty::Ref(t) => Ty::Ref(b(t)?),
            Ty::RefMut(t) => Ty::RefMut(b(t)?),
            Ty::RawPtrConst(t) => Ty::RawPtrConst(b(t)?),
            Ty::RawPtrMut(t) => Ty::RawPtrMut(b(t)?),
            Ty::Phantom(t) => Ty::Phantom(b(t)?),
            Ty::Cell(t) => Ty::Cell(b(t)?),
            Ty::NonNull(t) => Ty::NonNull(b(t)?),
            Ty::MaybeUninit(t) => Ty::MaybeUninit(b(t)?),
            Ty::ManuallyDrop(t) => Ty::ManuallyDrop(b(t)?),
            Ty::Tuple(ts) => Ty::Tuple(l(ts)?),
            Ty::Slice(t) => Ty::Slice(b(t)?),
            Ty::Array(t) => Ty::Array(b(t)?),
            Ty::AtomicUsize | Ty::Prim(_) | Ty::Unit | Ty::NonZeroU8 => self.clone(),
        })
    }
}

/// Names of the type parameters (in order, lifetimes and consts skipped), number of lifetimes.
pub fn generic_names(g: &syn::Generics) -> (Vec<String>, usize, Vec<String>) {
    let mut tys = vec![];
    let mut lts = 0;
    let mut consts = vec![];
    for p in &g.params {
        match p {
            syn::GenericParam::Type(t) => tys.push(t.ident.to_string()),
            syn::GenericParam::Lifetime(_) => lts += 1,
            syn::GenericParam::Const(c) => consts.push(c.ident.to_string()),
        }
    }
    (tys, lts, consts)
}

struct TyCx<'a, 'r> {
    cm: &'a CrateModel<'r>,
    module: usize,
    /// type parameter names in scope → index
    params: &'a [String],
    consts: &'a [String],
    file: &'r SrcFile,
}

impl<'a, 'r> TyCx<'a, 'r> {
    fn err<T>(&self, span: proc_macro2::Span, msg: &str) -> Result<T, String> {
        Err(format!("{}: {msg}", loc(self.file, span)))
    }

    fn ty(&self, t: &syn::Type, depth: usize) -> Result<Ty, String> {
        if depth > 32 {
            return self.err(t.span(), "type too deep / cyclic alias");
        }
        match t {
            syn::Type::Paren(p) => self.ty(&p.elem, depth + 1),
            syn::Type::Group(p) => self.ty(&p.elem, depth + 1),
            syn::Type::Reference(r) => {
                let inner = Box::new(self.ty(&r.elem, depth + 1)?);
                Ok(if r.mutability.is_some() {
                    Ty::RefMut(inner)
                } else {
                    Ty::Ref(inner)
                })
            }
            syn::Type::Ptr(p) => {
                let inner = Box::new(self.ty(&p.elem, depth + 1)?);
                Ok(if p.mutability.is_some() {
                    Ty::RawPtrMut(inner)
                } else {
                    Ty::RawPtrConst(inner)
                })
            }
            syn::Type::Tuple(tu) => {
                if tu.elems.is_empty() {
                    Ok(Ty::Unit)
                } else {
                    Ok(Ty::Tuple(
                        tu.elems
                            .iter()
                            .map(|e| self.ty(e, depth + 1))
                            .collect::<Result<_, _>>()?,
                    ))
                }
            }
            syn::Type::Slice(s) => Ok(Ty::Slice(Box::new(self.ty(&s.elem, depth + 1)?))),
            syn::Type::Array(a) => Ok(Ty::Array(Box::new(self.ty(&a.elem, depth + 1)?))),
            syn::Type::Path(tp) => {
                if tp.qself.is_some() {
                    return self.err(t.span(), "qualified-self type in a field is unsupported");
                }
                let p = &tp.path;
                if p.segments.len() == 1 && p.leading_colon.is_none() {
                    let id = p.segments[0].ident.to_string();
                    if let Some(i) = self.params.iter().position(|n| *n == id) {
                        if !p.segments[0].arguments.is_none() {
                            return self.err(t.span(), "type parameter with arguments");
                        }
                        return Ok(Ty::Param(i));
                    }
                }
                // generic arguments only on the last segment
                for s in p.segments.iter().take(p.segments.len() - 1) {
                    if !s.arguments.is_none() {
                        return self.err(t.span(), "generic arguments on a non-final path segment");
                    }
                }
                let last = p.segments.last().unwrap();
                let (res, rest) = self
                    .cm
                    .resolve_syn(self.module, p)
                    .map_err(|e| format!("{}: {e}", loc(self.file, t.span())))?;
                if !rest.is_empty() {
                    return self.err(t.span(), "associated type paths in fields are unsupported");
                }
                // raw generic args: lifetimes dropped; the rest kept positionally (a const argument
                // such as `INLINE_CAPACITY` parses as a type path, so positions are classified by
                // the definition's parameter list)
                let mut raw: Vec<&syn::GenericArgument> = vec![];
                match &last.arguments {
                    syn::PathArguments::None => {}
                    syn::PathArguments::AngleBracketed(ab) => {
                        for a in &ab.args {
                            match a {
                                syn::GenericArgument::Lifetime(_) => {}
                                syn::GenericArgument::Type(_) | syn::GenericArgument::Const(_) => {
                                    raw.push(a)
                                }
                                _ => {
                                    return self
                                        .err(a.span(), "unsupported generic argument in a field type")
                                }
                            }
                        }
                    }
                    syn::PathArguments::Parenthesized(_) => {
                        return self.err(t.span(), "Fn-sugar type in a field is unsupported")
                    }
                }
                let type_args = |this: &Self, n_expected: Option<&[bool]>| -> Result<Vec<Ty>, String> {
                    // n_expected: per non-lifetime parameter, true = type, false = const
                    let mut out = vec![];
                    match n_expected {
                        Some(kinds) => {
                            if raw.len() > kinds.len() {
                                return this.err(t.span(), "too many generic arguments");
                            }
                            for (a, is_ty) in raw.iter().zip(kinds.iter()) {
                                if *is_ty {
                                    match a {
                                        syn::GenericArgument::Type(x) => {
                                            out.push(this.ty(x, depth + 1)?)
                                        }
                                        _ => {
                                            return this
                                                .err(a.span(), "const argument in a type position")
                                        }
                                    }
                                }
                            }
                            let n_ty = kinds.iter().filter(|k| **k).count();
                            if out.len() != n_ty {
                                return this.err(
                                    t.span(),
                                    "defaulted type parameters in a field type are unsupported",
                                );
                            }
                        }
                        None => {
                            for a in &raw {
                                match a {
                                    syn::GenericArgument::Type(x) => {
                                        // a bare identifier that is a const in scope is not a type
                                        if let syn::Type::Path(tp) = x {
                                            if let Some(id) = tp.path.get_ident() {
                                                if this.consts.contains(&id.to_string()) {
                                                    continue;
                                                }
                                            }
                                        }
                                        out.push(this.ty(x, depth + 1)?)
                                    }
                                    _ => {}
                                }
                            }
                        }
                    }
                    Ok(out)
                };
                match res {
                    Res::Prim(n) => {
                        if !raw.is_empty() {
                            return self.err(t.span(), "primitive with generic arguments");
                        }
                        Ok(Ty::Prim(n))
                    }
                    Res::External(path) => {
                        let full = path.join("::");
                        let args = type_args(self, None)?;
                        let one = |args: Vec<Ty>| -> Result<Box<Ty>, String> {
                            if args.len() == 1 {
                                Ok(Box::new(args.into_iter().next().unwrap()))
                            } else {
                                Err(format!(
                                    "{}: `{full}` expects one type argument",
                                    loc(self.file, t.span())
                                ))
                            }
                        };
                        Ok(match full.as_str() {
                            "core::marker::PhantomData" | "std::marker::PhantomData" => {
                                Ty::Phantom(one(args)?)
                            }
                            "core::cell::Cell" | "std::cell::Cell" => Ty::Cell(one(args)?),
                            "core::ptr::NonNull" | "std::ptr::NonNull" => Ty::NonNull(one(args)?),
                            "core::mem::MaybeUninit" | "std::mem::MaybeUninit" => {
                                Ty::MaybeUninit(one(args)?)
                            }
                            "core::mem::ManuallyDrop" | "std::mem::ManuallyDrop" => {
                                Ty::ManuallyDrop(one(args)?)
                            }
                            "core::sync::atomic::AtomicUsize" | "std::sync::atomic::AtomicUsize" => {
                                Ty::AtomicUsize
                            }
                            "core::num::NonZeroU8" | "std::num::NonZeroU8" => Ty::NonZeroU8,
                            _ => Ty::Std(full, args),
                        })
                    }
                    Res::Def(d) => {
                        let g = self.cm.generics_of(d);
                        let kinds: Vec<bool> = g
                            .map(|g| {
                                g.params
                                    .iter()
                                    .filter_map(|p| match p {
                                        syn::GenericParam::Type(_) => Some(true),
                                        syn::GenericParam::Const(_) => Some(false),
                                        syn::GenericParam::Lifetime(_) => None,
                                    })
                                    .collect()
                            })
                            .unwrap_or_default();
                        match &self.cm.defs[d].kind {
                            DefKind::Struct(_) | DefKind::Enum(_) | DefKind::Union(_) => {
                                let args = type_args(self, Some(&kinds))?;
                                Ok(Ty::Named(self.cm.def_path(d), args))
                            }
                            DefKind::Alias(a) => {
                                let args = type_args(self, Some(&kinds))?;
                                let (pn, _, cn) = generic_names(&a.generics);
                                let dm = self.cm.defs[d].module;
                                let sub = TyCx {
                                    cm: self.cm,
                                    module: dm,
                                    params: &pn,
                                    consts: &cn,
                                    file: self.cm.modules[dm].file,
                                };
                                let body = sub.ty(&a.ty, depth + 1)?;
                                body.subst(&args)
                            }
                            _ => self.err(t.span(), "path does not name a type"),
                        }
                    }
                }
            }
            _ => self.err(t.span(), "unsupported type syntax in a field"),
        }
    }
}

pub struct AdtRow {
    pub name: String,
    pub kind: &'static str,
    pub nparams: usize,
    pub lifetimes: usize,
    pub fields: Vec<Ty>,
    pub loc: String,
}

pub struct ImplRow {
    pub tr: &'static str,
    pub target: String,
    pub negative: bool,
    /// (definition parameter index, "send"|"sync")
    pub bounds: Vec<(usize, &'static str)>,
    pub other_bounds: Vec<String>,
    pub lifetime_generic: bool,
    pub loc: String,
}

fn active_fields<'r>(
    fields: impl Iterator<Item = &'r syn::Field>,
    file: &SrcFile,
) -> Result<Vec<&'r syn::Field>, String> {
    let mut out = vec![];
    for f in fields {
        if cfg_active(&f.attrs).map_err(|e| format!("{}: {e}", loc(file, f.span())))? {
            out.push(f);
        }
    }
    Ok(out)
}

fn auto_trait_name(cm: &CrateModel, m: usize, p: &syn::Path) -> Result<Option<&'static str>, String> {
    let last = p.segments.last().map(|s| s.ident.to_string()).unwrap_or_default();
    if last != "Send" && last != "Sync" {
        return Ok(None);
    }
    let (res, _) = cm.resolve_syn(m, p)?;
    match res {
        Res::External(path) => {
            let full = path.join("::");
            match full.as_str() {
                "core::marker::Send" | "std::marker::Send" => Ok(Some("send")),
                "core::marker::Sync" | "std::marker::Sync" => Ok(Some("sync")),
                _ => Err(format!("trait `{full}` named Send/Sync is not the std one")),
            }
        }
        _ => Err("local trait named Send/Sync".into()),
    }
}

pub fn collect(cm: &CrateModel) -> Result<(Vec<AdtRow>, Vec<ImplRow>), String> {
    let mut adts = vec![];
    let mut impls = vec![];
    for (mi, module) in cm.modules.iter().enumerate() {
        let file = module.file;
        for &d in &module.defs {
            let def = &cm.defs[d];
            let (kind, generics, fields, span): (&'static str, &syn::Generics, Vec<&syn::Field>, _) =
                match &def.kind {
                    DefKind::Struct(s) => (
                        ".struct",
                        &s.generics,
                        active_fields(s.fields.iter(), file)?,
                        s.ident.span(),
                    ),
                    DefKind::Union(u) => (
                        ".union",
                        &u.generics,
                        active_fields(u.fields.named.iter(), file)?,
                        u.ident.span(),
                    ),
                    DefKind::Enum(e) => {
                        let mut fs = vec![];
                        for v in &e.variants {
                            if cfg_active(&v.attrs)? {
                                fs.extend(active_fields(v.fields.iter(), file)?);
                            }
                        }
                        (".enum", &e.generics, fs, e.ident.span())
                    }
                    _ => continue,
                };
            let (pn, lts, cn) = generic_names(generics);
            let cx = TyCx {
                cm,
                module: mi,
                params: &pn,
                consts: &cn,
                file,
            };
            let mut ftys = vec![];
            for f in fields {
                ftys.push(cx.ty(&f.ty, 0)?);
            }
            adts.push(AdtRow {
                name: cm.def_path(d),
                kind,
                nparams: pn.len(),
                lifetimes: lts,
                fields: ftys,
                loc: loc(file, span),
            });
        }
        // explicit Send/Sync impls
        for it in &module.items {
            let syn::Item::Impl(im) = it else { continue };
            let Some((bang, tpath, _)) = &im.trait_ else {
                continue;
            };
            let Some(tr) = auto_trait_name(cm, mi, tpath)
                .map_err(|e| format!("{}: {e}", loc(file, im.span())))?
            else {
                continue;
            };
            let here = loc(file, im.impl_token.span());
            let e = |m: &str| format!("{here}: {m}");
            // self type: a local ADT applied to distinct impl type parameters
            let syn::Type::Path(stp) = &*im.self_ty else {
                return Err(e("Send/Sync impl for a non-path type"));
            };
            let (res, rest) = cm.resolve_syn(mi, &stp.path).map_err(|x| e(&x))?;
            let Res::Def(target) = res else {
                return Err(e("Send/Sync impl for a foreign type"));
            };
            if !rest.is_empty() || !cm.is_adt(target) {
                return Err(e("Send/Sync impl target is not a struct/enum/union"));
            }
            let (impl_tys, _, _) = generic_names(&im.generics);
            let (def_tys, def_lts, _) = generic_names(cm.generics_of(target).unwrap());
            let def_kinds: Vec<bool> = cm
                .generics_of(target)
                .unwrap()
                .params
                .iter()
                .filter_map(|p| match p {
                    syn::GenericParam::Type(_) => Some(true),
                    syn::GenericParam::Const(_) => Some(false),
                    _ => None,
                })
                .collect();
            let mut lifetime_generic = true;
            let mut impl_lts: BTreeMap<String, usize> = BTreeMap::new();
            for p in &im.generics.params {
                if let syn::GenericParam::Lifetime(l) = p {
                    if !l.bounds.is_empty() {
                        lifetime_generic = false;
                    }
                    impl_lts.insert(l.lifetime.ident.to_string(), 0);
                }
            }
            // map impl param name -> def param index
            let mut map: BTreeMap<String, usize> = BTreeMap::new();
            let mut n_lt_args = 0;
            let mut non_lt = vec![];
            if let syn::PathArguments::AngleBracketed(ab) = &stp.path.segments.last().unwrap().arguments
            {
                for a in &ab.args {
                    match a {
                        syn::GenericArgument::Lifetime(l) => {
                            n_lt_args += 1;
                            let n = l.ident.to_string();
                            if n == "_" {
                            } else if let Some(c) = impl_lts.get_mut(&n) {
                                *c += 1;
                                if *c > 1 {
                                    lifetime_generic = false;
                                }
                            } else {
                                // 'static or an undeclared name: the impl is lifetime-specific
                                lifetime_generic = false;
                            }
                        }
                        other => non_lt.push(other),
                    }
                }
            }
            if n_lt_args != def_lts && n_lt_args != 0 {
                return Err(e("lifetime argument count mismatch"));
            }
            if non_lt.len() != def_kinds.len() {
                return Err(e("generic argument count mismatch (defaults unsupported)"));
            }
            let mut ty_index = 0;
            for (a, is_ty) in non_lt.iter().zip(def_kinds.iter()) {
                if !*is_ty {
                    continue;
                }
                let name = match a {
                    syn::GenericArgument::Type(syn::Type::Path(tp)) => tp.path.get_ident().map(|i| i.to_string()),
                    _ => None,
                };
                let Some(name) = name else {
                    return Err(e("specialised Send/Sync impl (argument is not a bare parameter)"));
                };
                if !impl_tys.contains(&name) {
                    return Err(e(&format!(
                        "specialised Send/Sync impl (`{name}` is not an impl parameter)"
                    )));
                }
                if map.insert(name, ty_index).is_some() {
                    return Err(e("Send/Sync impl repeats a type parameter"));
                }
                ty_index += 1;
            }
            debug_assert_eq!(ty_index, def_tys.len());
            // bounds
            let mut bounds: Vec<(usize, &'static str)> = vec![];
            let mut other: BTreeSet<String> = BTreeSet::new();
            let mut add_bounds = |pname: &str,
                                  bs: &syn::punctuated::Punctuated<syn::TypeParamBound, syn::Token![+]>,
                                  lifetime_generic: &mut bool|
             -> Result<(), String> {
                let Some(&idx) = map.get(pname) else {
                    return Err(e(&format!("bound on `{pname}`, which is not a parameter of the target")));
                };
                for b in bs {
                    match b {
                        syn::TypeParamBound::Trait(tb) => {
                            if tb.lifetimes.is_some() {
                                return Err(e("higher-ranked bound on a Send/Sync impl"));
                            }
                            if !matches!(tb.modifier, syn::TraitBoundModifier::None) {
                                return Err(e("`?Trait` bound on a Send/Sync impl"));
                            }
                            match auto_trait_name(cm, mi, &tb.path).map_err(|x| e(&x))? {
                                Some(t) => {
                                    if !bounds.contains(&(idx, t)) {
                                        bounds.push((idx, t))
                                    }
                                }
                                None => {
                                    let (r, _) = cm.resolve_syn(mi, &tb.path).map_err(|x| e(&x))?;
                                    let n = match r {
                                        Res::Def(d) => cm.def_path(d),
                                        Res::External(p) => p.join("::"),
                                        Res::Prim(p) => p,
                                    };
                                    other.insert(n);
                                }
                            }
                        }
                        syn::TypeParamBound::Lifetime(_) => *lifetime_generic = false,
                        _ => return Err(e("unsupported bound syntax")),
                    }
                }
                Ok(())
            };
            for p in &im.generics.params {
                if let syn::GenericParam::Type(t) = p {
                    add_bounds(&t.ident.to_string(), &t.bounds, &mut lifetime_generic)?;
                }
            }
            if let Some(wc) = &im.generics.where_clause {
                for pred in &wc.predicates {
                    match pred {
                        syn::WherePredicate::Type(pt) => {
                            if pt.lifetimes.is_some() {
                                return Err(e("higher-ranked where clause"));
                            }
                            let name = match &pt.bounded_ty {
                                syn::Type::Path(tp) => tp.path.get_ident().map(|i| i.to_string()),
                                _ => None,
                            };
                            let Some(name) = name else {
                                return Err(e("where clause on something that is not a bare parameter"));
                            };
                            add_bounds(&name, &pt.bounds, &mut lifetime_generic)?;
                        }
                        syn::WherePredicate::Lifetime(_) => lifetime_generic = false,
                        _ => return Err(e("unsupported where predicate")),
                    }
                }
            }
            bounds.sort();
            impls.push(ImplRow {
                tr,
                target: cm.def_path(target),
                negative: bang.is_some(),
                bounds,
                other_bounds: other.into_iter().collect(),
                lifetime_generic,
                loc: here.clone(),
            });
            if im.unsafety.is_none() && bang.is_none() {
                return Err(format!("{here}: positive Send/Sync impl that is not `unsafe impl`"));
            }
        }
    }
    Ok((adts, impls))
}

pub fn render(adts: &[AdtRow], impls: &[ImplRow]) -> String {
    let mut o = String::from(HEADER);
    o.push_str("-- Struct/enum/union definitions (field types, lifetimes and const generics erased) and every\n");
    o.push_str("-- explicit Send/Sync impl of the compiled non-test source. Configuration: features\n");
    o.push_str(&format!(
        "-- {:?}, 64-bit little-endian, cfg(not(test)), cfg(not(hipstr_verif)).\n",
        FEATURES_ON
    ));
    o.push_str("import HipVerif.Model.AutoTraitTy\n\nnamespace HipVerif.Gen.AutoTraits\nopen HipVerif.Model.AutoTrait\n\n");
    o.push_str("def defs : List Def := [\n");
    for (i, a) in adts.iter().enumerate() {
        let fields = a.fields.iter().map(|t| t.lean()).collect::<Vec<_>>().join(", ");
        o.push_str(&format!(
            "  ⟨{}, {}, {}, {}, [{}], {}⟩{}\n",
            lean_str(&a.name),
            a.kind,
            a.nparams,
            a.lifetimes,
            fields,
            lean_str(&a.loc),
            if i + 1 == adts.len() { "" } else { "," }
        ));
    }
    o.push_str("]\n\n");
    o.push_str("def impls : List ImplFact := [\n");
    for (i, r) in impls.iter().enumerate() {
        let bounds = r
            .bounds
            .iter()
            .map(|(p, t)| format!("(.param {p}, .{t})"))
            .collect::<Vec<_>>()
            .join(", ");
        let other = r.other_bounds.iter().map(|s| lean_str(s)).collect::<Vec<_>>().join(", ");
        o.push_str(&format!(
            "  ⟨.{}, {}, {}, [{}], [{}], {}, {}⟩{}\n",
            r.tr,
            lean_str(&r.target),
            r.negative,
            bounds,
            other,
            r.lifetime_generic,
            lean_str(&r.loc),
            if i + 1 == impls.len() { "" } else { "," }
        ));
    }
    o.push_str("]\n\n");
    o.push_str("def table : Table := ⟨defs, impls⟩\n\nend HipVerif.Gen.AutoTraits\n");
    o
}

pub fn generate(repo: &Repo) -> Result<Vec<GenFile>, String> {
    let cm = CrateModel::build(repo)?;
    let (adts, impls) = collect(&cm)?;
    if adts.is_empty() {
        return Err("no type definitions found".into());
    }
    Ok(vec![GenFile {
        name: "AutoTraits.lean".into(),
        content: render(&adts, &impls),
    }])
}
