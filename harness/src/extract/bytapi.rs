//! Generator of `Gen/BytApi.lean` (C01 coverage gate for the byte string and its
//! representation layer — the counterpart of `vecapi.rs` for the vectors).
//!
//! * `bytFns`: every inherent / associated fn (ANY visibility, `cfg(hipstr_verif)` hooks
//!   excluded) of `bytes::raw::HipByt` (all its `impl` blocks: `src/bytes.rs`,
//!   `src/bytes/raw.rs`, …), `bytes::raw::allocated::Allocated` and its `TaggedSmart`,
//!   `bytes::raw::borrowed::Borrowed`, `bytes::raw::Union`, `smart::Smart`; the free fns of the
//!   modules `bytes` and `bytes::raw`; and the fns of the `Clone` / `Drop` / `Default` / `From` /
//!   `Deref` / `AsRef` impls that involve `HipByt` (rows of the public-function table, same
//!   names as `Gen/PubFns.lean`). `bytes::raw::Inline` is an alias of `InlineVec<u8, …>`: its
//!   fns are rows of `Gen/VecApi.lean`.
//! * `driveOps`: the operation names `harness/src/bin/coredrive.rs` dispatches on (`Op::name`
//!   = `Op::parse`).
//! * `bytCalls`: identifiers called inside `impl Subject for HipByt` (what the differential
//!   calls on the real `HipByt` for each operation); `driveCalls`: identifiers called anywhere
//!   in coredrive.rs (monitors). Token scans, so calls inside macros count.
//! Fails closed.

use std::collections::BTreeSet;

use proc_macro2::{Delimiter, TokenStream, TokenTree};
use quote::ToTokens;
use syn::spanned::Spanned;

use super::autotraits::{cfg_active, lean_string, vis_of, CrateModel, Res, Vis};
use super::pubfns::{collect, key_of};
use super::repo::loc;
use super::{GenFile, Repo, HEADER};

const COREDRIVE_SRC: &str = include_str!("../bin/coredrive.rs");

const TARGET_TYPES: &[&str] = &[
    "bytes::raw::HipByt",
    "bytes::raw::Union",
    "bytes::raw::allocated::Allocated",
    "bytes::raw::allocated::TaggedSmart",
    "bytes::raw::borrowed::Borrowed",
    "smart::Smart",
];
const TARGET_MODULES: &[&str] = &["bytes", "bytes::raw"];
const TRAITS: &[&str] = &["Clone", "Drop", "Default", "From", "Deref", "AsRef"];

/// String literals of `impl Op { fn name }` (arm bodies) / `fn parse` (first element of the slice
/// patterns).
fn op_fn_literals(file: &syn::File, which: &str) -> Result<Vec<String>, String> {
    for item in &file.items {
        let syn::Item::Impl(im) = item else { continue };
        if im.trait_.is_some() {
            continue;
        }
        let syn::Type::Path(tp) = &*im.self_ty else { continue };
        if !tp.path.is_ident("Op") {
            continue;
        }
        for it in &im.items {
            let syn::ImplItem::Fn(f) = it else { continue };
            if f.sig.ident != which {
                continue;
            }
            let mut out = vec![];
            if which == "name" {
                struct V<'a>(&'a mut Vec<String>);
                impl<'ast> syn::visit::Visit<'ast> for V<'_> {
                    fn visit_arm(&mut self, a: &'ast syn::Arm) {
                        if let syn::Expr::Lit(syn::ExprLit { lit: syn::Lit::Str(s), .. }) = &*a.body {
                            self.0.push(s.value());
                        }
                        syn::visit::visit_arm(self, a);
                    }
                }
                syn::visit::Visit::visit_block(&mut V(&mut out), &f.block);
            } else {
                struct P<'a>(&'a mut Vec<String>);
                impl<'ast> syn::visit::Visit<'ast> for P<'_> {
                    fn visit_pat_slice(&mut self, p: &'ast syn::PatSlice) {
                        if let Some(syn::Pat::Lit(syn::ExprLit { lit: syn::Lit::Str(s), .. })) = p.elems.first() {
                            self.0.push(s.value());
                        }
                    }
                }
                syn::visit::Visit::visit_block(&mut P(&mut out), &f.block);
            }
            return Ok(out);
        }
    }
    Err(format!("coredrive.rs: `impl Op {{ fn {which} }}` not found"))
}

/// Identifiers that are called: `. name (`, `. name :: < … > (`, `:: name (`, `:: name :: < … > (`.
fn called_idents(ts: TokenStream, out: &mut BTreeSet<String>) {
    let toks: Vec<TokenTree> = ts.into_iter().collect();
    let is_p = |t: &TokenTree, c: char| matches!(t, TokenTree::Punct(p) if p.as_char() == c);
    for i in 0..toks.len() {
        if let TokenTree::Group(g) = &toks[i] {
            called_idents(g.stream(), out);
            continue;
        }
        let TokenTree::Ident(id) = &toks[i] else { continue };
        let after_dot = i >= 1 && is_p(&toks[i - 1], '.');
        let after_path = i >= 2 && is_p(&toks[i - 1], ':') && is_p(&toks[i - 2], ':');
        if !after_dot && !after_path {
            continue;
        }
        let mut j = i + 1;
        if j + 2 < toks.len() && is_p(&toks[j], ':') && is_p(&toks[j + 1], ':') && is_p(&toks[j + 2], '<') {
            let mut depth = 0i32;
            j += 2;
            while j < toks.len() {
                if is_p(&toks[j], '<') {
                    depth += 1;
                } else if is_p(&toks[j], '>') {
                    depth -= 1;
                    if depth == 0 {
                        j += 1;
                        break;
                    }
                }
                j += 1;
            }
        }
        if let Some(TokenTree::Group(g)) = toks.get(j) {
            if g.delimiter() == Delimiter::Parenthesis {
                out.insert(id.to_string());
            }
        }
    }
}

struct Row<'r> {
    /// the body, when the fn was located in the source
    body: Option<&'r syn::Block>,
    /// public entry points (pub fns of `HipByt`, trait impl fns) from which this fn is reachable
    /// in the family's call graph (name-based, over-approximate for method calls)
    reached_from: Vec<usize>,
    name: String,
    simple: String,
    ty: String,
    vis: &'static str,
    is_unsafe: bool,
    loc: String,
}

pub fn generate(repo: &Repo) -> Result<Vec<GenFile>, String> {
    let cm = CrateModel::build(repo)?;
    let mut rows: Vec<Row<'_>> = vec![];
    for (mi, module) in cm.modules.iter().enumerate() {
        let file = module.file;
        let mpath = module.path.join("::");
        for it in &module.items {
            match it {
                syn::Item::Fn(f) if TARGET_MODULES.contains(&mpath.as_str()) => {
                    rows.push(Row {
                        body: Some(&f.block),
                        reached_from: vec![],
                        name: format!("{mpath}::{}", f.sig.ident),
                        simple: f.sig.ident.to_string(),
                        ty: mpath.clone(),
                        vis: match vis_of(&f.vis) {
                            Vis::Pub => ".pub",
                            Vis::Restricted => ".crate",
                            Vis::Private => ".priv",
                        },
                        is_unsafe: f.sig.unsafety.is_some(),
                        loc: loc(file, f.sig.ident.span()),
                    });
                }
                syn::Item::Impl(im) if im.trait_.is_none() => {
                    let syn::Type::Path(tp) = &*im.self_ty else { continue };
                    let mut bare = tp.path.clone();
                    for s in bare.segments.iter_mut() {
                        s.arguments = syn::PathArguments::None;
                    }
                    let Ok((Res::Def(d), rest)) = cm.resolve_syn(mi, &bare) else { continue };
                    if !rest.is_empty() {
                        continue;
                    }
                    let ty = cm.def_path(d);
                    if !TARGET_TYPES.contains(&ty.as_str()) {
                        continue;
                    }
                    for ii in &im.items {
                        let syn::ImplItem::Fn(f) = ii else { continue };
                        if !cfg_active(&f.attrs).map_err(|e| format!("{}: {e}", loc(file, f.span())))? {
                            continue;
                        }
                        rows.push(Row {
                            body: Some(&f.block),
                            reached_from: vec![],
                            name: format!("{ty}::{}", f.sig.ident),
                            simple: f.sig.ident.to_string(),
                            ty: ty.clone(),
                            vis: match vis_of(&f.vis) {
                                Vis::Pub => ".pub",
                                Vis::Restricted => ".crate",
                                Vis::Private => ".priv",
                            },
                            is_unsafe: f.sig.unsafety.is_some(),
                            loc: loc(file, f.sig.ident.span()),
                        });
                    }
                }
                _ => {}
            }
        }
    }
    // trait impls of the conversion / lifecycle family that involve HipByt
    let c = collect(&cm)?;
    for r in &c.rows {
        if r.kind != ".traitImpl" || !r.name.contains("HipByt") || r.name.contains("HipStr") || r.name.contains("HipOsStr") || r.name.contains("HipPath") {
            continue;
        }
        // `<Self as Trait<…>>::f`: the trait's own name
        let Some(after_as) = r.name.split(" as ").nth(1) else { continue };
        let tr: String = after_as.chars().take_while(|c| c.is_alphanumeric() || *c == '_' || *c == ':').collect();
        let tr = tr.rsplit("::").next().unwrap_or("").to_string();
        if !TRAITS.contains(&tr.as_str()) {
            continue;
        }
        // locate the body: the impl fn of that name at that file:line
        let mut body = None;
        for module in &cm.modules {
            for it in &module.items {
                if let syn::Item::Impl(im) = it {
                    for ii in &im.items {
                        if let syn::ImplItem::Fn(f) = ii {
                            if f.sig.ident == r.simple.as_str() && loc(module.file, f.sig.ident.span()) == r.loc {
                                body = Some(&f.block);
                            }
                        }
                    }
                }
            }
        }
        rows.push(Row {
            body,
            reached_from: vec![],
            name: r.name.clone(),
            simple: r.simple.clone(),
            ty: format!("impl {tr}"),
            vis: ".traitImpl",
            is_unsafe: r.is_unsafe,
            loc: r.loc.clone(),
        });
    }
    // ---- call graph of the family (name-based) and reachability from the public entry points
    struct Calls {
        methods: BTreeSet<String>,
        paths: BTreeSet<(String, String)>, // (qualifier, name)
        bare: BTreeSet<String>,
    }
    impl<'ast> syn::visit::Visit<'ast> for Calls {
        fn visit_expr_method_call(&mut self, m: &'ast syn::ExprMethodCall) {
            self.methods.insert(m.method.to_string());
            syn::visit::visit_expr_method_call(self, m);
        }
        fn visit_expr_call(&mut self, c: &'ast syn::ExprCall) {
            if let syn::Expr::Path(p) = &*c.func {
                let segs: Vec<String> = p.path.segments.iter().map(|s| s.ident.to_string()).collect();
                match segs.len() {
                    0 => {}
                    1 => {
                        self.bare.insert(segs[0].clone());
                    }
                    n => {
                        self.paths.insert((segs[n - 2].clone(), segs[n - 1].clone()));
                    }
                }
            }
            syn::visit::visit_expr_call(self, c);
        }
        fn visit_macro(&mut self, m: &'ast syn::Macro) {
            let mut ids = BTreeSet::new();
            called_idents(m.tokens.clone(), &mut ids);
            self.methods.extend(ids);
        }
    }
    let last_ident = |ty: &str| ty.rsplit("::").next().unwrap_or(ty).to_string();
    let n_rows = rows.len();
    let mut edges: Vec<Vec<usize>> = vec![vec![]; n_rows];
    for i in 0..n_rows {
        let Some(body) = rows[i].body else { continue };
        let mut c = Calls { methods: BTreeSet::new(), paths: BTreeSet::new(), bare: BTreeSet::new() };
        syn::visit::Visit::visit_block(&mut c, body);
        let self_ty = if rows[i].vis == ".traitImpl" { "HipByt".to_string() } else { last_ident(&rows[i].ty) };
        for j in 0..n_rows {
            if i == j {
                continue;
            }
            let callee = &rows[j];
            let callee_ty = last_ident(&callee.ty);
            let is_free = TARGET_MODULES.contains(&callee.ty.as_str());
            let hit = if is_free {
                c.bare.contains(&callee.simple) || c.paths.iter().any(|(_, n)| *n == callee.simple)
            } else if callee.vis == ".traitImpl" {
                false
            } else {
                c.methods.contains(&callee.simple)
                    || c.paths.iter().any(|(q, n)| {
                        *n == callee.simple && (*q == callee_ty || (q == "Self" && self_ty == callee_ty))
                    })
            };
            if hit {
                edges[i].push(j);
            }
        }
    }
    let entries: Vec<usize> = (0..n_rows)
        .filter(|&i| (rows[i].vis == ".pub" && rows[i].ty == "bytes::raw::HipByt") || rows[i].vis == ".traitImpl")
        .collect();
    for &e in &entries {
        let mut seen = vec![false; n_rows];
        let mut stack = vec![e];
        seen[e] = true;
        while let Some(x) = stack.pop() {
            for &y in &edges[x] {
                if !seen[y] {
                    seen[y] = true;
                    stack.push(y);
                }
            }
        }
        for j in 0..n_rows {
            if j != e && seen[j] {
                rows[j].reached_from.push(e);
            }
        }
    }
    if rows.len() < 120 {
        return Err(format!("only {} functions of the byte-string family found", rows.len()));
    }
    let mut seen = BTreeSet::new();
    for r in &rows {
        if !seen.insert(r.name.clone()) {
            return Err(format!("duplicate BytApi row `{}` ({})", r.name, r.loc));
        }
    }

    let ast = syn::parse_file(COREDRIVE_SRC).map_err(|e| format!("coredrive.rs: {e}"))?;
    let names = op_fn_literals(&ast, "name")?;
    let parsed = op_fn_literals(&ast, "parse")?;
    if names.len() < 30 {
        return Err(format!("coredrive.rs: only {} operation names in `Op::name`", names.len()));
    }
    let ps: BTreeSet<&String> = parsed.iter().collect();
    let ns: BTreeSet<&String> = names.iter().collect();
    for n in &names {
        if !ps.contains(n) {
            return Err(format!("coredrive.rs: `Op::name` returns {n:?} but `Op::parse` does not accept it"));
        }
    }
    for n in &parsed {
        if !ns.contains(n) {
            return Err(format!("coredrive.rs: `Op::parse` accepts {n:?} but `Op::name` never returns it"));
        }
    }
    // calls inside `impl Subject for HipByt`
    let mut byt_calls = BTreeSet::new();
    let mut found_subject = false;
    for item in &ast.items {
        let syn::Item::Impl(im) = item else { continue };
        let Some((_, tp, _)) = &im.trait_ else { continue };
        if !tp.is_ident("Subject") {
            continue;
        }
        let syn::Type::Path(st) = &*im.self_ty else { continue };
        if st.path.segments.last().map_or(true, |s| s.ident != "HipByt") {
            continue;
        }
        found_subject = true;
        called_idents(im.to_token_stream(), &mut byt_calls);
    }
    if !found_subject {
        return Err("coredrive.rs: `impl Subject for HipByt` not found".into());
    }
    let mut calls = BTreeSet::new();
    let ts: TokenStream = COREDRIVE_SRC.parse().map_err(|e| format!("coredrive.rs: token scan: {e}"))?;
    called_idents(ts, &mut calls);

    let mut o = String::from(HEADER);
    o.push_str(
        "-- The functions of the byte string and of its representation layer, the operation names\n\
         -- coredrive.rs dispatches on, and the identifiers it calls. See harness/src/extract/bytapi.rs.\n\
         import HipVerif.Model.BytApiTy\n\n\
         namespace HipVerif.Gen.BytApi\n\
         open HipVerif.Model.BytApi\n\n",
    );
    o.push_str("def bytFns : List BytFn := [\n");
    for (i, r) in rows.iter().enumerate() {
        o.push_str(&format!(
            "  ⟨{}, {}, {}, {}, {}, {}, {}, [{}], {}⟩{}\n",
            lean_string(&r.name),
            key_of(&r.name),
            lean_string(&r.simple),
            key_of(&r.simple),
            lean_string(&r.ty),
            r.vis,
            r.is_unsafe,
            r.reached_from.iter().map(|n| n.to_string()).collect::<Vec<_>>().join(", "),
            lean_string(&r.loc),
            if i + 1 < rows.len() { "," } else { "" }
        ));
    }
    o.push_str("]\n\n");
    let list = |title: &str, doc: &str, xs: Vec<&String>| {
        let mut s = format!("/-- {doc} -/\ndef {title} : List (String × Nat) := [\n");
        for (i, n) in xs.iter().enumerate() {
            s.push_str(&format!("  ({}, {}){}\n", lean_string(n), key_of(n), if i + 1 < xs.len() { "," } else { "" }));
        }
        s.push_str("]\n\n");
        s
    };
    let mut sorted: Vec<&String> = names.iter().collect();
    sorted.sort();
    sorted.dedup();
    o.push_str(&list("driveOps", "Operation names dispatched by `coredrive` (`Op::name` = `Op::parse`).", sorted));
    o.push_str(&list(
        "bytCalls",
        "Identifiers called inside `impl Subject for HipByt` of coredrive.rs.",
        byt_calls.iter().collect(),
    ));
    o.push_str(&list(
        "driveCalls",
        "Identifiers coredrive.rs calls anywhere as a method or an associated function.",
        calls.iter().collect(),
    ));
    o.push_str("end HipVerif.Gen.BytApi\n");
    Ok(vec![GenFile { name: "BytApi.lean".into(), content: o }])
}
