//! Translator for `Gen/Surface.lean` (C17, "surface" part): what EXISTS in the crate besides the
//! callable functions of `Gen/PubFns` — so that a new trait impl, an overridden provided method,
//! a new `unsafe impl`, a macro that expands caller expressions inside `unsafe`, or a weakened
//! const-parameter guard is a named proof break.
//!
//! 1. `impls`   — one row per `impl Trait for Type` of the compiled non-test source (kind
//!    `.written`, with the methods it DEFINES), per `#[derive(..)]` entry (`.derived`), per
//!    `impl … for …` arm found in a `macro_rules!` body (`.macroArm`: type = `name!`, with the
//!    methods of the arm) and per item-position macro invocation (`.macroCall`: type = `name!`,
//!    trait = the file, `entries` = number of `;`-terminated entries — the expansion is not read
//!    here, the invocation count is pinned).
//! 2. `unsafeImpls` — every `unsafe impl`: target, trait, bounds on the target's type
//!    parameters, and the parameters that occur in the target's field types.
//! 3. `exportedMacros` — per arm of every `#[macro_export] macro_rules!`: does the expansion
//!    contain an `unsafe` block, and which `$metavariables` of fragment kind
//!    expr/tt/block/stmt/pat_param occur inside one.
//! 4. `constGuards` — every `assert!` evaluated at compile time (`const { … }` blocks and
//!    associated `const X: () = { … }`), with its normalised condition.
//! Fails closed on shapes it does not recognise.

use std::collections::BTreeMap;

use syn::spanned::Spanned;
use syn::visit::Visit;

use super::autotraits::{self, cfg_active, generic_names, lean_string, CrateModel, DefKind, Res, Ty};
use super::pubfns::{key_of, norm_tokens_pub as norm};
use super::repo::{loc, SrcFile};
use super::{GenFile, Repo, HEADER};

pub struct ImplRow {
    pub kind: &'static str,
    pub ty: String,
    pub tr: String,
    pub tr_full: String,
    pub methods: Vec<String>,
    pub entries: usize,
    pub is_unsafe: bool,
    pub loc: String,
}

pub struct UnsafeImplRow {
    pub ty: String,
    pub tr: String,
    pub nparams: usize,
    /// (parameter index of the target, bound)
    pub bounds: Vec<(usize, String)>,
    /// parameter indices occurring in the target's field types; None = specialised impl
    pub field_params: Option<Vec<usize>>,
    pub shown: String,
    pub loc: String,
}

pub struct MacroArmRow {
    pub name: String,
    pub arm: usize,
    pub has_unsafe: bool,
    /// (metavariable, fragment kind) occurring inside an `unsafe { }` of the expansion
    pub in_unsafe: Vec<(String, String)>,
    /// metavariables of fragment kind expr (anywhere)
    pub expr_vars: Vec<String>,
    pub loc: String,
}

pub struct GuardRow {
    /// `.constBlock` (inside `const { }` / an associated const: always compile time) or
    /// `.constFn` (an `assert!` of a `const fn` body: compile time when called in const context)
    pub kind: &'static str,
    pub owner: String,
    pub cond: String,
    pub loc: String,
}

pub struct Collected {
    pub impls: Vec<ImplRow>,
    pub unsafe_impls: Vec<UnsafeImplRow>,
    pub macros: Vec<MacroArmRow>,
    pub guards: Vec<GuardRow>,
}

fn trait_key(p: &syn::Path) -> String {
    p.segments.last().map(|s| s.ident.to_string()).unwrap_or_default()
}

fn self_name(cm: &CrateModel, module: usize, t: &syn::Type) -> String {
    if let syn::Type::Path(tp) = t {
        if tp.qself.is_none() {
            let mut bare = tp.path.clone();
            for s in bare.segments.iter_mut() {
                s.arguments = syn::PathArguments::None;
            }
            if let Ok((Res::Def(d), rest)) = cm.resolve_syn(module, &bare) {
                if rest.is_empty() {
                    return cm.def_path(d);
                }
            }
        }
    }
    norm(t)
}

/// `impl … Trait … for … { fn a fn b }` arms inside a macro_rules body (token scan).
fn macro_arms(name: &str, file: &SrcFile, ts: proc_macro2::TokenStream, out: &mut Vec<ImplRow>) {
    use proc_macro2::{Delimiter, TokenTree as TT};
    let toks: Vec<TT> = ts.into_iter().collect();
    let mut i = 0;
    while i < toks.len() {
        if let TT::Group(g) = &toks[i] {
            macro_arms(name, file, g.stream(), out);
        }
        if matches!(&toks[i], TT::Ident(id) if id == "impl") {
            // tokens up to the body brace
            let mut j = i + 1;
            let mut depth: i32 = 0;
            let mut last_ident: Option<String> = None;
            let mut tr: Option<String> = None;
            let mut prev_dollar = false;
            let mut body: Option<proc_macro2::TokenStream> = None;
            while j < toks.len() {
                match &toks[j] {
                    TT::Punct(p) if p.as_char() == '<' => depth += 1,
                    TT::Punct(p) if p.as_char() == '>' => depth -= 1,
                    TT::Punct(p) if p.as_char() == '$' => {
                        prev_dollar = true;
                        j += 1;
                        continue;
                    }
                    TT::Ident(id) if id == "for" && depth <= 0 && tr.is_none() => tr = last_ident.clone(),
                    TT::Ident(id) if depth <= 0 && !prev_dollar && id != "where" => {
                        last_ident = Some(id.to_string())
                    }
                    TT::Group(g) if g.delimiter() == Delimiter::Brace => {
                        body = Some(g.stream());
                        break;
                    }
                    TT::Punct(p) if p.as_char() == ';' => break,
                    _ => {}
                }
                prev_dollar = false;
                j += 1;
            }
            if let (Some(tr), Some(body)) = (tr, body) {
                let bt: Vec<TT> = body.into_iter().collect();
                let mut methods = vec![];
                for k in 0..bt.len() {
                    if matches!(&bt[k], TT::Ident(id) if id == "fn") {
                        if let Some(TT::Ident(m)) = bt.get(k + 1) {
                            methods.push(m.to_string());
                        }
                    }
                }
                let line = toks[i].span().start().line;
                out.push(ImplRow {
                    kind: ".macroArm",
                    ty: format!("{name}!"),
                    tr: tr.clone(),
                    tr_full: tr,
                    methods,
                    entries: 1,
                    is_unsafe: matches!(toks.get(i.wrapping_sub(1)), Some(TT::Ident(u)) if u == "unsafe"),
                    loc: format!("{}:{}", file.rel, line),
                });
                i = j;
            }
        }
        i += 1;
    }
}

fn count_semis(ts: proc_macro2::TokenStream) -> usize {
    let mut n = 0;
    for t in ts {
        match t {
            proc_macro2::TokenTree::Group(g) => n += count_semis(g.stream()),
            proc_macro2::TokenTree::Punct(p) if p.as_char() == ';' => n += 1,
            _ => {}
        }
    }
    n
}

/// arms of a `macro_rules!` body: `(matcher) => {transcriber}` separated by `;`
fn exported_macro_arms(name: &str, file: &SrcFile, ts: proc_macro2::TokenStream, out: &mut Vec<MacroArmRow>) -> Result<(), String> {
    use proc_macro2::TokenTree as TT;
    let toks: Vec<TT> = ts.into_iter().collect();
    let mut i = 0;
    let mut arm = 0;
    while i < toks.len() {
        let TT::Group(matcher) = &toks[i] else {
            return Err(format!("{}: macro `{name}`: arm {arm} does not start with a matcher group", file.rel));
        };
        if !(matches!(toks.get(i + 1), Some(TT::Punct(p)) if p.as_char() == '=')
            && matches!(toks.get(i + 2), Some(TT::Punct(p)) if p.as_char() == '>'))
        {
            return Err(format!("{}: macro `{name}`: arm {arm} has no `=>`", file.rel));
        }
        let Some(TT::Group(body)) = toks.get(i + 3) else {
            return Err(format!("{}: macro `{name}`: arm {arm} has no transcriber group", file.rel));
        };
        // metavariables of the matcher
        let mut frags: BTreeMap<String, String> = BTreeMap::new();
        fn collect_frags(ts: proc_macro2::TokenStream, frags: &mut BTreeMap<String, String>) {
            let t: Vec<TT> = ts.into_iter().collect();
            for k in 0..t.len() {
                if let TT::Group(g) = &t[k] {
                    collect_frags(g.stream(), frags);
                }
                if matches!(&t[k], TT::Punct(p) if p.as_char() == '$') {
                    if let (Some(TT::Ident(n)), Some(TT::Punct(c)), Some(TT::Ident(f))) = (t.get(k + 1), t.get(k + 2), t.get(k + 3)) {
                        if c.as_char() == ':' {
                            frags.insert(n.to_string(), f.to_string());
                        }
                    }
                }
            }
        }
        collect_frags(matcher.stream(), &mut frags);
        // transcriber: metavariables inside `unsafe { … }`
        let mut has_unsafe = false;
        let mut in_unsafe: Vec<(String, String)> = vec![];
        fn walk(
            ts: proc_macro2::TokenStream,
            inside: bool,
            frags: &BTreeMap<String, String>,
            has_unsafe: &mut bool,
            in_unsafe: &mut Vec<(String, String)>,
        ) {
            let t: Vec<TT> = ts.into_iter().collect();
            let mut k = 0;
            while k < t.len() {
                match &t[k] {
                    TT::Ident(id) if id == "unsafe" => {
                        if let Some(TT::Group(g)) = t.get(k + 1) {
                            if g.delimiter() == proc_macro2::Delimiter::Brace {
                                *has_unsafe = true;
                                walk(g.stream(), true, frags, has_unsafe, in_unsafe);
                                k += 2;
                                continue;
                            }
                        }
                    }
                    TT::Group(g) => walk(g.stream(), inside, frags, has_unsafe, in_unsafe),
                    TT::Punct(p) if p.as_char() == '$' && inside => {
                        if let Some(TT::Ident(n)) = t.get(k + 1) {
                            let n = n.to_string();
                            let f = frags.get(&n).cloned().unwrap_or_else(|| "?".into());
                            if matches!(f.as_str(), "expr" | "tt" | "block" | "stmt" | "pat_param" | "pat" | "?")
                                && !in_unsafe.iter().any(|(a, _)| *a == n)
                            {
                                in_unsafe.push((n, f));
                            }
                        }
                    }
                    _ => {}
                }
                k += 1;
            }
        }
        walk(body.stream(), false, &frags, &mut has_unsafe, &mut in_unsafe);
        out.push(MacroArmRow {
            name: name.to_string(),
            arm,
            has_unsafe,
            in_unsafe,
            expr_vars: frags.iter().filter(|(_, f)| *f == "expr").map(|(n, _)| n.clone()).collect(),
            loc: format!("{}:{}", file.rel, matcher.span().start().line),
        });
        arm += 1;
        i += 4;
        if matches!(toks.get(i), Some(TT::Punct(p)) if p.as_char() == ';') {
            i += 1;
        }
    }
    Ok(())
}

/// `assert!`s evaluated at compile time inside a block.
struct GuardV<'a> {
    file: &'a SrcFile,
    owner: String,
    const_fn: bool,
    in_const: usize,
    out: &'a mut Vec<GuardRow>,
}

impl<'ast, 'a> Visit<'ast> for GuardV<'a> {
    fn visit_item(&mut self, _: &'ast syn::Item) {}
    fn visit_expr_const(&mut self, c: &'ast syn::ExprConst) {
        self.in_const += 1;
        syn::visit::visit_expr_const(self, c);
        self.in_const -= 1;
    }
    fn visit_macro(&mut self, m: &'ast syn::Macro) {
        let name = m.path.segments.last().map(|s| s.ident.to_string()).unwrap_or_default();
        if (self.in_const > 0 || self.const_fn) && (name == "assert" || name == "assert_eq" || name == "assert_ne") {
            // the condition: the first argument (for assert_eq/ne: the first two)
            let args = m
                .parse_body_with(syn::punctuated::Punctuated::<syn::Expr, syn::Token![,]>::parse_terminated)
                .ok();
            let cond = match &args {
                Some(a) if name == "assert" && !a.is_empty() => norm(&a[0]),
                Some(a) if a.len() >= 2 => format!("{} {} {}", norm(&a[0]), if name == "assert_eq" { "==" } else { "!=" }, norm(&a[1])),
                _ => format!("<unparsed> {}", norm(&m.tokens)),
            };
            self.out.push(GuardRow {
                kind: if self.in_const > 0 { ".constBlock" } else { ".constFn" },
                owner: self.owner.clone(),
                cond,
                loc: loc(self.file, m.span()),
            });
        }
    }
}

fn ty_params(t: &Ty, out: &mut Vec<usize>) {
    match t {
        Ty::Param(i) => {
            if !out.contains(i) {
                out.push(*i)
            }
        }
        Ty::Named(_, a) | Ty::Std(_, a) | Ty::Tuple(a) => a.iter().for_each(|x| ty_params(x, out)),
        Ty::Ref(x)
        | Ty::RefMut(x)
        | Ty::RawPtrConst(x)
        | Ty::RawPtrMut(x)
        | Ty::Phantom(x)
        | Ty::Cell(x)
        | Ty::NonNull(x)
        | Ty::MaybeUninit(x)
        | Ty::ManuallyDrop(x)
        | Ty::Slice(x)
        | Ty::Array(x) => ty_params(x, out),
        Ty::AtomicUsize | Ty::Prim(_) | Ty::Unit | Ty::NonZeroU8 => {}
    }
}

pub fn collect(cm: &CrateModel) -> Result<Collected, String> {
    let (adts, _) = autotraits::collect(cm)?;
    let mut c = Collected {
        impls: vec![],
        unsafe_impls: vec![],
        macros: vec![],
        guards: vec![],
    };
    for (mi, module) in cm.modules.iter().enumerate() {
        let file = module.file;
        let mprefix = module.path.join("::");
        let q = |s: &str| if mprefix.is_empty() { s.to_string() } else { format!("{mprefix}::{s}") };
        for it in &module.items {
            // derives
            let (attrs, ident): (&[syn::Attribute], Option<&syn::Ident>) = match it {
                syn::Item::Struct(s) => (&s.attrs, Some(&s.ident)),
                syn::Item::Enum(s) => (&s.attrs, Some(&s.ident)),
                syn::Item::Union(s) => (&s.attrs, Some(&s.ident)),
                _ => (&[], None),
            };
            if let Some(id) = ident {
                for a in attrs {
                    if a.path().is_ident("derive") {
                        let paths = a
                            .parse_args_with(syn::punctuated::Punctuated::<syn::Path, syn::Token![,]>::parse_terminated)
                            .map_err(|e| format!("{}: derive: {e}", loc(file, a.span())))?;
                        for p in paths {
                            c.impls.push(ImplRow {
                                kind: ".derived",
                                ty: q(&id.to_string()),
                                tr: trait_key(&p),
                                tr_full: norm(&p),
                                methods: vec![],
                                entries: 1,
                                is_unsafe: false,
                                loc: loc(file, a.span()),
                            });
                        }
                    } else if a.path().is_ident("cfg_attr") {
                        use quote::ToTokens;
                        if a.meta.to_token_stream().to_string().contains("derive") {
                            return Err(format!("{}: conditional derive unsupported", loc(file, a.span())));
                        }
                    }
                }
            }
            match it {
                syn::Item::Impl(im) => {
                    let Some((bang, tp, _)) = &im.trait_ else {
                        // inherent impls: compile-time guards in their fns / consts
                        let owner = self_name(cm, mi, &im.self_ty);
                        scan_impl_guards(file, &owner, im, &mut c.guards)?;
                        continue;
                    };
                    let ty = self_name(cm, mi, &im.self_ty);
                    let mut methods = vec![];
                    for ii in &im.items {
                        if let syn::ImplItem::Fn(f) = ii {
                            if cfg_active(&f.attrs)? {
                                methods.push(f.sig.ident.to_string());
                            }
                        }
                    }
                    scan_impl_guards(file, &format!("<{} as {}>", ty, trait_key(tp)), im, &mut c.guards)?;
                    c.impls.push(ImplRow {
                        kind: if bang.is_some() { ".negative" } else { ".written" },
                        ty: ty.clone(),
                        tr: trait_key(tp),
                        tr_full: norm(tp),
                        methods,
                        entries: 1,
                        is_unsafe: im.unsafety.is_some(),
                        loc: loc(file, im.impl_token.span()),
                    });
                    if im.unsafety.is_some() {
                        // bounds on the target's parameters
                        let (impl_tys, _, _) = generic_names(&im.generics);
                        let mut pos: BTreeMap<String, usize> = BTreeMap::new();
                        let mut specialised = false;
                        let mut n = 0;
                        if let syn::Type::Path(stp) = &*im.self_ty {
                            if let syn::PathArguments::AngleBracketed(ab) = &stp.path.segments.last().unwrap().arguments {
                                // positions among the TYPE parameters of the definition
                                let def_kinds: Vec<bool> = match cm.resolve_syn(mi, &{
                                    let mut b = stp.path.clone();
                                    for s in b.segments.iter_mut() {
                                        s.arguments = syn::PathArguments::None;
                                    }
                                    b
                                }) {
                                    Ok((Res::Def(d), _)) => cm
                                        .generics_of(d)
                                        .map(|g| {
                                            g.params
                                                .iter()
                                                .filter_map(|p| match p {
                                                    syn::GenericParam::Type(_) => Some(true),
                                                    syn::GenericParam::Const(_) => Some(false),
                                                    _ => None,
                                                })
                                                .collect()
                                        })
                                        .unwrap_or_default(),
                                    _ => vec![],
                                };
                                let non_lt: Vec<&syn::GenericArgument> = ab
                                    .args
                                    .iter()
                                    .filter(|a| !matches!(a, syn::GenericArgument::Lifetime(_)))
                                    .collect();
                                for (a, is_ty) in non_lt.iter().zip(def_kinds.iter()) {
                                    if !*is_ty {
                                        continue;
                                    }
                                    match a {
                                        syn::GenericArgument::Type(syn::Type::Path(p))
                                            if p.path.get_ident().map_or(false, |i| impl_tys.contains(&i.to_string())) =>
                                        {
                                            pos.insert(p.path.get_ident().unwrap().to_string(), n);
                                        }
                                        _ => specialised = true,
                                    }
                                    n += 1;
                                }
                            }
                        }
                        let mut bounds: Vec<(usize, String)> = vec![];
                        let mut add = |who: &str, bs: &syn::punctuated::Punctuated<syn::TypeParamBound, syn::Token![+]>| {
                            if let Some(&i) = pos.get(who) {
                                for b in bs {
                                    if let syn::TypeParamBound::Trait(tb) = b {
                                        let e = (i, trait_key(&tb.path));
                                        if !bounds.contains(&e) {
                                            bounds.push(e);
                                        }
                                    }
                                }
                            }
                        };
                        for p in &im.generics.params {
                            if let syn::GenericParam::Type(t) = p {
                                add(&t.ident.to_string(), &t.bounds);
                            }
                        }
                        if let Some(wc) = &im.generics.where_clause {
                            for pred in &wc.predicates {
                                if let syn::WherePredicate::Type(pt) = pred {
                                    if let syn::Type::Path(p) = &pt.bounded_ty {
                                        if let Some(id) = p.path.get_ident() {
                                            add(&id.to_string(), &pt.bounds);
                                        }
                                    }
                                }
                            }
                        }
                        bounds.sort();
                        let field_params = if specialised {
                            None
                        } else {
                            adts.iter().find(|a| a.name == ty).map(|a| {
                                let mut v = vec![];
                                for f in &a.fields {
                                    ty_params(f, &mut v);
                                }
                                v.sort();
                                v
                            })
                        };
                        c.unsafe_impls.push(UnsafeImplRow {
                            ty,
                            tr: trait_key(tp),
                            nparams: n,
                            bounds,
                            field_params,
                            shown: format!("{} {}", norm(&im.generics), im.generics.where_clause.as_ref().map(norm).unwrap_or_default())
                                .trim()
                                .to_string(),
                            loc: loc(file, im.impl_token.span()),
                        });
                    }
                }
                syn::Item::Trait(t) => {
                    if t.unsafety.is_some() {
                        return Err(format!("{}: `unsafe trait` is not tabulated", loc(file, t.span())));
                    }
                }
                syn::Item::Fn(f) => {
                    let mut v = GuardV { file, owner: q(&f.sig.ident.to_string()), const_fn: f.sig.constness.is_some(), in_const: 0, out: &mut c.guards };
                    v.visit_block(&f.block);
                }
                syn::Item::Macro(m) => match &m.ident {
                    Some(id) => {
                        macro_arms(&id.to_string(), file, m.mac.tokens.clone(), &mut c.impls);
                        if m.attrs.iter().any(|a| a.path().is_ident("macro_export")) {
                            exported_macro_arms(&id.to_string(), file, m.mac.tokens.clone(), &mut c.macros)?;
                        }
                    }
                    None => {
                        let name = m.mac.path.segments.last().map(|s| s.ident.to_string()).unwrap_or_default();
                        c.impls.push(ImplRow {
                            kind: ".macroCall",
                            ty: format!("{name}!"),
                            tr: file.rel.clone(),
                            tr_full: file.rel.clone(),
                            methods: vec![],
                            entries: count_semis(m.mac.tokens.clone()).max(1),
                            is_unsafe: false,
                            loc: loc(file, m.span()),
                        });
                    }
                },
                _ => {}
            }
        }
    }
    Ok(c)
}

fn scan_impl_guards(file: &SrcFile, owner: &str, im: &syn::ItemImpl, out: &mut Vec<GuardRow>) -> Result<(), String> {
    for ii in &im.items {
        match ii {
            syn::ImplItem::Fn(f) => {
                if cfg_active(&f.attrs)? {
                    let mut v = GuardV { file, owner: format!("{owner}::{}", f.sig.ident), const_fn: f.sig.constness.is_some(), in_const: 0, out };
                    v.visit_block(&f.block);
                }
            }
            syn::ImplItem::Const(k) => {
                if cfg_active(&k.attrs)? {
                    // an associated const is evaluated at compile time as a whole
                    let mut v = GuardV { file, owner: format!("{owner}::{}", k.ident), const_fn: false, in_const: 1, out };
                    v.visit_expr(&k.expr);
                }
            }
            _ => {}
        }
    }
    Ok(())
}

fn named(xs: &[String]) -> String {
    format!(
        "[{}]",
        xs.iter().map(|x| format!("({}, {})", key_of(x), lean_string(x))).collect::<Vec<_>>().join(", ")
    )
}

pub fn render(c: &Collected) -> String {
    let mut o = String::from(HEADER);
    o.push_str("-- Trait impls (written, derived, macro arms, macro invocations), unsafe impls, exported macro arms and\n");
    o.push_str("-- compile-time guards of the compiled non-test source (see harness/src/extract/surface.rs).\n");
    o.push_str("import HipVerif.Model.SurfaceTy\n\nnamespace HipVerif.Gen.Surface\nopen HipVerif.Model.Surface\n\n");
    const CH: usize = 60;
    let n = (c.impls.len() + CH - 1) / CH;
    for k in 0..n {
        let part = &c.impls[k * CH..((k + 1) * CH).min(c.impls.len())];
        o.push_str(&format!("def impls_{k} : List ImplRow := [\n"));
        for (i, r) in part.iter().enumerate() {
            o.push_str(&format!(
                "  ⟨{}, {}, {}, {}, {}, {}, {}, {}, {}⟩{}\n",
                r.kind,
                key_of(&r.ty),
                lean_string(&r.ty),
                key_of(&r.tr),
                lean_string(&r.tr_full),
                named(&r.methods),
                r.entries,
                r.is_unsafe,
                lean_string(&r.loc),
                if i + 1 == part.len() { "" } else { "," }
            ));
        }
        o.push_str("]\n\n");
    }
    o.push_str(&format!(
        "def implChunks : List (List ImplRow) := [{}]\n\ndef impls : List ImplRow := implChunks.flatten\n\n",
        (0..n).map(|k| format!("impls_{k}")).collect::<Vec<_>>().join(", ")
    ));
    o.push_str("def unsafeImpls : List UnsafeImpl := [\n");
    for (i, r) in c.unsafe_impls.iter().enumerate() {
        o.push_str(&format!(
            "  ⟨{}, {}, {}, {}, [{}], {}, {}, {}⟩{}\n",
            key_of(&r.ty),
            lean_string(&r.ty),
            key_of(&r.tr),
            r.nparams,
            r.bounds.iter().map(|(i, b)| format!("({i}, {})", key_of(b))).collect::<Vec<_>>().join(", "),
            match &r.field_params {
                Some(v) => format!("(some [{}])", v.iter().map(|x| x.to_string()).collect::<Vec<_>>().join(", ")),
                None => "none".into(),
            },
            lean_string(&r.shown),
            lean_string(&r.loc),
            if i + 1 == c.unsafe_impls.len() { "" } else { "," }
        ));
    }
    o.push_str("]\n\ndef exportedMacros : List MacroArm := [\n");
    for (i, r) in c.macros.iter().enumerate() {
        o.push_str(&format!(
            "  ⟨{}, {}, {}, {}, [{}], [{}], {}⟩{}\n",
            key_of(&r.name),
            lean_string(&r.name),
            r.arm,
            r.has_unsafe,
            r.in_unsafe.iter().map(|(n, f)| format!("({}, {})", lean_string(n), lean_string(f))).collect::<Vec<_>>().join(", "),
            r.expr_vars.iter().map(|n| lean_string(n)).collect::<Vec<_>>().join(", "),
            lean_string(&r.loc),
            if i + 1 == c.macros.len() { "" } else { "," }
        ));
    }
    o.push_str("]\n\ndef constGuards : List ConstGuard := [\n");
    for (i, r) in c.guards.iter().enumerate() {
        o.push_str(&format!(
            "  ⟨{}, {}, {}, {}, {}, {}⟩{}\n",
            r.kind,
            key_of(&r.owner),
            lean_string(&r.owner),
            key_of(&r.cond),
            lean_string(&r.cond),
            lean_string(&r.loc),
            if i + 1 == c.guards.len() { "" } else { "," }
        ));
    }
    o.push_str("]\n\nend HipVerif.Gen.Surface\n");
    o
}

pub fn generate(repo: &Repo) -> Result<Vec<GenFile>, String> {
    let cm = CrateModel::build(repo)?;
    let c = collect(&cm)?;
    if c.impls.len() < 100 {
        return Err(format!("only {} trait impls found", c.impls.len()));
    }
    let _ = DefKind::Other;
    Ok(vec![GenFile {
        name: "Surface.lean".into(),
        content: render(&c),
    }])
}


// ---------------------------------------------------------------------------------------------
// auto-trait probes per TYPE PARAMETER (used by `probedrive --only c05`)
// ---------------------------------------------------------------------------------------------

/// One client-side question for rustc: does `ty: tr` hold?
pub struct ParamProbe {
    /// definition path of the type (`vecs::thin::ThinVec`)
    pub def: String,
    /// the parameter instantiated with a non-`Send` / non-`Sync` witness (None = the positive twin)
    pub param: Option<String>,
    /// `send` | `sync`
    pub tr: &'static str,
    /// the fully spelled type
    pub ty: String,
    /// rustc must reject (a bad parameter) / must accept (positive twin of an `unsafe impl` row)
    pub must_reject: bool,
    /// `structural` (every public type with type parameters) or `unsafe impl @ file:line`
    pub origin: String,
    pub loc: String,
}

pub struct ParamProbes {
    pub probes: Vec<ParamProbe>,
    /// (what, why): types / parameters for which no client program can be written
    pub unspellable: Vec<(String, String)>,
}

const NOT_SEND: &str = "::std::rc::Rc<()>";
const NOT_SYNC: &str = "::core::cell::Cell<u8>";

/// For every PUBLIC struct/enum/union with type parameters, and for every `unsafe impl Send/Sync`
/// row: per type parameter that occurs in a field type, the type instantiated with a
/// non-`Send` (resp. non-`Sync`) witness for that parameter and well-behaved types for the
/// others. `phantom` = reviewed (definition path, parameter index) pairs to skip.
pub fn param_probes(cm: &CrateModel, phantom: &[(String, usize)]) -> Result<ParamProbes, String> {
    let (adts, _) = autotraits::collect(cm)?;
    let surface = collect(cm)?;
    let mut out = ParamProbes { probes: vec![], unspellable: vec![] };
    for (d, def) in cm.defs.iter().enumerate() {
        if !cm.is_adt(d) {
            continue;
        }
        let path = cm.def_path(d);
        let Some(g) = cm.generics_of(d) else { continue };
        let (tys, n_lt, _) = generic_names(g);
        if tys.is_empty() {
            continue;
        }
        let unsafe_rows: Vec<&UnsafeImplRow> = surface.unsafe_impls.iter().filter(|u| u.ty == path).collect();
        let Some(pp) = &def.public_path else {
            for u in &unsafe_rows {
                out.unspellable.push((
                    format!("unsafe impl {} for {path} @ {}", u.tr, u.loc),
                    "the type has no public path: a client cannot name it".into(),
                ));
            }
            continue;
        };
        let Some(adt) = adts.iter().find(|a| a.name == path) else { continue };
        let mut in_fields = vec![];
        for f in &adt.fields {
            ty_params(f, &mut in_fields);
        }
        // witnesses per parameter, from the bounds on the DEFINITION
        let mut bounds: BTreeMap<String, Vec<String>> = BTreeMap::new();
        for p in &g.params {
            if let syn::GenericParam::Type(t) = p {
                let e = bounds.entry(t.ident.to_string()).or_default();
                for b in &t.bounds {
                    if let syn::TypeParamBound::Trait(tb) = b {
                        e.push(trait_key(&tb.path));
                    }
                }
            }
        }
        if let Some(wc) = &g.where_clause {
            for pred in &wc.predicates {
                if let syn::WherePredicate::Type(pt) = pred {
                    if let syn::Type::Path(p) = &pt.bounded_ty {
                        if let Some(id) = p.path.get_ident() {
                            let e = bounds.entry(id.to_string()).or_default();
                            for b in &pt.bounds {
                                if let syn::TypeParamBound::Trait(tb) = b {
                                    e.push(trait_key(&tb.path));
                                }
                            }
                        }
                    }
                }
            }
        }
        // (good, bad for Send, bad for Sync); None = no witness of that kind exists
        let witness = |name: &str| -> Result<(String, Option<String>, Option<String>), String> {
            let bs = bounds.get(name).cloned().unwrap_or_default();
            if bs.iter().any(|b| b == "Backend") {
                // every backend is `Send`; `Rc` is the one that is not `Sync`
                Ok(("::hipstr::Arc".into(), None, Some("::hipstr::Rc".into())))
            } else if bs.iter().any(|b| b == "MutVector" || b == "Vector") {
                Ok((
                    "::alloc::vec::Vec<u8>".into(),
                    Some(format!("::alloc::vec::Vec<{NOT_SEND}>")),
                    Some(format!("::alloc::vec::Vec<{NOT_SYNC}>")),
                ))
            } else if bs.iter().all(|b| matches!(b.as_str(), "Clone" | "Default" | "Sized")) {
                Ok(("u8".into(), Some(NOT_SEND.into()), Some(NOT_SYNC.into())))
            } else {
                Err(format!("no witness for a parameter bounded by {bs:?}"))
            }
        };
        let spell = |subst: &dyn Fn(&str) -> String| -> Result<String, String> {
            let mut args: Vec<String> = vec!["'static".to_string(); n_lt];
            for p in &g.params {
                match p {
                    syn::GenericParam::Type(t) => args.push(subst(&t.ident.to_string())),
                    syn::GenericParam::Const(c) => args.push(match norm(&c.ty).as_str() {
                        "usize" => "7".into(),
                        "u8" => "1".into(),
                        other => return Err(format!("no default for a const parameter of type {other}")),
                    }),
                    syn::GenericParam::Lifetime(_) => {}
                }
            }
            Ok(format!("::hipstr::{}<{}>", pp.join("::"), args.join(", ")))
        };
        let goods: Result<BTreeMap<String, (String, Option<String>, Option<String>)>, String> =
            tys.iter().map(|t| witness(t).map(|w| (t.clone(), w))).collect();
        let goods = match goods {
            Ok(g) => g,
            Err(e) => {
                out.unspellable.push((path.clone(), e));
                continue;
            }
        };
        let here = loc(cm.modules[def.module].file, match &def.kind {
            DefKind::Struct(s) => s.ident.span(),
            DefKind::Enum(s) => s.ident.span(),
            DefKind::Union(s) => s.ident.span(),
            _ => proc_macro2::Span::call_site(),
        });
        let all_good = |n: &str| goods[n].0.clone();
        for (i, t) in tys.iter().enumerate() {
            if !in_fields.contains(&i) || phantom.iter().any(|(p, k)| *p == path && *k == i) {
                continue;
            }
            for (tr, bad) in [("send", goods[t].1.clone()), ("sync", goods[t].2.clone())] {
                match bad {
                    Some(bad) => {
                        let ty = spell(&|n: &str| if n == t { bad.clone() } else { all_good(n) })?;
                        out.probes.push(ParamProbe {
                            def: path.clone(),
                            param: Some(t.clone()),
                            tr,
                            ty,
                            must_reject: true,
                            origin: "structural".into(),
                            loc: here.clone(),
                        });
                    }
                    None => out.unspellable.push((
                        format!("{path}: parameter {t}, {tr}"),
                        "no backend is !Send: the Send side of a `B: Backend` parameter is the C05 table's Rc rows".into(),
                    )),
                }
            }
        }
        // positive twins of the unsafe impls: with well-behaved parameters the trait must hold
        for u in &unsafe_rows {
            let tr = if u.tr == "Send" { "send" } else if u.tr == "Sync" { "sync" } else { continue };
            out.probes.push(ParamProbe {
                def: path.clone(),
                param: None,
                tr,
                ty: spell(&|n: &str| all_good(n))?,
                must_reject: false,
                origin: format!("unsafe impl @ {}", u.loc),
                loc: u.loc.clone(),
            });
        }
    }
    Ok(out)
}
