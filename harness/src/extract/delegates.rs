//! Translator for `Gen/Delegates.lean` — the "wrapper delegation" table (tie for C01/C06:
//! `HipStr` / `HipOsStr` / `HipPath` are `HipByt` + guards).
//!
//! One row per inherent `pub`/`pub(crate)` fn of the three wrapper types, and per fn of their
//! `Clone`/`Drop`/`Default`/`Deref`/`AsRef`/`Borrow`/`From`/`TryFrom`/`FromStr` impls (either
//! direction: `impl From<HipStr> for String` is a row of `HipStr`). Each row records what the
//! body DOES, syntactically:
//! * `targets` — calls on the wrapped value (`self.0.m(..)`, `<param>.0.m(..)`,
//!   `HipByt::m(..)`; for `HipPath`, which wraps a `HipOsStr`, `HipOsStr::m(..)`), `".0"` for a
//!   bare projection of the wrapped value;
//! * `callees` — calls of other wrapper-level fns (`self.m(..)` / `Self::m(..)` with `m` an
//!   inherent fn of the wrapper, `HipStr::m(..)` from another wrapper);
//! * `ext` — every other call (std functions/methods), adapters and combinators excluded;
//! * `guards` — checks in order of appearance (`is_char_boundary`, UTF-8 validation, range
//!   normalisation, other `assert!`s; `#[cfg(debug_assertions)]` blocks are ignored);
//! * whether the result is wrapped by the tuple constructor (`Self(..)`) and which unchecked
//!   re-typing constructors occur (`from_utf8_unchecked`, `from_encoded_bytes_unchecked`,
//!   `transmute`, …);
//! * whether every parameter is passed, unchanged and in order, to the single target call
//!   (modulo `as_bytes()` / `as_encoded_bytes()` / `as_ref()` / `&` adapters);
//! * the class of each parameter type (the C06 doors classifier).
//! and a `shape` computed from that: `delegate` (one target, nothing else, no control flow
//! beyond a re-wrapping `match`), `guarded` (one target preceded by guards), `composed` (no
//! target, calls wrapper-level fns), `other` (fails closed).
//! Also: the wrapper fns the Core differential (`src/bin/coredrive.rs`, embedded at build time)
//! calls in UFCS form.

use std::collections::{BTreeMap, BTreeSet};

use syn::spanned::Spanned;
use syn::visit::Visit;

use super::autotraits::{cfg_active, lean_string, vis_of, CrateModel, Res, Vis};
use super::pubfns::doors::{param_classes, InClass};
use super::pubfns::key_of;
use super::repo::{loc, SrcFile};
use super::{GenFile, Repo, HEADER};

const COREDRIVE_SRC: &str = include_str!("../bin/coredrive.rs");

#[derive(Clone, Copy, PartialEq, Eq, PartialOrd, Ord, Debug)]
enum Wrapper {
    Str,
    Os,
    Path,
}

impl Wrapper {
    fn lean(self) -> &'static str {
        match self {
            Wrapper::Str => ".str",
            Wrapper::Os => ".os",
            Wrapper::Path => ".path",
        }
    }
    fn def_path(self) -> &'static str {
        match self {
            Wrapper::Str => "string::HipStr",
            Wrapper::Os => "os_string::HipOsStr",
            Wrapper::Path => "path::HipPath",
        }
    }
    fn ident(self) -> &'static str {
        match self {
            Wrapper::Str => "HipStr",
            Wrapper::Os => "HipOsStr",
            Wrapper::Path => "HipPath",
        }
    }
    /// identifier of the wrapped type (calls `Inner::m(..)` are targets)
    fn inner_ident(self) -> &'static str {
        match self {
            Wrapper::Str | Wrapper::Os => "HipByt",
            Wrapper::Path => "HipOsStr",
        }
    }
    fn of_def_path(p: &str) -> Option<Wrapper> {
        match p {
            "string::HipStr" => Some(Wrapper::Str),
            "os_string::HipOsStr" => Some(Wrapper::Os),
            "path::HipPath" => Some(Wrapper::Path),
            _ => None,
        }
    }
}

/// Trait impls that produce rows (last path segment of the trait).
const ROW_TRAITS: &[&str] = &[
    "Clone", "Drop", "Default", "Deref", "AsRef", "Borrow", "From", "TryFrom", "FromStr", "Into",
];

/// Methods that only re-type / re-borrow an argument (applied to a parameter).
const ADAPTERS: &[&str] = &[
    "as_bytes", "as_encoded_bytes", "as_ref", "as_os_str", "as_path", "as_str", "as_slice", "into",
    "borrow", "into_bytes", "into_boxed_bytes", "into_vec", "into_encoded_bytes", "into_string",
    "into_os_string", "into_iter",
];
/// Combinators that only re-wrap what the target returned.
const COMBINATORS: &[&str] = &["map", "map_err", "ok", "unwrap_or_else", "map_or_else"];
/// Safe constructors that only re-type / re-wrap (no content change, no unchecked claim).
const SAFE_WRAP: &[&str] = &["Path::new", "OsStr::new", "BStr::new", "Cow::Owned", "Cow::Borrowed"];
/// Wrapper fns that are plain views / size queries: calling them next to the single real target
/// does not make a guarded fn "composed".
const VIEW_FNS: &[&str] = &["len", "is_empty", "as_str", "as_os_str", "as_path"];
/// Constructors that re-type bytes WITHOUT a check.
const UNCHECKED: &[&str] = &[
    "from_utf8_unchecked",
    "from_utf8_unchecked_mut",
    "from_encoded_bytes_unchecked",
    "transmute",
    "from_boxed_utf8_unchecked",
];

#[derive(Default)]
struct Analysis {
    targets: Vec<String>,
    /// per target call: the parameter each argument reduces to (None = not a parameter)
    target_args: Vec<Vec<Option<String>>>,
    callees: Vec<String>,
    ext: Vec<String>,
    guards: Vec<&'static str>,
    wraps: bool,
    retyped: Vec<String>,
    has_if: bool,
    has_loop: bool,
    has_try: bool,
    has_other_match: bool,
    has_let_else: bool,
    param_uses: BTreeMap<String, usize>,
}

struct V<'a> {
    w: Wrapper,
    params: &'a [String],
    /// parameters whose type is a wrapper type
    wrapper_params: &'a BTreeMap<String, Wrapper>,
    all_fns: &'a BTreeMap<Wrapper, BTreeSet<String>>,
    /// `let x = <adapter chain on parameter p>` aliases
    aliases: BTreeMap<String, String>,
    wrapper_fns: &'a BTreeSet<String>,
    a: Analysis,
    err: Option<String>,
}

fn strip(e: &syn::Expr) -> &syn::Expr {
    match e {
        syn::Expr::Paren(p) => strip(&p.expr),
        syn::Expr::Group(p) => strip(&p.expr),
        syn::Expr::Reference(r) => strip(&r.expr),
        _ => e,
    }
}

fn path_ident(e: &syn::Expr) -> Option<String> {
    match strip(e) {
        syn::Expr::Path(p) => p.path.get_ident().map(|i| i.to_string()),
        _ => None,
    }
}

/// `x.0` / `x.0.0` with `x` = `self` or a parameter: the wrapped value.
fn inner_place(e: &syn::Expr, params: &[String]) -> Option<String> {
    if let syn::Expr::Field(f) = strip(e) {
        if let syn::Member::Unnamed(i) = &f.member {
            if i.index == 0 {
                if let Some(id) = path_ident(&f.base) {
                    if id == "self" || params.contains(&id) {
                        return Some(id);
                    }
                }
                return inner_place(&f.base, params);
            }
        }
    }
    None
}

impl<'a> V<'a> {
    /// the parameter an argument expression reduces to through adapters
    fn arg_root(&self, e: &syn::Expr) -> Option<String> {
        match strip(e) {
            syn::Expr::Path(p) => p.path.get_ident().map(|i| i.to_string()).and_then(|n| {
                if let Some(p) = self.aliases.get(&n) {
                    Some(p.clone())
                } else if self.params.contains(&n) {
                    Some(n)
                } else {
                    None
                }
            }),
            syn::Expr::MethodCall(m) if m.args.is_empty() && ADAPTERS.contains(&m.method.to_string().as_str()) => {
                self.arg_root(&m.receiver)
            }
            // `iter.map(AsBytes)`: element-wise re-typing by a named function
            syn::Expr::MethodCall(m)
                if m.method == "map" && m.args.len() == 1 && matches!(&m.args[0], syn::Expr::Path(_)) =>
            {
                self.arg_root(&m.receiver)
            }
            syn::Expr::Unsafe(u) if u.block.stmts.len() == 1 => match &u.block.stmts[0] {
                syn::Stmt::Expr(inner, None) => self.arg_root(inner),
                _ => None,
            },
            // `transmute(slices)`: `&[&str]` → `&[&[u8]]` (recorded in `retyped` as well)
            syn::Expr::Call(c) if c.args.len() == 1 => match &*c.func {
                syn::Expr::Path(fp) if fp.path.segments.last().map_or(false, |s| s.ident == "transmute") => {
                    self.arg_root(&c.args[0])
                }
                _ => None,
            },
            syn::Expr::Field(f) => {
                // `value.0`: the wrapped value of a wrapper-typed parameter
                if matches!(&f.member, syn::Member::Unnamed(i) if i.index == 0) {
                    self.arg_root(&f.base)
                } else {
                    None
                }
            }
            _ => None,
        }
    }
    fn scan_macro(&mut self, m: &syn::Macro) {
        let name = m.path.segments.last().map(|s| s.ident.to_string()).unwrap_or_default();
        let toks = m.tokens.to_string();
        match name.as_str() {
            "assert" | "assert_eq" | "assert_ne" => {
                if toks.contains("is_char_boundary") {
                    self.a.guards.push(".charBoundary");
                } else {
                    self.a.guards.push(".assertion");
                }
            }
            "debug_assert" | "debug_assert_eq" | "debug_assert_ne" => {}
            "panic" | "unreachable" | "unimplemented" | "todo" => self.a.ext.push(format!("{name}!")),
            _ => self.a.ext.push(format!("{name}!")),
        }
    }
}

fn is_debug_only(attrs: &[syn::Attribute]) -> bool {
    attrs.iter().any(|a| {
        a.path().is_ident("cfg") && {
            use quote::ToTokens;
            a.meta.to_token_stream().to_string().contains("debug_assertions")
        }
    })
}

impl<'ast, 'a> Visit<'ast> for V<'a> {
    fn visit_item(&mut self, _: &'ast syn::Item) {}
    fn visit_expr_block(&mut self, b: &'ast syn::ExprBlock) {
        if is_debug_only(&b.attrs) {
            return;
        }
        match cfg_active(&b.attrs) {
            Ok(true) => syn::visit::visit_expr_block(self, b),
            Ok(false) => {}
            Err(e) => {
                self.err.get_or_insert(e);
            }
        }
    }
    fn visit_local(&mut self, l: &'ast syn::Local) {
        if is_debug_only(&l.attrs) {
            return;
        }
        if let Some(init) = &l.init {
            if init.diverge.is_some() {
                self.a.has_let_else = true;
            }
            // `let x = <adapter chain on a parameter>;` — an alias, not a use
            let pat = match &l.pat {
                syn::Pat::Type(pt) => &*pt.pat,
                p => p,
            };
            if let (syn::Pat::Ident(pi), Some(root)) = (pat, self.arg_root(&init.expr)) {
                if init.diverge.is_none() {
                    // count the parameter's occurrence in the initialiser, then alias
                    self.visit_expr(&init.expr);
                    *self.a.param_uses.entry(root.clone()).or_default() -= 1;
                    self.aliases.insert(pi.ident.to_string(), root);
                    return;
                }
            }
        }
        syn::visit::visit_local(self, l);
    }
    fn visit_expr_if(&mut self, i: &'ast syn::ExprIf) {
        self.a.has_if = true;
        syn::visit::visit_expr_if(self, i);
    }
    fn visit_expr_while(&mut self, i: &'ast syn::ExprWhile) {
        self.a.has_loop = true;
        syn::visit::visit_expr_while(self, i);
    }
    fn visit_expr_for_loop(&mut self, i: &'ast syn::ExprForLoop) {
        self.a.has_loop = true;
        syn::visit::visit_expr_for_loop(self, i);
    }
    fn visit_expr_loop(&mut self, i: &'ast syn::ExprLoop) {
        self.a.has_loop = true;
        syn::visit::visit_expr_loop(self, i);
    }
    fn visit_expr_try(&mut self, i: &'ast syn::ExprTry) {
        self.a.has_try = true;
        syn::visit::visit_expr_try(self, i);
    }
    fn visit_expr_match(&mut self, m: &'ast syn::ExprMatch) {
        // a re-wrapping match: every arm pattern is `Some(_)`/`None`/`Ok(_)`/`Err(_)` without guard
        let rewrap = m.arms.iter().all(|arm| {
            arm.guard.is_none()
                && match &arm.pat {
                    syn::Pat::TupleStruct(ts) => ts
                        .path
                        .get_ident()
                        .map_or(false, |i| i == "Some" || i == "Ok" || i == "Err"),
                    syn::Pat::Ident(pi) => pi.ident == "None",
                    syn::Pat::Path(pp) => pp.path.is_ident("None"),
                    _ => false,
                }
        });
        if !rewrap {
            self.a.has_other_match = true;
        }
        syn::visit::visit_expr_match(self, m);
    }
    fn visit_expr_path(&mut self, p: &'ast syn::ExprPath) {
        if let Some(id) = p.path.get_ident() {
            let n = id.to_string();
            if let Some(p) = self.aliases.get(&n).cloned() {
                *self.a.param_uses.entry(p).or_default() += 1;
            } else if self.params.contains(&n) {
                *self.a.param_uses.entry(n).or_default() += 1;
            }
        }
        syn::visit::visit_expr_path(self, p);
    }
    fn visit_expr_field(&mut self, f: &'ast syn::ExprField) {
        // a bare projection of the wrapped value (not the receiver of a call: those are handled
        // in `visit_expr_method_call`, which does not descend into the receiver)
        let e = syn::Expr::Field(f.clone());
        if let Some(root) = inner_place(&e, self.params) {
            self.a.targets.push(".0".into());
            if root == "self" {
                self.a.target_args.push(vec![]);
            } else {
                *self.a.param_uses.entry(root.clone()).or_default() += 1;
                self.a.target_args.push(vec![Some(root)]);
            }
            return;
        }
        syn::visit::visit_expr_field(self, f);
    }
    fn visit_macro(&mut self, m: &'ast syn::Macro) {
        self.scan_macro(m);
    }
    fn visit_expr_method_call(&mut self, m: &'ast syn::ExprMethodCall) {
        let name = m.method.to_string();
        let recv = strip(&m.receiver);
        let recv_id = path_ident(recv);
        if let Some(root) = inner_place(recv, self.params) {
            self.a.targets.push(name.clone());
            let mut args: Vec<Option<String>> = vec![];
            if root != "self" {
                *self.a.param_uses.entry(root.clone()).or_default() += 1;
                args.push(Some(root));
            }
            args.extend(m.args.iter().map(|a| self.arg_root(a)));
            self.a.target_args.push(args);
            // do not descend into the receiver (it is the wrapped value, not a projection)
            for a in &m.args {
                self.visit_expr(a);
            }
            return;
        }
        let own_recv = recv_id.as_deref() == Some("self")
            || recv_id.as_ref().map_or(false, |r| self.wrapper_params.get(r) == Some(&self.w));
        let other_w = recv_id.as_ref().and_then(|r| self.wrapper_params.get(r)).filter(|w| **w != self.w);
        if name == "is_char_boundary" {
            self.a.guards.push(".charBoundary");
        } else if own_recv && (self.wrapper_fns.contains(&name) || name == "clone") {
            self.a.callees.push(name.clone());
        } else if other_w.map_or(false, |w| {
            self.all_fns.get(w).map_or(false, |f| f.contains(&name)) || name == "clone"
        }) {
            self.a.callees.push(format!("{}::{name}", other_w.unwrap().ident()));
        } else if name == "to_str" && m.args.is_empty() {
            // `OsStr::to_str` / `Path::to_str`: UTF-8 validation
            self.a.guards.push(".utf8Check");
        } else if name == "to_string_lossy" {
            self.a.guards.push(".lossyCheck");
        } else if COMBINATORS.contains(&name.as_str()) {
            // re-wrapping only; `.map(Self)` / `.map_err(Self)` is the tuple constructor
            for a in &m.args {
                if let Some(id) = path_ident(a) {
                    if id == "Self" || id == self.w.ident() {
                        self.a.wraps = true;
                    }
                }
            }
        } else if m.args.is_empty() && ADAPTERS.contains(&name.as_str()) && self.arg_root(&m.receiver).is_some() {
            // adapter on a parameter
        } else if name == "map" && self.arg_root(&syn::Expr::MethodCall(m.clone())).is_some() {
            // element-wise adapter on a parameter
        } else {
            self.a.ext.push(format!(".{name}"));
        }
        syn::visit::visit_expr_method_call(self, m);
    }
    fn visit_expr_call(&mut self, c: &'ast syn::ExprCall) {
        if let syn::Expr::Path(fp) = &*c.func {
            let segs: Vec<String> = fp.path.segments.iter().map(|s| s.ident.to_string()).collect();
            let last = segs.last().cloned().unwrap_or_default();
            let first = segs.first().cloned().unwrap_or_default();
            let own = ["Self", self.w.ident()];
            if segs.len() == 1 && (own.contains(&last.as_str()) || ["HipStr", "HipOsStr", "HipPath"].contains(&last.as_str())) {
                // tuple constructor
                self.a.wraps = true;
                // wrapping a parameter directly: the constructor itself is the "target"
                if let Some(a0) = c.args.first() {
                    if inner_place(a0, self.params).is_none() {
                        if let Some(root) = self.arg_root(a0) {
                            self.a.targets.push("(wrap)".into());
                            self.a.target_args.push(vec![Some(root)]);
                        }
                    }
                }
            } else if segs.len() == 1 && ["Some", "Ok", "Err"].contains(&last.as_str()) {
            } else if UNCHECKED.contains(&last.as_str()) {
                self.a.retyped.push(last.clone());
            } else if segs.len() >= 2 && first == self.w.inner_ident() {
                self.a.targets.push(last.clone());
                let args = c.args.iter().map(|a| self.arg_root(a)).collect();
                self.a.target_args.push(args);
            } else if segs.len() >= 2 && own.contains(&first.as_str()) {
                self.a.callees.push(last.clone());
            } else if segs.len() >= 2 && ["HipStr", "HipOsStr", "HipPath", "HipByt"].contains(&first.as_str()) {
                self.a.callees.push(format!("{first}::{last}"));
            } else if SAFE_WRAP.contains(&segs.join("::").as_str()) {
            } else if last == "from_utf8" && !own.contains(&first.as_str()) {
                self.a.guards.push(".utf8Check");
            } else if last == "from_utf8_lossy" || last == "from_utf16_lossy" {
                self.a.guards.push(".lossyCheck");
            } else if last == "simplify_range" {
                self.a.guards.push(".rangeCheck");
            } else {
                self.a.ext.push(segs.join("::"));
            }
        } else {
            self.a.ext.push("<indirect call>".into());
        }
        syn::visit::visit_expr_call(self, c);
    }
}

pub struct Row {
    wrapper: Wrapper,
    name: String,
    simple: String,
    vis: &'static str,
    is_unsafe: bool,
    shape: &'static str,
    a: Analysis,
    args_unchanged: bool,
    /// receiver is `&mut self`
    mut_self: bool,
    classes: Vec<InClass>,
    loc: String,
}

fn class_lean(c: InClass) -> &'static str {
    match c {
        InClass::StrLike => ".strLike",
        InClass::OsLike => ".osLike",
        InClass::BytesLike => ".bytesLike",
        InClass::Decoder => ".decoder",
        InClass::Scalar => ".scalar",
        InClass::Other => ".other",
    }
}

fn analyse(
    w: Wrapper,
    sig: &syn::Signature,
    block: &syn::Block,
    wrapper_fns: &BTreeSet<String>,
    all_fns: &BTreeMap<Wrapper, BTreeSet<String>>,
    wrapper_params: &BTreeMap<String, Wrapper>,
    file: &SrcFile,
) -> Result<(Analysis, bool, &'static str), String> {
    let mut params = vec![];
    for a in &sig.inputs {
        if let syn::FnArg::Typed(pt) = a {
            match &*pt.pat {
                syn::Pat::Ident(pi) => params.push(pi.ident.to_string()),
                _ => params.push(format!("<pattern {}>", params.len())),
            }
        }
    }
    let mut v = V {
        w,
        params: &params,
        wrapper_params,
        all_fns,
        aliases: BTreeMap::new(),
        wrapper_fns,
        a: Analysis::default(),
        err: None,
    };
    v.visit_block(block);
    if let Some(e) = v.err {
        return Err(format!("{}: {e}", loc(file, sig.ident.span())));
    }
    let mut a = v.a;
    let args_unchanged = a.targets.len() == 1 && {
        let roots: Vec<Option<String>> = a.target_args[0].clone();
        let used: Vec<String> = roots.iter().flatten().cloned().collect();
        roots.iter().all(|r| r.is_some())
            && used == params
            && params.iter().all(|p| a.param_uses.get(p).copied().unwrap_or(0) == 1)
    };
    let control = a.has_if || a.has_loop || a.has_try || a.has_other_match || a.has_let_else;
    let eff_callees = a.callees.iter().filter(|c| !VIEW_FNS.contains(&c.as_str())).count();
    let shape = if a.targets.len() == 1 && a.callees.is_empty() && a.ext.is_empty() && a.guards.is_empty() && !control {
        ".delegate"
    } else if !a.guards.is_empty()
        && !a.has_loop
        && (a.targets.len() + eff_callees == 1
            || (a.targets.is_empty() && eff_callees == 0 && !a.retyped.is_empty()))
    {
        ".guarded"
    } else if a.targets.is_empty() && !a.callees.is_empty() {
        ".composed"
    } else {
        ".other"
    };
    Ok((a, args_unchanged, shape))
}

pub struct Collected {
    pub rows: Vec<Row>,
    pub driven: Vec<(Wrapper, String)>,
    pub skipped_traits: BTreeMap<String, usize>,
}

fn wrapper_of_type(cm: &CrateModel, module: usize, t: &syn::Type) -> Option<Wrapper> {
    let t = match t {
        syn::Type::Reference(r) => &*r.elem,
        o => o,
    };
    if let syn::Type::Path(tp) = t {
        if tp.qself.is_none() {
            let mut bare = tp.path.clone();
            for s in bare.segments.iter_mut() {
                s.arguments = syn::PathArguments::None;
            }
            if let Ok((Res::Def(d), rest)) = cm.resolve_syn(module, &bare) {
                if rest.is_empty() {
                    return Wrapper::of_def_path(&cm.def_path(d));
                }
            }
        }
    }
    None
}

fn norm(t: &impl quote::ToTokens) -> String {
    super::pubfns::norm_tokens_pub(t)
}

pub fn collect(cm: &CrateModel) -> Result<Collected, String> {
    // pass 1: inherent fn names per wrapper
    let mut fns: BTreeMap<Wrapper, BTreeSet<String>> = BTreeMap::new();
    for (mi, module) in cm.modules.iter().enumerate() {
        for it in &module.items {
            if let syn::Item::Impl(im) = it {
                if im.trait_.is_none() {
                    if let Some(w) = wrapper_of_type(cm, mi, &im.self_ty) {
                        for ii in &im.items {
                            if let syn::ImplItem::Fn(f) = ii {
                                if cfg_active(&f.attrs)? {
                                    fns.entry(w).or_default().insert(f.sig.ident.to_string());
                                }
                            }
                        }
                    }
                }
            }
        }
    }
    let empty = BTreeSet::new();
    let mut rows = vec![];
    let mut skipped: BTreeMap<String, usize> = BTreeMap::new();
    for (mi, module) in cm.modules.iter().enumerate() {
        let file = module.file;
        for it in &module.items {
            let syn::Item::Impl(im) = it else { continue };
            let self_w = wrapper_of_type(cm, mi, &im.self_ty);
            let (w, prefix, is_trait) = match &im.trait_ {
                None => match self_w {
                    Some(w) => (w, w.def_path().to_string(), false),
                    None => continue,
                },
                Some((_, tp, _)) => {
                    let tname = tp.segments.last().map(|s| s.ident.to_string()).unwrap_or_default();
                    // the wrapper the impl is about: the self type, else the trait's type argument
                    let arg_w = tp.segments.last().and_then(|s| match &s.arguments {
                        syn::PathArguments::AngleBracketed(ab) => ab.args.iter().find_map(|a| match a {
                            syn::GenericArgument::Type(t) => wrapper_of_type(cm, mi, t),
                            _ => None,
                        }),
                        _ => None,
                    });
                    let Some(w) = self_w.or(arg_w) else { continue };
                    if !ROW_TRAITS.contains(&tname.as_str()) {
                        *skipped.entry(tname).or_default() += 1;
                        continue;
                    }
                    let self_name = match (&self_w, &*im.self_ty) {
                        (Some(sw), syn::Type::Path(p)) => format!(
                            "{}{}",
                            sw.def_path(),
                            norm(&p.path.segments.last().unwrap().arguments)
                        ),
                        _ => norm(&*im.self_ty),
                    };
                    (w, format!("<{} as {}>", self_name, norm(tp)), true)
                }
            };
            let generics = vec![&im.generics];
            for ii in &im.items {
                let syn::ImplItem::Fn(f) = ii else { continue };
                if !cfg_active(&f.attrs)? {
                    continue;
                }
                let vis = if is_trait {
                    ".traitImpl"
                } else {
                    match vis_of(&f.vis) {
                        Vis::Pub => ".pub",
                        Vis::Restricted => ".crate",
                        Vis::Private => continue,
                    }
                };
                let mut wparams = BTreeMap::new();
                for arg in &f.sig.inputs {
                    if let syn::FnArg::Typed(pt) = arg {
                        if let (syn::Pat::Ident(pi), Some(pw)) = (&*pt.pat, wrapper_of_type(cm, mi, &pt.ty)) {
                            wparams.insert(pi.ident.to_string(), pw);
                        }
                    }
                }
                let (a, args_unchanged, shape) =
                    analyse(w, &f.sig, &f.block, fns.get(&w).unwrap_or(&empty), &fns, &wparams, file)?;
                let classes = param_classes(cm, mi, &generics, Some(&*im.self_ty), &f.sig);
                let simple = f.sig.ident.to_string();
                rows.push(Row {
                    wrapper: w,
                    name: format!("{prefix}::{simple}"),
                    simple,
                    vis,
                    is_unsafe: f.sig.unsafety.is_some(),
                    shape,
                    a,
                    args_unchanged,
                    mut_self: matches!(f.sig.inputs.first(), Some(syn::FnArg::Receiver(r)) if r.reference.is_some() && r.mutability.is_some()),
                    classes,
                    loc: loc(file, f.sig.ident.span()),
                });
            }
        }
    }
    let mut seen = BTreeSet::new();
    for r in &rows {
        if !seen.insert(r.name.clone()) {
            return Err(format!("duplicate delegate row `{}` ({})", r.name, r.loc));
        }
    }
    // the wrapper fns the Core differential calls (UFCS: `HipStr::truncate(self, n)`)
    let ast = syn::parse_file(COREDRIVE_SRC).map_err(|e| format!("coredrive.rs: {e}"))?;
    struct D(BTreeSet<(Wrapper, String)>);
    impl<'ast> Visit<'ast> for D {
        fn visit_expr_path(&mut self, p: &'ast syn::ExprPath) {
            if p.path.segments.len() == 2 {
                let a = p.path.segments[0].ident.to_string();
                let b = p.path.segments[1].ident.to_string();
                let w = match a.as_str() {
                    "HipStr" => Some(Wrapper::Str),
                    "HipOsStr" => Some(Wrapper::Os),
                    "HipPath" => Some(Wrapper::Path),
                    _ => None,
                };
                if let Some(w) = w {
                    self.0.insert((w, b));
                }
            }
            syn::visit::visit_expr_path(self, p);
        }
        fn visit_macro(&mut self, _: &'ast syn::Macro) {}
    }
    let mut d = D(BTreeSet::new());
    d.visit_file(&ast);
    Ok(Collected {
        rows,
        driven: d.0.into_iter().collect(),
        skipped_traits: skipped,
    })
}

fn keys(xs: &[String]) -> String {
    format!(
        "[{}]",
        xs.iter()
            .map(|x| format!("({}, {})", key_of(x), lean_string(x)))
            .collect::<Vec<_>>()
            .join(", ")
    )
}

pub fn render(c: &Collected) -> String {
    let mut o = String::from(HEADER);
    o.push_str("-- What the body of every HipStr / HipOsStr / HipPath fn does with the wrapped value (see\n");
    o.push_str("-- harness/src/extract/delegates.rs), and the wrapper fns the Core differential calls.\n");
    o.push_str(&format!(
        "-- Trait impls not tabulated here (covered by C12/C16/fmt tables): {}\n",
        c.skipped_traits
            .iter()
            .map(|(k, v)| format!("{k}×{v}"))
            .collect::<Vec<_>>()
            .join(", ")
    ));
    o.push_str("import HipVerif.Model.DelegatesTy\n\nnamespace HipVerif.Gen.Delegates\nopen HipVerif.Model.Delegates\nopen HipVerif.Model.Doors (InClass)\n\n");
    o.push_str("def rows : List Row := [\n");
    for (i, r) in c.rows.iter().enumerate() {
        o.push_str(&format!(
            "  ⟨{}, {}, {}, {}, {}, {}, {}, {}, {}, {}, [{}], {}, {}, {}, {}, [{}], {}⟩{}\n",
            r.wrapper.lean(),
            lean_string(&r.name),
            key_of(&r.name),
            key_of(&r.simple),
            r.vis,
            r.is_unsafe,
            r.shape,
            keys(&r.a.targets),
            keys(&r.a.callees),
            keys(&r.a.ext),
            r.a.guards.join(", "),
            r.args_unchanged,
            r.mut_self,
            r.a.wraps,
            keys(&r.a.retyped),
            r.classes.iter().map(|c| class_lean(*c)).collect::<Vec<_>>().join(", "),
            lean_string(&r.loc),
            if i + 1 == c.rows.len() { "" } else { "," }
        ));
    }
    o.push_str("]\n\n/-- wrapper fns called (UFCS) by harness/src/bin/coredrive.rs -/\ndef driven : List (Wrapper × Nat × String) := [\n");
    for (i, (w, n)) in c.driven.iter().enumerate() {
        o.push_str(&format!(
            "  ({}, {}, {}){}\n",
            w.lean(),
            key_of(n),
            lean_string(n),
            if i + 1 == c.driven.len() { "" } else { "," }
        ));
    }
    o.push_str("]\n\nend HipVerif.Gen.Delegates\n");
    o
}

pub fn generate(repo: &Repo) -> Result<Vec<GenFile>, String> {
    let cm = CrateModel::build(repo)?;
    let c = collect(&cm)?;
    if c.rows.len() < 100 {
        return Err(format!("only {} wrapper fns found", c.rows.len()));
    }
    let _ = (Spanned::span(&syn::Ident::new("x", proc_macro2::Span::call_site())),);
    Ok(vec![GenFile {
        name: "Delegates.lean".into(),
        content: render(&c),
    }])
}
