//! `Gen/Protocol.lean`: the ORDER in which the functions that juggle a heap descriptor touch the
//! shared payload and the share count.
//!
//! For each listed function (or match arm of it) the generator walks the body in SOURCE order and
//! emits one event per recognised call:
//!   * `testUnique`  — `.is_unique()`, `.try_unwrap()` (the latter followed by `take`)
//!   * `read`        — the payload is read through the descriptor: `.as_slice()`, `.to_vec()`,
//!                     `.capacity()`, `Vec::from(…as_slice())`, `owner.as_ptr()`
//!   * `write`       — the payload is written: `.truncate(`, `.extend_from_slice(`, `.set_len(`,
//!                     `as_mut_unchecked`, `as_mut_slice_unchecked`, `from_raw_parts_mut`
//!   * `incr`        — `.incr()`
//!   * `release`     — the share is given up: `.explicit_drop()`, `*self = …` (drops the old value),
//!                     `let _ = self.into_owner()`
//!   * `forget`      — `forget(…)` (no release)
//! Lean then decides that every sequence is LEGAL for a share holder: no payload access and no
//! count operation after `release`, no `write` before a `testUnique` unless the function is an
//! `unsafe fn` whose precondition is uniqueness.  The sequences are the thread programs the C04
//! model quantifies over (read / clone / mutate-after-unique-test / drop): an illegal order —
//! e.g. releasing the share before copying the bytes in `make_unique` — is a program that model
//! does not allow, i.e. a data race with the new sole owner.

use syn::visit::Visit;
use syn::{ImplItem, Item};

use super::repo::{loc, SrcFile};
use super::{GenFile, Repo, HEADER};

/// Path-sensitive event collection: `paths` returns, for an expression/block, the list of
/// alternative event sequences it may produce; a path that ends in `return` is marked terminated
/// and is not extended by what follows.
#[derive(Clone, Default)]
struct Path {
    events: Vec<&'static str>,
    done: bool,
}

fn method_event(name: &str) -> Option<&'static [&'static str]> {
    Some(match name {
        "is_unique" => &["testUnique"],
        "try_unwrap" => &["testUnique", "take"],
        "as_slice" | "to_vec" | "capacity" => &["read"],
        // unambiguous accesses to the SHARED payload for writing
        "as_mut_unchecked" | "as_mut_unchecked_extended" | "as_mut_slice_unchecked" | "push_slice_unchecked"
        | "owner_mut" => &["write"],
        "incr" => &["incr"],
        "explicit_drop" => &["release"],
        // the descriptor is moved out of `self` (a placeholder is left behind)
        "take_allocated" | "union_move" => &["moveOut"],
        _ => return None,
    })
}

fn seq(a: Vec<Path>, b: impl Fn() -> Vec<Path>) -> Vec<Path> {
    let mut out = vec![];
    for p in a {
        if p.done {
            out.push(p);
        } else {
            for q in b() {
                let mut e = p.events.clone();
                e.extend_from_slice(&q.events);
                out.push(Path { events: e, done: q.done });
            }
        }
    }
    out
}

fn single(evs: &[&'static str]) -> Vec<Path> {
    vec![Path { events: evs.to_vec(), done: false }]
}

fn paths_block(b: &syn::Block) -> Vec<Path> {
    let mut acc = single(&[]);
    for st in &b.stmts {
        acc = seq(acc, || paths_stmt(st));
    }
    acc
}

fn paths_stmt(st: &syn::Stmt) -> Vec<Path> {
    match st {
        syn::Stmt::Local(l) => {
            let Some(init) = &l.init else { return single(&[]) };
            let mut acc = paths_expr(&init.expr);
            let p = &l.pat;
            let e = &init.expr;
            if quote::quote!(#p).to_string().trim() == "_"
                && quote::quote!(#e).to_string().replace(' ', "").ends_with(".into_owner()")
            {
                acc = seq(acc, || single(&["release"]));
            }
            if let Some((_, els)) = &init.diverge {
                // let-else: the else branch diverges
                let mut alt = seq(paths_expr(&init.expr), || paths_expr(els));
                for a in &mut alt {
                    a.done = true;
                }
                acc.extend(alt);
            }
            acc
        }
        syn::Stmt::Expr(e, _) => paths_expr(e),
        syn::Stmt::Macro(_) | syn::Stmt::Item(_) => single(&[]),
    }
}

fn paths_exprs<'a>(es: impl Iterator<Item = &'a syn::Expr>) -> Vec<Path> {
    let mut acc = single(&[]);
    for e in es {
        acc = seq(acc, || paths_expr(e));
    }
    acc
}

fn paths_expr(e: &syn::Expr) -> Vec<Path> {
    use syn::Expr;
    match e {
        Expr::Block(b) => paths_block(&b.block),
        Expr::Unsafe(u) => paths_block(&u.block),
        Expr::Paren(p) => paths_expr(&p.expr),
        Expr::Group(g) => paths_expr(&g.expr),
        Expr::Reference(r) => paths_expr(&r.expr),
        Expr::Unary(u) => paths_expr(&u.expr),
        Expr::Cast(c) => paths_expr(&c.expr),
        Expr::Field(f) => paths_expr(&f.base),
        Expr::Try(t) => paths_expr(&t.expr),
        Expr::Index(i) => paths_exprs([&*i.expr, &*i.index].into_iter()),
        Expr::Binary(b) => paths_exprs([&*b.left, &*b.right].into_iter()),
        Expr::Range(r) => paths_exprs(r.start.iter().map(|x| &**x).chain(r.end.iter().map(|x| &**x))),
        Expr::Tuple(t) => paths_exprs(t.elems.iter()),
        Expr::Struct(s) => paths_exprs(s.fields.iter().map(|f| &f.expr)),
        Expr::Return(r) => {
            let mut ps = match &r.expr {
                Some(v) => paths_expr(v),
                None => single(&[]),
            };
            for p in &mut ps {
                p.done = true;
            }
            ps
        }
        Expr::If(i) => {
            let cond = paths_expr(&i.cond);
            let then = seq(cond.clone(), || paths_block(&i.then_branch));
            let els = match &i.else_branch {
                Some((_, e)) => seq(cond, || paths_expr(e)),
                None => cond,
            };
            let mut out = then;
            out.extend(els);
            out
        }
        Expr::Let(l) => paths_expr(&l.expr),
        Expr::Match(m) => {
            let scrut = paths_expr(&m.expr);
            let mut out = vec![];
            for arm in &m.arms {
                out.extend(seq(scrut.clone(), || paths_expr(&arm.body)));
            }
            out
        }
        Expr::Closure(c) => paths_expr(&c.body),
        Expr::Assign(a) => {
            let rhs = paths_expr(&a.right);
            let l = &a.left;
            if quote::quote!(#l).to_string().replace(' ', "") == "*self" {
                seq(rhs, || single(&["assignSelf"]))
            } else {
                rhs
            }
        }
        Expr::MethodCall(mc) => {
            let mut acc = paths_expr(&mc.receiver);
            for a in &mc.args {
                acc = seq(acc, || paths_expr(a));
            }
            match method_event(&mc.method.to_string()) {
                Some(evs) => seq(acc, || single(evs)),
                None => acc,
            }
        }
        Expr::Call(c) => {
            let f = &c.func;
            let name = quote::quote!(#f).to_string().replace(' ', "");
            let args = paths_exprs(c.args.iter());
            if name == "forget" || name.ends_with("::forget") {
                seq(args, || single(&["forget"]))
            } else if name == "replace" || name.ends_with("::replace") {
                // `replace(self, placeholder)`: the descriptor leaves `self`
                let a0 = c.args.first().map(|a| quote::quote!(#a).to_string().replace(' ', ""));
                if a0.as_deref() == Some("self") {
                    seq(args, || single(&["moveOut"]))
                } else {
                    args
                }
            } else if name.ends_with("from_raw_parts_mut") {
                seq(args, || single(&["write"]))
            } else {
                args
            }
        }
        _ => single(&[]),
    }
}

struct Target {
    file: &'static str,
    self_ty: &'static str,
    /// `Some("Drop")` for a trait impl
    trait_: Option<&'static str>,
    name: &'static str,
    /// restrict to the match arm whose pattern text contains this (e.g. `Tag::Allocated`)
    arm: Option<&'static str>,
    /// the function's documented precondition is sole ownership (`unsafe fn … must be unique`)
    assumes_unique: bool,
}

const TARGETS: &[Target] = &[
    Target { file: "src/bytes/raw.rs", self_ty: "HipByt", trait_: None, name: "make_unique", arm: Some("Tag::Allocated"), assumes_unique: false },
    Target { file: "src/bytes/raw.rs", self_ty: "HipByt", trait_: None, name: "take_vec", arm: None, assumes_unique: false },
    Target { file: "src/bytes/raw.rs", self_ty: "HipByt", trait_: Some("Drop"), name: "drop", arm: None, assumes_unique: false },
    Target { file: "src/bytes/raw/allocated.rs", self_ty: "Allocated", trait_: None, name: "explicit_clone", arm: None, assumes_unique: false },
    Target { file: "src/bytes/raw/allocated.rs", self_ty: "Allocated", trait_: None, name: "slice_unchecked", arm: None, assumes_unique: false },
    Target { file: "src/bytes/raw/allocated.rs", self_ty: "Allocated", trait_: None, name: "explicit_drop", arm: None, assumes_unique: false },
    Target { file: "src/bytes/raw/allocated.rs", self_ty: "Allocated", trait_: None, name: "try_into_vec", arm: None, assumes_unique: false },
    Target { file: "src/bytes/raw/allocated.rs", self_ty: "Allocated", trait_: None, name: "as_mut_slice", arm: None, assumes_unique: false },
    Target { file: "src/bytes/raw/allocated.rs", self_ty: "Allocated", trait_: None, name: "spare_capacity_mut", arm: None, assumes_unique: false },
    Target { file: "src/bytes/raw/allocated.rs", self_ty: "Allocated", trait_: None, name: "push_slice_unchecked", arm: None, assumes_unique: true },
    Target { file: "src/bytes/raw/allocated.rs", self_ty: "Allocated", trait_: None, name: "shrink_to", arm: None, assumes_unique: false },
    Target { file: "src/bytes.rs", self_ty: "HipByt", trait_: None, name: "push_slice", arm: None, assumes_unique: false },
    Target { file: "src/bytes.rs", self_ty: "HipByt", trait_: None, name: "truncate", arm: None, assumes_unique: false },
    Target { file: "src/bytes.rs", self_ty: "HipByt", trait_: None, name: "shrink_to", arm: None, assumes_unique: false },
];

fn find_fn<'a>(file: &'a SrcFile, t: &Target) -> Option<&'a syn::ImplItemFn> {
    for it in &file.ast.items {
        let Item::Impl(imp) = it else { continue };
        let st = &imp.self_ty;
        if !quote::quote!(#st).to_string().replace(' ', "").starts_with(t.self_ty) {
            continue;
        }
        match (&imp.trait_, t.trait_) {
            (None, None) => {}
            (Some((_, p, _)), Some(tr)) => {
                if p.segments.last().map(|s| s.ident.to_string()).as_deref() != Some(tr) {
                    continue;
                }
            }
            _ => continue,
        }
        // skip cfg(hipstr_verif) / cfg(test) impl blocks
        if imp.attrs.iter().any(|a| quote::quote!(#a).to_string().contains("hipstr_verif")) {
            continue;
        }
        for ii in &imp.items {
            if let ImplItem::Fn(f) = ii {
                if f.sig.ident == t.name {
                    return Some(f);
                }
            }
        }
    }
    None
}

struct ArmFinder<'a> {
    needle: &'a str,
    found: Option<syn::Expr>,
}
impl<'ast, 'a> Visit<'ast> for ArmFinder<'a> {
    fn visit_arm(&mut self, arm: &'ast syn::Arm) {
        let p = &arm.pat;
        if self.found.is_none() && quote::quote!(#p).to_string().replace(' ', "").contains(&self.needle.replace(' ', "")) {
            self.found = Some((*arm.body).clone());
        } else {
            syn::visit::visit_arm(self, arm);
        }
    }
}

pub fn generate(repo: &Repo) -> Result<Vec<GenFile>, String> {
    use syn::spanned::Spanned;
    let mut rows = vec![];
    for t in TARGETS {
        let file = repo.file(t.file)?;
        let Some(f) = find_fn(file, t) else {
            return Err(format!("Gen/Protocol: {}::{} not found in {}", t.self_ty, t.name, t.file));
        };
        let all_paths: Vec<Path>;
        match t.arm {
            Some(needle) => {
                let mut af = ArmFinder { needle, found: None };
                af.visit_block(&f.block);
                let Some(body) = af.found else {
                    return Err(format!(
                        "Gen/Protocol: arm `{needle}` not found in {}::{} at {}",
                        t.self_ty,
                        t.name,
                        loc(file, f.sig.span())
                    ));
                };
                all_paths = paths_expr(&body);
            }
            None => all_paths = paths_block(&f.block),
        }
        let is_unsafe = f.sig.unsafety.is_some();
        // distinct event sequences, in a stable order
        let mut seqs: Vec<Vec<&'static str>> = all_paths.into_iter().map(|p| p.events).collect();
        seqs.sort();
        seqs.dedup();
        if seqs.len() > 64 {
            return Err(format!("Gen/Protocol: too many paths in {}::{}", t.self_ty, t.name));
        }
        let paths_txt: Vec<String> = seqs
            .iter()
            .map(|s| format!("[{}]", s.iter().map(|e| format!(".{e}")).collect::<Vec<_>>().join(", ")))
            .collect();
        rows.push(format!(
            "  {{ fn_ := \"{}{}::{}{}\", paths := [{}], assumesUnique := {}, loc := \"{}\" }}",
            t.self_ty,
            t.trait_.map(|x| format!(" as {x}")).unwrap_or_default(),
            t.name,
            t.arm.map(|a| format!(" [{a}]")).unwrap_or_default(),
            paths_txt.join(", "),
            t.assumes_unique && is_unsafe,
            loc(file, f.sig.span())
        ));
    }
    let mut s = String::from(HEADER);
    s.push_str("import HipVerif.Model.ProtocolTy\n\nnamespace HipVerif.Gen.Protocol\nopen HipVerif.ProtocolTy\n\n");
    s.push_str("def fns : List FnProto := [\n");
    s.push_str(&rows.join(",\n"));
    s.push_str("\n]\n\nend HipVerif.Gen.Protocol\n");
    Ok(vec![GenFile { name: "Protocol.lean".into(), content: s }])
}
