//! Small shared utilities: PRNG, hex, CLI parsing for the differential bins.

/// SplitMix64: every random choice of a run derives from one seed.
#[derive(Clone, Debug)]
pub struct Rng(pub u64);

impl Rng {
    pub fn new(seed: u64) -> Self {
        Rng(seed ^ 0x9E37_79B9_7F4A_7C15)
    }
    pub fn next_u64(&mut self) -> u64 {
        self.0 = self.0.wrapping_add(0x9E37_79B9_7F4A_7C15);
        let mut z = self.0;
        z = (z ^ (z >> 30)).wrapping_mul(0xBF58_476D_1CE4_E5B9);
        z = (z ^ (z >> 27)).wrapping_mul(0x94D0_49BB_1331_11EB);
        z ^ (z >> 31)
    }
    /// uniform in 0..n (n > 0)
    pub fn below(&mut self, n: usize) -> usize {
        (self.next_u64() % (n as u64)) as usize
    }
    pub fn chance(&mut self, num: usize, den: usize) -> bool {
        self.below(den) < num
    }
    pub fn pick<'a, T>(&mut self, xs: &'a [T]) -> &'a T {
        &xs[self.below(xs.len())]
    }
}

pub fn hex(bytes: &[u8]) -> String {
    if bytes.is_empty() {
        return "-".to_string();
    }
    let mut s = String::with_capacity(bytes.len() * 2);
    for b in bytes {
        s.push_str(&format!("{b:02x}"));
    }
    s
}

pub fn unhex(s: &str) -> Option<Vec<u8>> {
    if s == "-" {
        return Some(Vec::new());
    }
    if s.len() % 2 != 0 {
        return None;
    }
    (0..s.len() / 2)
        .map(|i| u8::from_str_radix(&s[2 * i..2 * i + 2], 16).ok())
        .collect()
}

/// Common CLI of the differential bins.
#[derive(Clone, Debug)]
pub struct Cli {
    pub tier: String,
    pub seed: u64,
    pub lean: Option<String>,
    pub out: Option<String>,
    pub replay: Option<String>,
    pub extra: Vec<String>,
}

pub fn parse_cli() -> Cli {
    let mut cli = Cli {
        tier: "quick".into(),
        seed: 1,
        lean: None,
        out: None,
        replay: None,
        extra: vec![],
    };
    let mut args = std::env::args().skip(1);
    while let Some(a) = args.next() {
        match a.as_str() {
            "--tier" => cli.tier = args.next().expect("--tier value"),
            "--seed" => cli.seed = args.next().expect("--seed value").parse().expect("seed"),
            "--lean" => cli.lean = args.next(),
            "--out" => cli.out = args.next(),
            "--replay" => cli.replay = args.next(),
            _ => cli.extra.push(a),
        }
    }
    cli
}

/// A Lean line-protocol driver as a child process: one line in, one line out.
pub struct LeanDriver {
    child: std::process::Child,
    stdin: std::process::ChildStdin,
    stdout: std::io::BufReader<std::process::ChildStdout>,
}

impl LeanDriver {
    pub fn spawn(path: &str, args: &[&str]) -> std::io::Result<Self> {
        use std::process::{Command, Stdio};
        let mut child = Command::new(path)
            .args(args)
            .stdin(Stdio::piped())
            .stdout(Stdio::piped())
            .stderr(Stdio::inherit())
            .spawn()?;
        let stdin = child.stdin.take().unwrap();
        let stdout = std::io::BufReader::new(child.stdout.take().unwrap());
        Ok(LeanDriver { child, stdin, stdout })
    }
    /// Sends one line, reads one line back (without the trailing newline).
    pub fn ask(&mut self, line: &str) -> std::io::Result<String> {
        use std::io::{BufRead, Write};
        self.stdin.write_all(line.as_bytes())?;
        self.stdin.write_all(b"\n")?;
        self.stdin.flush()?;
        let mut out = String::new();
        let n = self.stdout.read_line(&mut out)?;
        if n == 0 {
            return Err(std::io::Error::new(
                std::io::ErrorKind::UnexpectedEof,
                "lean driver closed its output",
            ));
        }
        while out.ends_with('\n') || out.ends_with('\r') {
            out.pop();
        }
        Ok(out)
    }
}

impl Drop for LeanDriver {
    fn drop(&mut self) {
        let _ = self.child.kill();
        let _ = self.child.wait();
    }
}
