//! Tracking global allocator for the correspondence harness (`coredrive`).
//!
//! Every allocation of the process gets a 32-byte header and two 32-byte red zones.
//! Allocations made while the thread-local mode is `TRACK` or `COUNT` are additionally
//! REGISTERED in a block table (serial number = order of registration in the current
//! sequence); when freed they are poisoned (0xDD) and QUARANTINED (not handed back to the
//! system, hence never reused) until `end_sequence`, which verifies red zones and poison,
//! reports blocks still allocated (leaks) and releases everything.
//!
//! Events (alloc / free / realloc) are counted only in mode `COUNT` (the "in op" flag) and
//! never for the panic machinery's own allocations (made while `thread::panicking()`).
//! Classes: alignment >= 8 = the `Box<Inner>`; alignment 1 = a `Vec<u8>` buffer.
//!
//! The allocator itself never allocates: fixed-size tables, a spin lock.

use std::alloc::{GlobalAlloc, Layout, System};
use std::cell::{Cell, UnsafeCell};
use std::sync::atomic::{AtomicBool, Ordering};

pub const OFF: u8 = 0;
pub const TRACK: u8 = 1;
pub const COUNT: u8 = 2;

thread_local! {
    static MODE: Cell<u8> = const { Cell::new(0) };
}

/// Sets the mode of the current thread, returns the previous one.
pub fn set_mode(m: u8) -> u8 {
    MODE.with(|c| c.replace(m))
}

pub fn current_mode() -> u8 {
    mode()
}

fn mode() -> u8 {
    MODE.try_with(|c| c.get()).unwrap_or(OFF)
}

const MAGIC_LIVE: u64 = 0x4c49_5645_b10c_a11c;
const MAGIC_FREED: u64 = 0xf4ee_d000_b10c_dead;
const RZ: usize = 32;
const HDR: usize = 32;
const RZ_FRONT: u8 = 0xA5;
const RZ_BACK: u8 = 0x5A;
pub const POISON: u8 = 0xDD;
pub const FRESH: u8 = 0xFF;

const F_REG: usize = 1;
const F_NOISE: usize = 2;

#[repr(C)]
struct Header {
    magic: u64,
    size: usize,
    align: usize,
    /// `(entry index + 1) << 8 | flags`
    info: usize,
}

#[derive(Clone, Copy, Debug)]
pub struct Entry {
    pub addr: usize,
    pub size: usize,
    pub align: usize,
    pub live: bool,
    pub leak_ok: bool,
    pub noise: bool,
}

const EMPTY: Entry = Entry { addr: 0, size: 0, align: 0, live: false, leak_ok: false, noise: false };
const MAX_ENTRIES: usize = 1 << 14;
const MAX_VIOL: usize = 64;

/// Event counters: alloc-inner, free-inner, alloc-buf, free-buf, grow-buf, other.
pub type Events = [u32; 6];

pub const V_FREE_UNKNOWN: u8 = 1;
pub const V_DOUBLE_FREE: u8 = 2;
pub const V_LAYOUT: u8 = 3;
pub const V_REDZONE: u8 = 4;
pub const V_POISON: u8 = 5;
pub const V_LEAK: u8 = 6;
pub const V_TABLE_FULL: u8 = 7;

pub fn violation_name(k: u8) -> &'static str {
    match k {
        V_FREE_UNKNOWN => "free-of-unknown-address",
        V_DOUBLE_FREE => "double-free",
        V_LAYOUT => "dealloc-layout-differs-from-alloc-layout",
        V_REDZONE => "red-zone-damaged",
        V_POISON => "write-into-freed-block",
        V_LEAK => "block-still-allocated-at-end",
        V_TABLE_FULL => "internal:block-table-full",
        _ => "?",
    }
}

struct Table {
    n: usize,
    e: [Entry; MAX_ENTRIES],
    events: Events,
    /// largest align-1 block obtained (alloc or realloc) in mode COUNT since the last `take_max_alloc`
    max_buf: usize,
    nviol: usize,
    /// (kind, serial or 0, size)
    viol: [(u8, u32, usize); MAX_VIOL],
}

struct Shared(UnsafeCell<Table>);
unsafe impl Sync for Shared {}

static LOCK: AtomicBool = AtomicBool::new(false);
static TABLE: Shared = Shared(UnsafeCell::new(Table {
    n: 0,
    e: [EMPTY; MAX_ENTRIES],
    events: [0; 6],
    max_buf: 0,
    nviol: 0,
    viol: [(0, 0, 0); MAX_VIOL],
}));

fn with_table<R>(f: impl FnOnce(&mut Table) -> R) -> R {
    while LOCK.compare_exchange_weak(false, true, Ordering::Acquire, Ordering::Relaxed).is_err() {
        std::hint::spin_loop();
    }
    // SAFETY: exclusive under the spin lock; `f` never allocates
    let r = f(unsafe { &mut *TABLE.0.get() });
    LOCK.store(false, Ordering::Release);
    r
}

fn violate(t: &mut Table, kind: u8, serial: u32, size: usize) {
    if t.nviol < MAX_VIOL {
        t.viol[t.nviol] = (kind, serial, size);
        t.nviol += 1;
    }
}

#[inline]
fn front(align: usize) -> usize {
    let a = align.max(16);
    (HDR + RZ + a - 1) / a * a
}

#[inline]
fn under_layout(size: usize, align: usize) -> Option<Layout> {
    let total = front(align).checked_add(size)?.checked_add(RZ)?;
    Layout::from_size_align(total, align.max(16)).ok()
}

unsafe fn header(user: *mut u8) -> *mut Header {
    user.sub(HDR + RZ) as *mut Header
}

unsafe fn zones_ok(user: *mut u8, size: usize) -> bool {
    let f = std::slice::from_raw_parts(user.sub(RZ), RZ);
    let b = std::slice::from_raw_parts(user.add(size), RZ);
    f.iter().all(|&x| x == RZ_FRONT) && b.iter().all(|&x| x == RZ_BACK)
}

/// Can `p` be the address of a block handed out by this allocator?  Rejects what a corrupted
/// implementation typically passes to `dealloc`: pointers read from poisoned (0xDD…), fresh
/// (0xFF…) or red-zone memory, null-page and non-canonical addresses.  Such a free is recorded
/// as a violation and swallowed instead of dereferencing a header that is not there.
fn plausible(p: *mut u8, align: usize) -> bool {
    let a = p as usize;
    a >= 0x1000 && a >> 56 == 0 && (align == 0 || a % align == 0)
}

fn class_alloc(align: usize) -> usize {
    if align >= 8 {
        0
    } else if align == 1 {
        2
    } else {
        5
    }
}

pub struct Tracking;

impl Tracking {
    unsafe fn do_alloc(&self, layout: Layout, count: bool, fill: Option<u8>) -> *mut u8 {
        let (size, align) = (layout.size(), layout.align());
        let Some(ul) = under_layout(size, align) else { return std::ptr::null_mut() };
        let base = System.alloc(ul);
        if base.is_null() {
            return base;
        }
        let user = base.add(front(align));
        std::ptr::write_bytes(user.sub(RZ), RZ_FRONT, RZ);
        std::ptr::write_bytes(user.add(size), RZ_BACK, RZ);
        if let Some(b) = fill {
            std::ptr::write_bytes(user, b, size);
        }
        let m = mode();
        let mut info = 0usize;
        if m >= TRACK {
            let noise = std::thread::panicking();
            info = with_table(|t| {
                if t.n >= MAX_ENTRIES {
                    violate(t, V_TABLE_FULL, 0, size);
                    return 0;
                }
                t.e[t.n] = Entry { addr: user as usize, size, align, live: true, leak_ok: false, noise };
                t.n += 1;
                if m == COUNT && count && !noise {
                    t.events[class_alloc(align)] += 1;
                }
                if m == COUNT && !noise && align == 1 {
                    t.max_buf = t.max_buf.max(size);
                }
                (t.n << 8) | F_REG | if noise { F_NOISE } else { 0 }
            });
        }
        header(user).write(Header { magic: MAGIC_LIVE, size, align, info });
        user
    }

    /// returns false if the block must not be touched (unknown / already freed)
    unsafe fn do_dealloc(&self, user: *mut u8, layout: Layout, count: bool) {
        if !plausible(user, layout.align()) {
            with_table(|t| violate(t, V_FREE_UNKNOWN, 0, layout.size()));
            return;
        }
        let h = header(user);
        let magic = (*h).magic;
        if magic != MAGIC_LIVE {
            let kind = if magic == MAGIC_FREED { V_DOUBLE_FREE } else { V_FREE_UNKNOWN };
            let serial = if magic == MAGIC_FREED { ((*h).info >> 8) as u32 } else { 0 };
            with_table(|t| violate(t, kind, serial, layout.size()));
            return;
        }
        let (size, align, info) = ((*h).size, (*h).align, (*h).info);
        let serial = (info >> 8) as u32;
        let zones = zones_ok(user, size);
        let layout_ok = layout.size() == size && layout.align() == align;
        if info & F_REG != 0 {
            let m = mode();
            with_table(|t| {
                if !zones {
                    violate(t, V_REDZONE, serial, size);
                }
                if !layout_ok {
                    violate(t, V_LAYOUT, serial, size);
                }
                let idx = (info >> 8).wrapping_sub(1);
                if idx < t.n && t.e[idx].addr == user as usize {
                    t.e[idx].live = false;
                }
                if m == COUNT && count && info & F_NOISE == 0 {
                    t.events[class_alloc(align) + 1] += 1;
                }
            });
            (*h).magic = MAGIC_FREED;
            std::ptr::write_bytes(user, POISON, size);
            // quarantined until `end_sequence`
        } else {
            if !zones || !layout_ok {
                with_table(|t| {
                    if !zones {
                        violate(t, V_REDZONE, 0, size);
                    }
                    if !layout_ok {
                        violate(t, V_LAYOUT, 0, size);
                    }
                });
            }
            (*h).magic = MAGIC_FREED;
            System.dealloc(user.sub(front(align)), under_layout(size, align).unwrap());
        }
    }
}

unsafe impl GlobalAlloc for Tracking {
    unsafe fn alloc(&self, layout: Layout) -> *mut u8 {
        self.do_alloc(layout, true, Some(FRESH))
    }
    unsafe fn alloc_zeroed(&self, layout: Layout) -> *mut u8 {
        self.do_alloc(layout, true, Some(0))
    }
    unsafe fn dealloc(&self, ptr: *mut u8, layout: Layout) {
        self.do_dealloc(ptr, layout, true)
    }
    unsafe fn realloc(&self, ptr: *mut u8, layout: Layout, new_size: usize) -> *mut u8 {
        let Ok(nl) = Layout::from_size_align(new_size, layout.align()) else { return std::ptr::null_mut() };
        if !plausible(ptr, layout.align()) || (*header(ptr)).magic != MAGIC_LIVE {
            // growing a block that is not ours / already freed: record, hand out fresh memory
            let kind = if plausible(ptr, layout.align()) && (*header(ptr)).magic == MAGIC_FREED { V_DOUBLE_FREE } else { V_FREE_UNKNOWN };
            with_table(|t| violate(t, kind, 0, layout.size()));
            return self.do_alloc(nl, false, Some(FRESH));
        }
        // a block registered in the table stays registered when it moves
        let was_reg = (*header(ptr)).magic == MAGIC_LIVE && (*header(ptr)).info & F_REG != 0;
        let m = mode();
        let prev = if was_reg && m == OFF { Some(set_mode(TRACK)) } else { None };
        let new = self.do_alloc(nl, false, Some(FRESH));
        if let Some(p) = prev {
            set_mode(p);
        }
        if new.is_null() {
            return new;
        }
        std::ptr::copy_nonoverlapping(ptr, new, layout.size().min(new_size));
        self.do_dealloc(ptr, layout, false);
        if m == COUNT && !std::thread::panicking() {
            with_table(|t| t.events[if layout.align() == 1 { 4 } else { 5 }] += 1);
        }
        new
    }
}

/// Information on a registered block.
#[derive(Clone, Copy, Debug)]
pub struct Block {
    pub serial: u32,
    pub start: usize,
    pub size: usize,
    pub align: usize,
    pub live: bool,
}

/// The registered block whose memory `[start, start+size]` (end inclusive) contains `addr`;
/// live blocks are preferred.
pub fn find(addr: usize) -> Option<Block> {
    with_table(|t| {
        let mut best: Option<Block> = None;
        for i in 0..t.n {
            let e = &t.e[i];
            if addr >= e.addr && addr <= e.addr + e.size {
                let b = Block { serial: (i + 1) as u32, start: e.addr, size: e.size, align: e.align, live: e.live };
                if e.live {
                    return Some(b);
                }
                best = Some(b);
            }
        }
        best
    })
}

/// The registered LIVE block starting exactly at `addr`.
pub fn block_at(addr: usize) -> Option<Block> {
    with_table(|t| {
        for i in (0..t.n).rev() {
            let e = &t.e[i];
            if e.addr == addr && e.live {
                return Some(Block { serial: (i + 1) as u32, start: e.addr, size: e.size, align: e.align, live: true });
            }
        }
        None
    })
}

/// The block starting at `addr` is leaked on purpose (a forgotten `mutate()` guard).
pub fn mark_leak_ok(addr: usize) {
    with_table(|t| {
        for i in 0..t.n {
            if t.e[i].addr == addr && t.e[i].live {
                t.e[i].leak_ok = true;
            }
        }
    })
}

/// The event counters without resetting them.
pub fn peek_events() -> Events {
    with_table(|t| t.events)
}

pub fn take_events() -> Events {
    with_table(|t| std::mem::replace(&mut t.events, [0; 6]))
}

/// Size of the largest byte buffer allocated in the counted region since the last call.
pub fn take_max_alloc() -> usize {
    with_table(|t| std::mem::replace(&mut t.max_buf, 0))
}

pub fn registered() -> usize {
    with_table(|t| t.n)
}

/// Violations recorded since the last call: `(kind, serial, size)`.
pub fn take_violations() -> Vec<(u8, u32, usize)> {
    let (n, arr) = with_table(|t| {
        let r = (t.nviol, t.viol);
        t.nviol = 0;
        r
    });
    arr[..n].to_vec()
}

/// End of a sequence (every handle and every returned value has been dropped): verifies red
/// zones of every registered block and the poison of every freed one, reports blocks still
/// allocated, then releases all the memory and empties the table.
pub fn end_sequence() {
    let prev = set_mode(OFF);
    let n = with_table(|t| t.n);
    for i in 0..n {
        let e = with_table(|t| t.e[i]);
        let user = e.addr as *mut u8;
        unsafe {
            let zones = zones_ok(user, e.size);
            let mut poison_ok = true;
            if !e.live {
                let s = std::slice::from_raw_parts(user, e.size);
                poison_ok = s.iter().all(|&x| x == POISON);
            }
            with_table(|t| {
                if !zones {
                    violate(t, V_REDZONE, (i + 1) as u32, e.size);
                }
                if !poison_ok {
                    violate(t, V_POISON, (i + 1) as u32, e.size);
                }
                if e.live && !e.leak_ok && !e.noise {
                    violate(t, V_LEAK, (i + 1) as u32, e.size | (e.align << 48));
                }
            });
            (*header(user)).magic = 0;
            System.dealloc(user.sub(front(e.align)), under_layout(e.size, e.align).unwrap());
        }
    }
    with_table(|t| {
        t.n = 0;
        t.events = [0; 6];
    });
    set_mode(prev);
}
