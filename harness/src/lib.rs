//! Shared helpers for the hipstr verification harness.
pub mod extract;
pub mod util;
