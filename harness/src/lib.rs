//! Shared helpers for the hipstr verification harness.
pub mod alloc;
pub mod extract;
pub mod util;
