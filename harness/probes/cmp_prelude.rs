// Prelude of the generated C12 probe program (`cmpdrive --mode probe`).
//
// GENERIC law checks that need no per-impl code: the generated `main` (appended below by cmpdrive,
// one block per row of `Gen/CmpImpls` as listed by `views_driver probe_rows`) only instantiates
// them with the row's types. A new impl in the crate therefore gets probed as soon as the
// translator lists it.
//
// Output protocol (tab separated, one record per line):
//   R <row> <checks>                      the row was executed, number of law instances checked
//   V <row> <law> <hexX> <hexY> <detail>  a violated law instance (first few per row and law)
//   C <row> <law> <count>                 total number of violations of that law for the row
//   DONE <rows>
#![allow(dead_code, unused_imports, clippy::all)]

use std::borrow::{Borrow, Cow};
use std::cmp::Ordering;
use std::collections::{BTreeMap, HashMap};
use std::ffi::{OsStr, OsString};
use std::hash::{BuildHasherDefault, DefaultHasher, Hash, Hasher};
use std::os::unix::ffi::OsStrExt;
use std::path::{Path, PathBuf};

use bstr::{BStr, BString};
use hipstr::bytes::HipByt;
use hipstr::os_string::HipOsStr;
use hipstr::path::HipPath;
use hipstr::string::HipStr;
use hipstr::{Arc, Backend, Rc, Unique};

pub type Bytes = &'static [u8];

/// The fixed corpus: the classes on which the views differ (trailing `/`, `/.`, `//`, leading `./`,
/// root), case, NUL, non-ASCII UTF-8, U+FFFD vs an invalid byte, heap-sized strings.
pub const CORPUS: &[&[u8]] = &[
    b"a",
    b"",
    b"b",
    b"A",
    b"ab",
    b"a/",
    b"a/.",
    b"a/b",
    b"a//b",
    b"a/./b",
    b"./a",
    b"/a",
    b"/",
    b".",
    b"..",
    b"a\0",
    "\u{e9}".as_bytes(),
    "\u{FFFD}".as_bytes(),
    b"\x80",
    b"a\x80",
    b"aaaaaaaaaaaaaaaaaaaaaaaa",
    b"aaaaaaaaaaaaaaaaaaaaaaaa/",
    b"aaaaaaaaaaaaaaaaaaaaaaaab",
    b"ab/./ab//ab/../ab/ab/a/./",
    b"ab/./ab//ab/../ab/ab/a/",
    b"ab/./ab//ab/../ab/ab/a/./\x80",
    // periodic heap-sized content (views of one buffer at offsets 0, 4, 8 hold the same bytes)
    b"ab./ab./ab./ab./ab./ab./",
    // word-at-a-time fast paths: 8..40 bytes differing at 1-3 positions inside the first word (in
    // opposite directions), at the word boundary, and only in the tail
    b"incoming",
    b"outgoing",
    b"bcdefghi",
    b"ccdefghh",
    b"bbdefgii",
    b"bcdefghj",
    b"bcdefghij",
    b"bcdefghjj",
    b"bcdefgiii",
    b"bcdefghijklmnopqrstuvwxyzbcdefghijklmnop",
    b"ccdefghhjklmnopqrstuvwxyzbcdefghijklmnop",
    b"bcdefghijklmnopqrstuvwxyzbcdefghijklmnoq",
];

pub fn hex(b: &[u8]) -> String {
    if b.is_empty() {
        return "-".into();
    }
    b.iter().map(|x| format!("{x:02x}")).collect()
}

// ------------------------------------------------------------------------------------------------
// samples of every operand type, built from a byte string

pub trait Sample: Sized {
    /// The values of this type holding exactly `b` (none when the type cannot hold `b`).
    fn make(b: Bytes) -> Vec<Self>;
}

pub fn samples<T: Sample>() -> Vec<(Bytes, T)> {
    CORPUS.iter().flat_map(|b| T::make(b).into_iter().map(move |v| (*b, v))).collect()
}

fn utf8(b: Bytes) -> Option<&'static str> {
    std::str::from_utf8(b).ok()
}

/// RELATED values holding `b` (heap-sized `b` only, so that views stay allocated): two zero-copy
/// views at different offsets of ONE heap buffer holding `b ++ b` (plus offsets 4 and 8 when `b` has
/// period 4), a clone of a view, and — for valid UTF-8 without line breaks — the duplicate lines of
/// one heap text through `HipStr::lines()`.
fn related_byt<B: Backend>(b: Bytes) -> Vec<HipByt<'static, B>> {
    let n = b.len();
    if n <= 23 {
        return vec![];
    }
    let dbl = [b, b].concat();
    let heap: HipByt<'static, B> = HipByt::from(dbl.as_slice());
    let mut out = vec![heap.slice(0..n), heap.slice(n..2 * n)];
    for off in [4usize, 8] {
        if dbl[off..off + n] == *b {
            out.push(heap.slice(off..off + n));
        }
    }
    out.push(out[0].clone());
    out
}
fn related_str<B: Backend>(b: Bytes) -> Vec<HipStr<'static, B>> {
    let Some(s) = utf8(b) else { return vec![] };
    let mut out: Vec<HipStr<'static, B>> = related_byt::<B>(b).into_iter().map(|v| HipStr::try_from(v).expect("utf8")).collect();
    if b.len() > 23 && !s.contains(['\n', '\r']) {
        let text: HipStr<'static, B> = HipStr::from(format!("{s}\n{s}\n{s}\n"));
        out.extend(text.lines());
    }
    out
}

impl<B: Backend> Sample for HipByt<'static, B> {
    fn make(b: Bytes) -> Vec<Self> {
        let mut v = vec![HipByt::borrowed(b), HipByt::from(b)];
        v.extend(related_byt::<B>(b));
        v.extend(related_str::<B>(b).into_iter().skip(3).map(HipByt::from));
        v
    }
}
impl<B: Backend> Sample for HipStr<'static, B> {
    fn make(b: Bytes) -> Vec<Self> {
        let mut v = utf8(b).map_or(vec![], |s| vec![HipStr::borrowed(s), HipStr::from(s)]);
        v.extend(related_str::<B>(b));
        v
    }
}
impl<B: Backend> Sample for HipOsStr<'static, B> {
    fn make(b: Bytes) -> Vec<Self> {
        let mut v = vec![HipOsStr::borrowed(OsStr::from_bytes(b)), HipOsStr::from(OsStr::from_bytes(b))];
        if b.len() > 23 {
            let dbl = [b, b].concat();
            let heap: HipOsStr<'static, B> = HipOsStr::from(OsStr::from_bytes(&dbl));
            let all = heap.as_os_str().as_bytes();
            let n = b.len();
            v.push(heap.slice_ref(OsStr::from_bytes(&all[0..n])));
            v.push(heap.slice_ref(OsStr::from_bytes(&all[n..2 * n])));
        }
        v.extend(related_str::<B>(b).into_iter().map(HipOsStr::from));
        v
    }
}
impl<B: Backend> Sample for HipPath<'static, B> {
    fn make(b: Bytes) -> Vec<Self> {
        let p = Path::new(OsStr::from_bytes(b));
        let mut v = vec![HipPath::borrowed(p), HipPath::from(p)];
        v.extend(<HipOsStr<'static, B> as Sample>::make(b).into_iter().skip(2).map(HipPath::from));
        v
    }
}

impl Sample for &'static [u8] {
    fn make(b: Bytes) -> Vec<Self> {
        vec![b]
    }
}
impl<const N: usize> Sample for [u8; N] {
    fn make(b: Bytes) -> Vec<Self> {
        <[u8; N]>::try_from(b).map_or(vec![], |a| vec![a])
    }
}
impl Sample for Vec<u8> {
    fn make(b: Bytes) -> Vec<Self> {
        vec![b.to_vec()]
    }
}
impl Sample for Box<[u8]> {
    fn make(b: Bytes) -> Vec<Self> {
        vec![b.into()]
    }
}
impl Sample for Cow<'static, [u8]> {
    fn make(b: Bytes) -> Vec<Self> {
        vec![Cow::Borrowed(b), Cow::Owned(b.to_vec())]
    }
}
impl Sample for &'static str {
    fn make(b: Bytes) -> Vec<Self> {
        utf8(b).into_iter().collect()
    }
}
impl Sample for String {
    fn make(b: Bytes) -> Vec<Self> {
        utf8(b).map(String::from).into_iter().collect()
    }
}
impl Sample for Box<str> {
    fn make(b: Bytes) -> Vec<Self> {
        utf8(b).map(Box::from).into_iter().collect()
    }
}
impl Sample for Cow<'static, str> {
    fn make(b: Bytes) -> Vec<Self> {
        utf8(b).map_or(vec![], |s| vec![Cow::Borrowed(s), Cow::Owned(s.to_string())])
    }
}
impl Sample for &'static OsStr {
    fn make(b: Bytes) -> Vec<Self> {
        vec![OsStr::from_bytes(b)]
    }
}
impl Sample for OsString {
    fn make(b: Bytes) -> Vec<Self> {
        vec![OsStr::from_bytes(b).to_os_string()]
    }
}
impl Sample for Box<OsStr> {
    fn make(b: Bytes) -> Vec<Self> {
        vec![OsStr::from_bytes(b).into()]
    }
}
impl Sample for Cow<'static, OsStr> {
    fn make(b: Bytes) -> Vec<Self> {
        vec![Cow::Borrowed(OsStr::from_bytes(b)), Cow::Owned(OsStr::from_bytes(b).to_os_string())]
    }
}
impl Sample for &'static Path {
    fn make(b: Bytes) -> Vec<Self> {
        vec![Path::new(OsStr::from_bytes(b))]
    }
}
impl Sample for PathBuf {
    fn make(b: Bytes) -> Vec<Self> {
        vec![PathBuf::from(OsStr::from_bytes(b))]
    }
}
impl Sample for Box<Path> {
    fn make(b: Bytes) -> Vec<Self> {
        vec![Path::new(OsStr::from_bytes(b)).into()]
    }
}
impl Sample for Cow<'static, Path> {
    fn make(b: Bytes) -> Vec<Self> {
        let p = Path::new(OsStr::from_bytes(b));
        vec![Cow::Borrowed(p), Cow::Owned(p.to_path_buf())]
    }
}
impl Sample for &'static BStr {
    fn make(b: Bytes) -> Vec<Self> {
        vec![BStr::new(b)]
    }
}
impl Sample for BString {
    fn make(b: Bytes) -> Vec<Self> {
        vec![BString::from(b)]
    }
}
/// `&T` operands (`&Vec<u8>`, `&OsString`, `&[u8; N]`, …): leaked owned values.
impl<T: Sample + 'static> Sample for &'static T {
    fn make(b: Bytes) -> Vec<Self> {
        T::make(b).into_iter().map(|v| &*Box::leak(Box::new(v))).collect()
    }
}

// ------------------------------------------------------------------------------------------------
// the std views (the oracle): what std computes on the view the table names

pub fn view_eq(view: &str, x: &[u8], y: &[u8]) -> bool {
    match view {
        "bytes" | "str" | "osstr" => x == y,
        "path" => Path::new(OsStr::from_bytes(x)) == Path::new(OsStr::from_bytes(y)),
        v => panic!("unknown view {v}"),
    }
}

pub fn view_cmp(view: &str, x: &[u8], y: &[u8]) -> Ordering {
    match view {
        "bytes" | "str" | "osstr" => x.cmp(y),
        "path" => Path::new(OsStr::from_bytes(x)).cmp(Path::new(OsStr::from_bytes(y))),
        v => panic!("unknown view {v}"),
    }
}

#[derive(Default)]
pub struct Rec(pub Vec<u8>);
impl Hasher for Rec {
    fn write(&mut self, bytes: &[u8]) {
        self.0.extend_from_slice(bytes);
    }
    fn finish(&self) -> u64 {
        0
    }
}
pub fn stream<T: Hash + ?Sized>(t: &T) -> Vec<u8> {
    let mut r = Rec::default();
    t.hash(&mut r);
    r.0
}

pub fn view_hash(view: &str, x: &[u8]) -> Vec<u8> {
    match view {
        "bytes" => stream(x),
        "str" => stream(std::str::from_utf8(x).expect("str view of non-UTF-8")),
        "osstr" => stream(OsStr::from_bytes(x)),
        "path" => stream(Path::new(OsStr::from_bytes(x))),
        v => panic!("unknown view {v}"),
    }
}

type Fixed = BuildHasherDefault<DefaultHasher>;

// ------------------------------------------------------------------------------------------------
// reporting

pub struct Report {
    row: &'static str,
    checks: u64,
    counts: BTreeMap<&'static str, u64>,
}

impl Report {
    pub fn new(row: &'static str) -> Self {
        Report { row, checks: 0, counts: BTreeMap::new() }
    }
    pub fn check(&mut self, ok: bool, law: &'static str, x: &[u8], y: &[u8], detail: impl FnOnce() -> String) {
        self.checks += 1;
        if !ok {
            let n = self.counts.entry(law).or_insert(0);
            *n += 1;
            if *n <= 3 {
                println!("V\t{}\t{law}\t{}\t{}\t{}", self.row, hex(x), hex(y), detail());
            }
        }
    }
}

impl Drop for Report {
    fn drop(&mut self) {
        for (law, n) in &self.counts {
            println!("C\t{}\t{law}\t{n}", self.row);
        }
        println!("R\t{}\t{}", self.row, self.checks);
    }
}

fn o2s(o: Option<Ordering>) -> &'static str {
    match o {
        None => "none",
        Some(Ordering::Less) => "lt",
        Some(Ordering::Equal) => "eq",
        Some(Ordering::Greater) => "gt",
    }
}

// ------------------------------------------------------------------------------------------------
// the laws

/// `impl Borrow<T> for O`: the contract of `core::borrow::Borrow`, and what it is for.
pub fn borrow_laws<O, T: ?Sized>(row: &'static str, xs: &[(Bytes, O)])
where
    O: Borrow<T> + Hash + Eq + Ord + Clone,
    T: Hash + Eq + Ord,
{
    let mut r = Report::new(row);
    for (xb, x) in xs {
        let bx: &T = x.borrow();
        let (so, sb) = (stream(x), stream(bx));
        r.check(so == sb, "hash(x) == hash(x.borrow())", xb, &[], || format!("owner feeds {} borrowed feeds {}", hex(&so), hex(&sb)));
        for (yb, y) in xs {
            let by: &T = y.borrow();
            r.check((x == y) == (bx == by), "(x == y) == (x.borrow() == y.borrow())", xb, yb, || format!("owner {} borrowed {}", x == y, bx == by));
            r.check(x.cmp(y) == bx.cmp(by), "x.cmp(y) == x.borrow().cmp(y.borrow())", xb, yb, || {
                format!("owner {} borrowed {}", o2s(Some(x.cmp(y))), o2s(Some(bx.cmp(by))))
            });
        }
    }
    // one map holding every sample as key (first representative of each `==` class wins)
    let mut hm: HashMap<O, usize, Fixed> = HashMap::default();
    let mut bt: BTreeMap<O, usize> = BTreeMap::new();
    for (i, (_, x)) in xs.iter().enumerate() {
        hm.entry(x.clone()).or_insert(i);
        bt.entry(x.clone()).or_insert(i);
    }
    for (qb, q) in xs {
        let (want_h, want_b) = (hm.get::<O>(q).copied(), bt.get::<O>(q).copied());
        let (got_h, got_b) = (hm.get::<T>(q.borrow()).copied(), bt.get::<T>(q.borrow()).copied());
        let show = |o: Option<usize>| o.map_or("miss".to_string(), |i| format!("key {}", hex(xs[i].0)));
        r.check(got_h == want_h, "HashMap::get(x.borrow()) finds x's entry", qb, &[], || format!("by owner: {} by borrowed: {}", show(want_h), show(got_h)));
        r.check(got_b == want_b, "BTreeMap::get(x.borrow()) finds x's entry", qb, &[], || format!("by owner: {} by borrowed: {}", show(want_b), show(got_b)));
    }
    // single-key maps: `get(q.borrow())` hits iff `key == q` (keys: one value per corpus string)
    let firsts: Vec<&(Bytes, O)> = xs.iter().enumerate().filter(|(i, (b, _))| *i == 0 || xs[i - 1].0 != *b).map(|(_, e)| e).collect();
    for (kb, k) in firsts.iter().map(|e| (&e.0, &e.1)) {
        let mut hm1: HashMap<O, (), Fixed> = HashMap::default();
        hm1.insert(k.clone(), ());
        let mut bt1: BTreeMap<O, ()> = BTreeMap::new();
        bt1.insert(k.clone(), ());
        for (qb, q) in xs {
            let want = k == q;
            r.check(hm1.get::<T>(q.borrow()).is_some() == want, "HashMap{k}.get(q.borrow()) hits iff k == q", kb, qb, || format!("k == q is {want}"));
            r.check(bt1.get::<T>(q.borrow()).is_some() == want, "BTreeMap{k}.get(q.borrow()) hits iff k == q", kb, qb, || format!("k == q is {want}"));
        }
    }
}

/// `impl PartialEq<B> for A`: `==` / `!=` agree with std's `==` on the view the table names.
pub fn eq_row<A: ?Sized, B: ?Sized>(row: &'static str, view: &str, xs: &[(Bytes, &A)], ys: &[(Bytes, &B)])
where
    A: PartialEq<B>,
{
    let mut r = Report::new(row);
    for (xb, x) in xs {
        for (yb, y) in ys {
            let want = view_eq(view, xb, yb);
            r.check((*x == *y) == want, "(a == b) == (std view a == std view b)", xb, yb, || format!("impl {} std({view}) {want}", *x == *y));
            r.check((*x != *y) == !(*x == *y), "(a != b) == !(a == b)", xb, yb, String::new);
        }
    }
}

/// Both orders exist: `a == b ⇔ b == a`.
pub fn eq_sym<A: ?Sized, B: ?Sized>(row: &'static str, xs: &[(Bytes, &A)], ys: &[(Bytes, &B)])
where
    A: PartialEq<B>,
    B: PartialEq<A>,
{
    let mut r = Report::new(row);
    for (xb, x) in xs {
        for (yb, y) in ys {
            r.check((*x == *y) == (*y == *x), "(a == b) == (b == a)", xb, yb, || format!("a==b {} b==a {}", *x == *y, *y == *x));
        }
    }
}

/// `impl PartialOrd<B> for A`: `partial_cmp` and the operators agree with std on the view.
pub fn ord_row<A: ?Sized, B: ?Sized>(row: &'static str, view: &str, xs: &[(Bytes, &A)], ys: &[(Bytes, &B)])
where
    A: PartialOrd<B>,
{
    let mut r = Report::new(row);
    for (xb, x) in xs {
        for (yb, y) in ys {
            let want = view_cmp(view, xb, yb);
            let got = x.partial_cmp(y);
            r.check(got == Some(want), "a.partial_cmp(b) == std view cmp", xb, yb, || format!("impl {} std({view}) {}", o2s(got), o2s(Some(want))));
            r.check((*x < *y) == want.is_lt() && (*x <= *y) == want.is_le() && (*x > *y) == want.is_gt() && (*x >= *y) == want.is_ge(), "< <= > >= agree with std view cmp", xb, yb, || {
                format!("impl {}{}{}{} std({view}) {}", *x < *y, *x <= *y, *x > *y, *x >= *y, o2s(Some(want)))
            });
            r.check((got == Some(Ordering::Equal)) == (*x == *y), "(partial_cmp == Equal) == (a == b)", xb, yb, || format!("partial_cmp {} == {}", o2s(got), *x == *y));
        }
    }
}

/// Both orders exist: `b.partial_cmp(a) == a.partial_cmp(b).reverse()`.
pub fn ord_sym<A: ?Sized, B: ?Sized>(row: &'static str, xs: &[(Bytes, &A)], ys: &[(Bytes, &B)])
where
    A: PartialOrd<B>,
    B: PartialOrd<A>,
{
    let mut r = Report::new(row);
    for (xb, x) in xs {
        for (yb, y) in ys {
            let (ab, ba) = (x.partial_cmp(y), y.partial_cmp(x));
            r.check(ab == ba.map(Ordering::reverse), "b.partial_cmp(a) == a.partial_cmp(b).reverse()", xb, yb, || format!("a?b {} b?a {}", o2s(ab), o2s(ba)));
        }
    }
}

/// `impl Ord for A`: `cmp` and the provided methods (`max`, `min`, `clamp`, and `partial_cmp` of the
/// same type), called on the real type so that an overridden provided method is exercised.
pub fn cmp_row<A: Ord + Clone>(row: &'static str, view: &str, xs: &[(Bytes, A)]) {
    let mut r = Report::new(row);
    let third = xs.iter().find(|(b, _)| b.len() == 2);
    for (xb, x) in xs {
        for (yb, y) in xs {
            let want = view_cmp(view, xb, yb);
            r.check(x.cmp(y) == want, "a.cmp(b) == std view cmp", xb, yb, || format!("impl {} std({view}) {}", o2s(Some(x.cmp(y))), o2s(Some(want))));
            r.check((x.cmp(y) == Ordering::Equal) == (x == y), "(cmp == Equal) == (a == b)", xb, yb, String::new);
            r.check(x.partial_cmp(y) == Some(want), "a.partial_cmp(b) == Some(std view cmp)", xb, yb, || format!("impl {} std({view}) {}", o2s(x.partial_cmp(y)), o2s(Some(want))));
            r.check((x < y) == want.is_lt() && (x <= y) == want.is_le() && (x > y) == want.is_gt() && (x >= y) == want.is_ge(), "< <= > >= agree with std view cmp", xb, yb, String::new);
            let (mx, mn) = (A::max(x.clone(), y.clone()), A::min(x.clone(), y.clone()));
            let (emx, emn) = if want.is_gt() { (x, y) } else { (y, x) };
            r.check(mx.cmp(emx) == Ordering::Equal && mn.cmp(emn) == Ordering::Equal, "max / min pick the operand std picks", xb, yb, String::new);
            if let Some((tb, t)) = third {
                let (lo, hi, lob, hib) = if view_cmp(view, yb, tb).is_gt() { (t, y, tb, yb) } else { (y, t, yb, tb) };
                let e = if view_cmp(view, xb, lob).is_lt() { lo } else if view_cmp(view, xb, hib).is_gt() { hi } else { x };
                let got = std::panic::catch_unwind(std::panic::AssertUnwindSafe(|| x.clone().clamp(lo.clone(), hi.clone())));
                r.check(matches!(&got, Ok(g) if g.cmp(e) == Ordering::Equal), "clamp agrees with std view", xb, yb, || format!("lo={} hi={} panicked={}", hex(lob), hex(hib), got.is_err()));
            }
        }
    }
}

/// `impl Eq for A` (marker): reflexive.
pub fn eq_marker<A: Eq>(row: &'static str, xs: &[(Bytes, A)]) {
    let mut r = Report::new(row);
    for (xb, x) in xs {
        r.check(x == x, "a == a", xb, xb, String::new);
    }
}

/// `impl Hash for A`: the stream is the one the std view feeds, and `a == b ⇒ hash(a) == hash(b)`.
pub fn hash_row<A: Hash + Eq + Clone>(row: &'static str, view: &str, xs: &[(Bytes, A)]) {
    let mut r = Report::new(row);
    // HashSet dedup: as many keys as distinct contents per the view `==` of the type
    // (`view` names the hash view; equality classes of str/bytes/osstr are the bytes, of path the components)
    let set: std::collections::HashSet<A, Fixed> = xs.iter().map(|(_, x)| x.clone()).collect();
    let mut reps: Vec<Bytes> = vec![];
    for (b, _) in xs {
        if !reps.iter().any(|q| view_eq(view, q, b)) {
            reps.push(b);
        }
    }
    r.check(set.len() == reps.len(), "HashSet dedups to the distinct std-view values", &[], &[], || format!("set has {} keys, {} distinct values", set.len(), reps.len()));
    for (xb, x) in xs {
        let (got, want) = (stream(x), view_hash(view, xb));
        r.check(got == want, "hash stream == std view hash stream", xb, &[], || format!("impl {} std({view}) {}", hex(&got), hex(&want)));
        for (yb, y) in xs {
            r.check(!(x == y) || stream(y) == got, "a == b implies hash(a) == hash(b)", xb, yb, String::new);
        }
    }
}

// ---- generated `main` follows -------------------------------------------------------------------
