// C17 exported-macro hygiene corpus (crate `macros` of `probedrive --only c17`; headers as in
// escape.rs, `row=<macro name>`). The client forbids unsafe code and passes a raw-pointer deref
// as a macro ARGUMENT: if the macro expanded its arguments inside an `unsafe { }` of its own the
// program would compile. Each exported macro that takes an expression (driver: `expr_macros`)
// must have a must_fail probe here (probedrive checks the two sets are equal).
#![forbid(unsafe_code)]
#![allow(warnings)]
extern crate alloc;
use hipstr::vecs::{InlineVec, ThinVec};
use hipstr::{inline_vec, thin_vec};

//@ thin_vec_list_deref must_fail row=thin_vec
pub mod thin_vec_list_deref {
    use super::*;
    pub fn f(p: *const u8) -> ThinVec<u8> {
        thin_vec![*p, 1, 2]
    }
}
//@ thin_vec_repeat_deref must_fail row=thin_vec
pub mod thin_vec_repeat_deref {
    use super::*;
    pub fn f(p: *const u8) -> ThinVec<u8> {
        thin_vec![*p; 3]
    }
}
//@ thin_vec_len_deref must_fail row=thin_vec
pub mod thin_vec_len_deref {
    use super::*;
    pub fn f(p: *const usize) -> ThinVec<u8> {
        thin_vec![0u8; *p]
    }
}
//@ thin_vec_plain must_compile row=-
pub mod thin_vec_plain {
    use super::*;
    pub fn f(x: u8) -> ThinVec<u8> {
        let v: ThinVec<u8> = thin_vec![];
        let w = thin_vec![x; 3];
        let _ = (v, w);
        thin_vec![x, 1, 2]
    }
}
//@ inline_vec_list_deref must_fail row=inline_vec
pub mod inline_vec_list_deref {
    use super::*;
    pub fn f(p: *const u8) -> InlineVec<u8, 7> {
        inline_vec![7 => *p, 1]
    }
}
//@ inline_vec_repeat_deref must_fail row=inline_vec
pub mod inline_vec_repeat_deref {
    use super::*;
    pub fn f(p: *const u8) -> InlineVec<u8, 7> {
        inline_vec![7 => *p; 2]
    }
}
//@ inline_vec_plain must_compile row=-
pub mod inline_vec_plain {
    use super::*;
    pub fn f(x: u8) -> InlineVec<u8, 7> {
        let w: InlineVec<u8, 7> = inline_vec![7 => x; 2];
        let _ = w;
        inline_vec![7 => x, 1]
    }
}
