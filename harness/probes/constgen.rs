// C17 const-parameter guard probes (crate `constgen`, BUILT — not just checked — by
// `probedrive --only c17`: the guards are `const { assert!(..) }` blocks evaluated when the
// function is instantiated, which `cargo check` never does). Headers as in escape.rs.
// A must_fail instantiation must be reported by rustc (E0080, "encountered while instantiating").
#![allow(warnings)]
use hipstr::vecs::InlineVec;

//@ tag_equals_one_shl_shift must_fail row=vecs::inline::TaggedU8::new
pub mod tag_equals_one_shl_shift {
    use super::*;
    // TAG == 1 << SHIFT: the tag would overlap the lowest length bit
    pub fn f() -> usize { InlineVec::<u8, 4, 1, 2>::new().len() }
}
//@ tag_zero must_fail row=vecs::inline::TaggedU8::new
pub mod tag_zero {
    use super::*;
    pub fn f() -> usize { InlineVec::<u8, 4, 1, 0>::new().len() }
}
//@ shift_zero must_fail row=vecs::inline::TaggedU8::new
pub mod shift_zero {
    use super::*;
    pub fn f() -> usize { InlineVec::<u8, 4, 0, 1>::new().len() }
}
//@ shift_eight must_fail row=vecs::inline::TaggedU8::new
pub mod shift_eight {
    use super::*;
    pub fn f() -> usize { InlineVec::<u8, 0, 8, 1>::new().len() }
}
//@ cap_exceeds_max must_fail row=vecs::inline::InlineVec::new
pub mod cap_exceeds_max {
    use super::*;
    // SHIFT = 1: at most 127 elements
    pub fn f() -> usize { InlineVec::<u8, 128, 1, 1>::new().len() }
}
//@ cap_zero must_fail row=vecs::inline::InlineVec::new
pub mod cap_zero {
    use super::*;
    pub fn f() -> usize { InlineVec::<u8, 0, 1, 1>::new().len() }
}
//@ tag_one_shift_one must_compile row=-
pub mod tag_one_shift_one {
    use super::*;
    pub fn f() -> usize { InlineVec::<u8, 4, 1, 1>::new().len() }
}
//@ cap_at_max must_compile row=-
pub mod cap_at_max {
    use super::*;
    pub fn f() -> usize { InlineVec::<u8, 127, 1, 1>::new().len() }
}
//@ tag_three_shift_two must_compile row=-
pub mod tag_three_shift_two {
    use super::*;
    pub fn f() -> usize { InlineVec::<u8, 63, 2, 3>::new().len() }
}
