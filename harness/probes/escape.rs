// C17 borrow-escape corpus: client programs compiled against the real crate by `probedrive`.
//
// Each probe is one `pub mod` introduced by a header line
//   //@ <name> <must_fail|must_compile> row=<row of Gen/PubFns.lean the verdict is about, or ->
// `must_fail` programs let borrowed data escape through the cited function: the model says the
// function's output regions are tied to its inputs (`tables_driver: tied <row>` = 1), so rustc
// must reject them. Each has a `must_compile` twin that adds `into_owned()`, keeps the source
// alive, or returns under the source's own lifetime. Twins citing a row are about functions
// whose output region is NOT tied (`tied` = 0: copies, `into_owned`), so the caller may pick
// `'static`. rustc errors are attributed to a probe by line number.
#![allow(warnings)]
extern crate alloc;
use alloc::borrow::Cow;
use alloc::string::String;
use alloc::vec::Vec;
use hipstr::{HipByt, HipOsStr, HipPath, HipStr};

//@ slice_escape must_fail row=string::HipStr::slice
pub mod slice_escape {
    use super::*;
    pub fn f() -> HipStr<'static> {
        let s = String::from("a long enough string to be heap allocated");
        let h = HipStr::borrowed(s.as_str());
        h.slice(0..5)
    }
}
//@ slice_owned must_compile row=string::HipStr::into_owned
pub mod slice_owned {
    use super::*;
    pub fn f() -> HipStr<'static> {
        let s = String::from("a long enough string to be heap allocated");
        let h = HipStr::borrowed(s.as_str());
        h.slice(0..5).into_owned()
    }
}
//@ bytes_slice_escape must_fail row=bytes::raw::HipByt::slice
pub mod bytes_slice_escape {
    use super::*;
    pub fn f() -> HipByt<'static> {
        let v = vec![1u8; 64];
        let h = HipByt::borrowed(&v);
        h.slice(1..)
    }
}
//@ bytes_slice_owned must_compile row=bytes::raw::HipByt::into_owned
pub mod bytes_slice_owned {
    use super::*;
    pub fn f() -> HipByt<'static> {
        let v = vec![1u8; 64];
        let h = HipByt::borrowed(&v);
        h.slice(1..).into_owned()
    }
}
//@ try_slice_escape must_fail row=string::HipStr::try_slice
pub mod try_slice_escape {
    use super::*;
    pub fn f() -> HipStr<'static> {
        let s = String::from("abc def");
        let h = HipStr::borrowed(&s);
        h.try_slice(0..3).unwrap()
    }
}
//@ try_slice_keep_alive must_compile row=-
pub mod try_slice_keep_alive {
    use super::*;
    pub fn f<'a>(s: &'a str) -> HipStr<'a> {
        let h = HipStr::borrowed(s);
        h.try_slice(0..3).unwrap()
    }
}
//@ slice_error_escape must_fail row=string::HipStr::try_slice
pub mod slice_error_escape {
    use super::*;
    pub fn f() -> hipstr::string::SliceError<'static, 'static, hipstr::Arc> {
        let h = HipStr::from("abc");
        h.try_slice(5..6).unwrap_err()
    }
}
//@ slice_error_kind must_compile row=-
pub mod slice_error_kind {
    use super::*;
    pub fn f() -> hipstr::string::SliceErrorKind {
        let h = HipStr::from("abc");
        h.try_slice(5..6).unwrap_err().kind()
    }
}
//@ slice_ref_escape must_fail row=string::HipStr::slice_ref
pub mod slice_ref_escape {
    use super::*;
    pub fn f() -> HipStr<'static> {
        let s = String::from("abc def");
        let h = HipStr::borrowed(&s);
        h.slice_ref(&h.as_str()[0..3])
    }
}
//@ slice_ref_owned must_compile row=string::HipStr::into_owned
pub mod slice_ref_owned {
    use super::*;
    pub fn f() -> HipStr<'static> {
        let s = String::from("abc def");
        let h = HipStr::borrowed(&s);
        h.slice_ref(&h.as_str()[0..3]).into_owned()
    }
}
//@ try_slice_ref_escape must_fail row=string::HipStr::try_slice_ref
pub mod try_slice_ref_escape {
    use super::*;
    pub fn f() -> HipStr<'static> {
        let s = String::from("abc def");
        let h = HipStr::borrowed(&s);
        h.try_slice_ref(&h.as_str()[0..3]).unwrap()
    }
}
//@ try_slice_ref_owned must_compile row=string::HipStr::into_owned
pub mod try_slice_ref_owned {
    use super::*;
    pub fn f() -> HipStr<'static> {
        let s = String::from("abc def");
        let h = HipStr::borrowed(&s);
        h.try_slice_ref(&h.as_str()[0..3]).unwrap().into_owned()
    }
}
//@ clone_escape must_fail row=<string::HipStr<'_, B> as Clone>::clone
pub mod clone_escape {
    use super::*;
    pub fn f() -> HipStr<'static> {
        let s = String::from("abc def");
        let h = HipStr::borrowed(&s);
        h.clone()
    }
}
//@ clone_owned must_compile row=string::HipStr::into_owned
pub mod clone_owned {
    use super::*;
    pub fn f() -> HipStr<'static> {
        let s = String::from("abc def");
        let h = HipStr::borrowed(&s);
        h.clone().into_owned()
    }
}
//@ path_clone_escape must_fail row=<path::HipPath<'_, B> as Clone>::clone
pub mod path_clone_escape {
    use super::*;
    pub fn f() -> HipPath<'static> {
        let s = String::from("/tmp/abc");
        let h = HipPath::borrowed(&s);
        h.clone()
    }
}
//@ path_clone_owned must_compile row=path::HipPath::into_owned
pub mod path_clone_owned {
    use super::*;
    pub fn f() -> HipPath<'static> {
        let s = String::from("/tmp/abc");
        let h = HipPath::borrowed(&s);
        h.clone().into_owned()
    }
}
//@ split_item_escape must_fail row=string::HipStr::split
pub mod split_item_escape {
    use super::*;
    pub fn f() -> usize {
        let item;
        {
            let s = String::from("abc def");
            let h = HipStr::borrowed(&s);
            item = h.split(' ').next().unwrap();
        }
        item.len()
    }
}
//@ split_item_owned must_compile row=string::HipStr::into_owned
pub mod split_item_owned {
    use super::*;
    pub fn f() -> usize {
        let item;
        {
            let s = String::from("abc def");
            let h = HipStr::borrowed(&s);
            item = h.split(' ').next().unwrap().into_owned();
        }
        item.len()
    }
}
//@ split_iter_escape must_fail row=string::HipStr::split
pub mod split_iter_escape {
    use super::*;
    pub fn f<'a>(s: &'a str) -> impl Iterator<Item = HipStr<'a>> {
        let h = HipStr::borrowed(s);
        h.split(' ')
    }
}
//@ split_iter_collected must_compile row=-
pub mod split_iter_collected {
    use super::*;
    pub fn f<'a>(s: &'a str) -> impl Iterator<Item = HipStr<'a>> {
        let h = HipStr::borrowed(s);
        h.split(' ').collect::<Vec<_>>().into_iter()
    }
}
//@ lines_iter_escape must_fail row=string::HipStr::lines
pub mod lines_iter_escape {
    use super::*;
    pub fn f() -> usize {
        let it;
        {
            let h = HipStr::from("a\nb");
            it = h.lines();
        }
        it.count()
    }
}
//@ lines_iter_inside must_compile row=-
pub mod lines_iter_inside {
    use super::*;
    pub fn f() -> usize {
        let h = HipStr::from("a\nb");
        let it = h.lines();
        it.count()
    }
}
//@ split_once_escape must_fail row=string::HipStr::split_once
pub mod split_once_escape {
    use super::*;
    pub fn f() -> HipStr<'static> {
        let s = String::from("key=value");
        let h = HipStr::borrowed(&s);
        h.split_once('=').unwrap().1
    }
}
//@ split_once_owned must_compile row=string::HipStr::into_owned
pub mod split_once_owned {
    use super::*;
    pub fn f() -> HipStr<'static> {
        let s = String::from("key=value");
        let h = HipStr::borrowed(&s);
        let value = h.split_once('=').unwrap().1.into_owned();
        value
    }
}
//@ trim_escape must_fail row=string::HipStr::trim
pub mod trim_escape {
    use super::*;
    pub fn f() -> HipStr<'static> {
        let s = String::from("  abc  ");
        let h = HipStr::borrowed(&s);
        h.trim()
    }
}
//@ trim_owned must_compile row=string::HipStr::into_owned
pub mod trim_owned {
    use super::*;
    pub fn f() -> HipStr<'static> {
        let s = String::from("  abc  ");
        let h = HipStr::borrowed(&s);
        h.trim().into_owned()
    }
}
//@ strip_prefix_escape must_fail row=string::HipStr::strip_prefix
pub mod strip_prefix_escape {
    use super::*;
    pub fn f() -> HipStr<'static> {
        let s = String::from("prefix-abc");
        let h = HipStr::borrowed(&s);
        h.strip_prefix("prefix-").unwrap()
    }
}
//@ strip_prefix_owned must_compile row=string::HipStr::into_owned
pub mod strip_prefix_owned {
    use super::*;
    pub fn f() -> HipStr<'static> {
        let s = String::from("prefix-abc");
        let h = HipStr::borrowed(&s);
        h.strip_prefix("prefix-").unwrap().into_owned()
    }
}
//@ as_borrowed_escape must_fail row=string::HipStr::as_borrowed
pub mod as_borrowed_escape {
    use super::*;
    pub fn f() -> &'static str {
        let s = String::from("abc");
        let h = HipStr::borrowed(&s);
        h.as_borrowed().unwrap()
    }
}
//@ as_borrowed_source_lifetime must_compile row=-
pub mod as_borrowed_source_lifetime {
    use super::*;
    // the result outlives the HANDLE, not the borrow: tied to 'borrow, not to &self
    pub fn f<'a>(s: &'a str) -> &'a str {
        let h = HipStr::borrowed(s);
        h.as_borrowed().unwrap()
    }
}
//@ as_str_outlives_handle must_fail row=string::HipStr::as_str
pub mod as_str_outlives_handle {
    use super::*;
    // `as_str` is tied to `&self` (inline/heap bytes die with the handle), even if borrowed
    pub fn f<'a>(s: &'a str) -> &'a str {
        let h = HipStr::borrowed(s);
        h.as_str()
    }
}
//@ as_str_inside must_compile row=-
pub mod as_str_inside {
    use super::*;
    pub fn f<'a>(s: &'a str) -> usize {
        let h = HipStr::borrowed(s);
        h.as_str().len()
    }
}
//@ os_as_borrowed_escape must_fail row=os_string::HipOsStr::as_borrowed
pub mod os_as_borrowed_escape {
    use super::*;
    pub fn f() -> &'static std::ffi::OsStr {
        let s = String::from("abc");
        let h = HipOsStr::borrowed(&s);
        h.as_borrowed().unwrap()
    }
}
//@ os_as_borrowed_source_lifetime must_compile row=-
pub mod os_as_borrowed_source_lifetime {
    use super::*;
    pub fn f<'a>(s: &'a str) -> &'a std::ffi::OsStr {
        let h = HipOsStr::borrowed(s);
        h.as_borrowed().unwrap()
    }
}
//@ bytes_as_borrowed_escape must_fail row=bytes::raw::HipByt::as_borrowed
pub mod bytes_as_borrowed_escape {
    use super::*;
    pub fn f() -> &'static [u8] {
        let v = vec![0u8; 40];
        let h = HipByt::borrowed(&v);
        h.as_borrowed().unwrap()
    }
}
//@ bytes_as_borrowed_source_lifetime must_compile row=-
pub mod bytes_as_borrowed_source_lifetime {
    use super::*;
    pub fn f<'a>(v: &'a [u8]) -> &'a [u8] {
        let h = HipByt::borrowed(v);
        h.as_borrowed().unwrap()
    }
}
//@ into_borrowed_escape must_fail row=string::HipStr::into_borrowed
pub mod into_borrowed_escape {
    use super::*;
    pub fn f() -> &'static str {
        let s = String::from("abc");
        HipStr::borrowed(&s).into_borrowed().unwrap()
    }
}
//@ into_borrowed_source_lifetime must_compile row=-
pub mod into_borrowed_source_lifetime {
    use super::*;
    pub fn f<'a>(s: &'a str) -> &'a str {
        HipStr::borrowed(s).into_borrowed().unwrap()
    }
}
//@ mutate_guard_outlives_handle must_fail row=string::HipStr::mutate
pub mod mutate_guard_outlives_handle {
    use super::*;
    pub fn f() -> usize {
        let mut h = HipStr::from("abc");
        let g = h.mutate();
        drop(h);
        g.len()
    }
}
//@ mutate_guard_dropped_first must_compile row=-
pub mod mutate_guard_dropped_first {
    use super::*;
    pub fn f() -> usize {
        let mut h = HipStr::from("abc");
        let mut g = h.mutate();
        g.push('d');
        let n = g.len();
        drop(g);
        drop(h);
        n
    }
}
//@ mutate_guard_escape must_fail row=bytes::raw::HipByt::mutate
pub mod mutate_guard_escape {
    use super::*;
    pub fn f() -> hipstr::bytes::RefMut<'static, 'static, hipstr::Arc> {
        let mut h = HipByt::from(&b"abc"[..]);
        h.mutate()
    }
}
//@ mutate_guard_of_argument must_compile row=-
pub mod mutate_guard_of_argument {
    use super::*;
    pub fn f<'a>(h: &'a mut HipByt<'static>) -> hipstr::bytes::RefMut<'a, 'static, hipstr::Arc> {
        h.mutate()
    }
}
//@ mutate_aliasing must_fail row=string::HipStr::mutate
pub mod mutate_aliasing {
    use super::*;
    pub fn f() -> usize {
        let mut h = HipStr::from("abc");
        let g = h.mutate();
        let n = h.len();
        n + g.len()
    }
}
//@ mutate_then_read must_compile row=-
pub mod mutate_then_read {
    use super::*;
    pub fn f() -> usize {
        let mut h = HipStr::from("abc");
        {
            let mut g = h.mutate();
            g.push('x');
        }
        h.len()
    }
}
//@ cow_from_escape must_fail row=<Cow<'borrow, str> as From<HipStr<'borrow, B>>>::from
pub mod cow_from_escape {
    use super::*;
    pub fn f() -> Cow<'static, str> {
        let s = String::from("abc");
        let h = HipStr::borrowed(&s);
        Cow::from(h)
    }
}
//@ cow_from_owned must_compile row=string::HipStr::into_owned
pub mod cow_from_owned {
    use super::*;
    pub fn f() -> Cow<'static, str> {
        let s = String::from("abc");
        let h = HipStr::borrowed(&s);
        Cow::from(h.into_owned())
    }
}
//@ from_cow_escape must_fail row=<string::HipStr<'borrow, B> as From<Cow<'borrow, str>>>::from
pub mod from_cow_escape {
    use super::*;
    pub fn f() -> HipStr<'static> {
        let s = String::from("abc");
        HipStr::from(Cow::Borrowed(s.as_str()))
    }
}
//@ from_str_copies must_compile row=<string::HipStr<'_, B> as From<&str>>::from
pub mod from_str_copies {
    use super::*;
    // `From<&str>` copies: the model lists it in `neverBorrowed`, rustc lets the result be 'static
    pub fn f() -> HipStr<'static> {
        let s = String::from("abc");
        HipStr::from(s.as_str())
    }
}
//@ borrowed_escape must_fail row=string::HipStr::borrowed
pub mod borrowed_escape {
    use super::*;
    pub fn f() -> HipStr<'static> {
        let s = String::from("abc");
        HipStr::borrowed(s.as_str())
    }
}
//@ inline_copies must_compile row=bytes::raw::HipByt::inline
pub mod inline_copies {
    use super::*;
    pub fn f() -> HipByt<'static> {
        let v = vec![1u8, 2, 3];
        HipByt::inline(&v)
    }
}
//@ into_bytes_escape must_fail row=string::HipStr::into_bytes
pub mod into_bytes_escape {
    use super::*;
    pub fn f() -> HipByt<'static> {
        let s = String::from("abc");
        HipStr::borrowed(&s).into_bytes()
    }
}
//@ concat_copies must_compile row=string::HipStr::concat_slices
pub mod concat_copies {
    use super::*;
    pub fn f() -> HipStr<'static> {
        let s = String::from("abc");
        HipStr::concat_slices(&[s.as_str(), s.as_str()])
    }
}
//@ borrow_deserialize_escape must_fail row=string::serde::borrow_deserialize
pub mod borrow_deserialize_escape {
    use super::*;
    use serde::de::value::{BorrowedStrDeserializer, Error};
    pub fn f() -> HipStr<'static> {
        let s = String::from("abc");
        let d = BorrowedStrDeserializer::<Error>::new(&s);
        hipstr::string::serde::borrow_deserialize(d).unwrap()
    }
}
//@ owned_deserialize must_compile row=<string::HipStr<'_, B> as Deserialize<'de>>::deserialize
pub mod owned_deserialize {
    use super::*;
    use serde::de::value::{BorrowedStrDeserializer, Error};
    use serde::Deserialize;
    pub fn f() -> HipStr<'static> {
        let s = String::from("abc");
        let d = BorrowedStrDeserializer::<Error>::new(&s);
        HipStr::deserialize(d).unwrap()
    }
}
//@ bytes_borrow_deserialize_escape must_fail row=bytes::serde::borrow_deserialize
pub mod bytes_borrow_deserialize_escape {
    use super::*;
    use serde::de::value::{BorrowedBytesDeserializer, Error};
    pub fn f() -> HipByt<'static> {
        let v = vec![1u8, 2, 3];
        let d = BorrowedBytesDeserializer::<Error>::new(&v);
        hipstr::bytes::serde::borrow_deserialize(d).unwrap()
    }
}
//@ bytes_borrow_deserialize_owned must_compile row=bytes::raw::HipByt::into_owned
pub mod bytes_borrow_deserialize_owned {
    use super::*;
    use serde::de::value::{BorrowedBytesDeserializer, Error};
    pub fn f() -> HipByt<'static> {
        let v = vec![1u8, 2, 3];
        let d = BorrowedBytesDeserializer::<Error>::new(&v);
        let h: HipByt<'_> = hipstr::bytes::serde::borrow_deserialize(d).unwrap();
        h.into_owned()
    }
}
//@ to_str_escape must_fail row=os_string::HipOsStr::to_str
pub mod to_str_escape {
    use super::*;
    pub fn f() -> HipStr<'static> {
        let s = String::from("abc");
        let h = HipOsStr::borrowed(&s);
        h.to_str().unwrap()
    }
}
//@ to_str_owned must_compile row=string::HipStr::into_owned
pub mod to_str_owned {
    use super::*;
    pub fn f() -> HipStr<'static> {
        let s = String::from("abc");
        let h = HipOsStr::borrowed(&s);
        h.to_str().unwrap().into_owned()
    }
}
//@ drain_slice_survives_next must_fail row=common::drain::Drain::as_slice
pub mod drain_slice_survives_next {
    // the remaining-items view is tied to `&self`: it cannot be read after the drain advanced
    pub fn f() -> u8 {
        let mut v = hipstr::vecs::ThinVec::from_slice_copy(&[1u8, 2, 3]);
        let mut d = v.drain(..);
        let s = d.as_slice();
        let _ = d.next();
        drop(d);
        s[0]
    }
}
//@ drain_slice_read_first must_compile row=-
pub mod drain_slice_read_first {
    pub fn f() -> u8 {
        let mut v = hipstr::vecs::ThinVec::from_slice_copy(&[1u8, 2, 3]);
        let mut d = v.drain(..);
        let first = d.as_slice()[0];
        let _ = d.next();
        drop(d);
        first
    }
}
//@ guard_deref_outlives_guard must_fail row=<string::RefMut<'_, '_, B> as Deref>::deref
pub mod guard_deref_outlives_guard {
    use super::*;
    // a `&String` obtained from the `mutate` guard dies with the guard
    pub fn f(h: &mut HipStr<'static>) -> usize {
        let g = h.mutate();
        let s: &String = &*g;
        drop(g);
        s.len()
    }
}
//@ guard_deref_inside must_compile row=-
pub mod guard_deref_inside {
    use super::*;
    pub fn f(h: &mut HipStr<'static>) -> usize {
        let g = h.mutate();
        let s: &String = &*g;
        let n = s.len();
        drop(g);
        n
    }
}
