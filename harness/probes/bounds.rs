// C17 element-type-bound corpus: client programs compiled against the real crate by
// `probedrive --only c17` (crate `bounds`; header lines as in escape.rs).
//
// The bitwise-copy family of the vector types duplicates element bits; that is sound only for
// `Copy` elements, and the bound `T: Copy` IS the validation of the type argument. Each
// `must_fail` program instantiates one of these fns at `String` (rustc must reject it: E0277
// `String: Copy` is not satisfied); its `must_compile` twin is the same call at `u32`.
// After this corpus `probedrive` appends, for every row of Gen/PubFns that must require
// `T: Copy` (driver: `copy_rows`), a generated call at `String` (must be rejected) and at `u8`
// (must compile).
#![allow(warnings)]
extern crate alloc;
use alloc::string::String;
use hipstr::vecs::{InlineVec, ThinVec};
fn any<T>() -> T { loop {} }

//@ inline_from_slice_copy_string must_fail row=vecs::inline::InlineVec::from_slice_copy
pub mod inline_from_slice_copy_string {
    use super::*;
    pub fn f(s: String) -> InlineVec<String, 4> {
        InlineVec::<String, 4>::from_slice_copy(&[s])
    }
}
//@ inline_from_slice_copy_u32 must_compile row=-
pub mod inline_from_slice_copy_u32 {
    use super::*;
    pub fn f(s: u32) -> InlineVec<u32, 4> {
        InlineVec::<u32, 4>::from_slice_copy(&[s])
    }
}
//@ inline_extend_from_slice_copy_string must_fail row=vecs::inline::InlineVec::extend_from_slice_copy
pub mod inline_extend_from_slice_copy_string {
    use super::*;
    pub fn f(v: &mut InlineVec<String, 4>, s: &[String]) {
        v.extend_from_slice_copy(s)
    }
}
//@ inline_extend_from_slice_copy_u32 must_compile row=-
pub mod inline_extend_from_slice_copy_u32 {
    use super::*;
    pub fn f(v: &mut InlineVec<u32, 4>, s: &[u32]) {
        v.extend_from_slice_copy(s)
    }
}
//@ inline_copy_string must_fail row=vecs::inline::InlineVec::copy
pub mod inline_copy_string {
    use super::*;
    pub fn f(v: &InlineVec<String, 4>) -> InlineVec<String, 4> {
        v.copy()
    }
}
//@ inline_copy_u32 must_compile row=-
pub mod inline_copy_u32 {
    use super::*;
    pub fn f(v: &InlineVec<u32, 4>) -> InlineVec<u32, 4> {
        v.copy()
    }
}
//@ inline_extend_from_within_copy_string must_fail row=vecs::inline::InlineVec::extend_from_within_copy
pub mod inline_extend_from_within_copy_string {
    use super::*;
    pub fn f(v: &mut InlineVec<String, 4>) {
        v.extend_from_within_copy(0..1)
    }
}
//@ inline_extend_from_within_copy_u32 must_compile row=-
pub mod inline_extend_from_within_copy_u32 {
    use super::*;
    pub fn f(v: &mut InlineVec<u32, 4>) {
        v.extend_from_within_copy(0..1)
    }
}
//@ inline_from_slice_copy_unchecked_string must_fail row=vecs::inline::InlineVec::from_slice_copy_unchecked
pub mod inline_from_slice_copy_unchecked_string {
    use super::*;
    pub fn f(s: &[String]) -> InlineVec<String, 4> {
        unsafe { InlineVec::<String, 4>::from_slice_copy_unchecked(s) }
    }
}
//@ inline_from_slice_copy_unchecked_u32 must_compile row=-
pub mod inline_from_slice_copy_unchecked_u32 {
    use super::*;
    pub fn f(s: &[u32]) -> InlineVec<u32, 4> {
        unsafe { InlineVec::<u32, 4>::from_slice_copy_unchecked(s) }
    }
}
//@ inline_extend_from_slice_copy_unchecked_string must_fail row=vecs::inline::InlineVec::extend_from_slice_copy_unchecked
pub mod inline_extend_from_slice_copy_unchecked_string {
    use super::*;
    pub fn f(v: &mut InlineVec<String, 4>, s: &[String]) {
        unsafe { v.extend_from_slice_copy_unchecked(s) }
    }
}
//@ inline_extend_from_slice_copy_unchecked_u32 must_compile row=-
pub mod inline_extend_from_slice_copy_unchecked_u32 {
    use super::*;
    pub fn f(v: &mut InlineVec<u32, 4>, s: &[u32]) {
        unsafe { v.extend_from_slice_copy_unchecked(s) }
    }
}
//@ thin_from_slice_copy_string must_fail row=vecs::thin::ThinVec::from_slice_copy
pub mod thin_from_slice_copy_string {
    use super::*;
    pub fn f(s: &[String]) -> ThinVec<String> {
        ThinVec::from_slice_copy(s)
    }
}
//@ thin_from_slice_copy_u32 must_compile row=-
pub mod thin_from_slice_copy_u32 {
    use super::*;
    pub fn f(s: &[u32]) -> ThinVec<u32> {
        ThinVec::from_slice_copy(s)
    }
}
//@ thin_extend_from_slice_copy_string must_fail row=vecs::thin::ThinVec::extend_from_slice_copy
pub mod thin_extend_from_slice_copy_string {
    use super::*;
    pub fn f(v: &mut ThinVec<String>, s: &[String]) {
        v.extend_from_slice_copy(s)
    }
}
//@ thin_extend_from_slice_copy_u32 must_compile row=-
pub mod thin_extend_from_slice_copy_u32 {
    use super::*;
    pub fn f(v: &mut ThinVec<u32>, s: &[u32]) {
        v.extend_from_slice_copy(s)
    }
}
//@ clone_based_is_fine must_compile row=-
pub mod clone_based_is_fine {
    use super::*;
    // the Clone-based siblings accept `String`
    pub fn f(v: &InlineVec<String, 4>, t: &mut ThinVec<String>, s: &[String]) -> InlineVec<String, 4> {
        t.extend_from_slice(s);
        v.clone()
    }
}
