// C06 "doors" corpus: client programs compiled against the real crate by `probedrive --only c06`.
//
// Header lines as in escape.rs: `//@ <name> <must_fail|must_compile> row=-`.
// `must_fail` programs try to make a HipStr / HipOsStr / HipPath from raw bytes through an
// INFALLIBLE safe conversion; the model (`str_doors_checked`, `os_doors_typed`) says no such
// function exists, so rustc must reject them (trait not implemented / type mismatch). The
// `must_compile` twins go through the checked doors (`from_utf8`, `try_from`) or typed input.
// After this corpus `probedrive` appends one generated program per row that `rows_c06` reports
// (none on the unchanged tree).
#![allow(warnings)]
extern crate alloc;
use alloc::vec;
use alloc::vec::Vec;
use hipstr::{HipByt, HipOsStr, HipPath, HipStr};
fn any<T>() -> T { loop {} }

//@ str_from_byte_slice must_fail row=-
pub mod str_from_byte_slice {
    use super::*;
    pub fn f() -> HipStr<'static> {
        let s: HipStr<'static> = HipStr::from(b"\xff".as_slice());
        s
    }
}
//@ str_try_from_byte_slice must_compile row=-
pub mod str_try_from_byte_slice {
    use super::*;
    pub fn f() -> HipStr<'static> {
        HipStr::try_from(b"abc".as_slice()).unwrap()
    }
}
//@ str_from_hipbyt must_fail row=-
pub mod str_from_hipbyt {
    use super::*;
    pub fn f() -> HipStr<'static> {
        let b: HipByt<'static> = HipByt::from(b"\xff".as_slice());
        HipStr::from(b)
    }
}
//@ str_into_from_hipbyt must_fail row=-
pub mod str_into_from_hipbyt {
    use super::*;
    pub fn f() -> HipStr<'static> {
        let b: HipByt<'static> = HipByt::from(b"\xff".as_slice());
        b.into()
    }
}
//@ str_from_utf8_hipbyt must_compile row=-
pub mod str_from_utf8_hipbyt {
    use super::*;
    pub fn f() -> HipStr<'static> {
        let b: HipByt<'static> = HipByt::from(b"abc".as_slice());
        HipStr::from_utf8(b).unwrap()
    }
}
//@ str_from_vec must_fail row=-
pub mod str_from_vec {
    use super::*;
    pub fn f() -> HipStr<'static> {
        HipStr::from(vec![0xffu8, 0xfe])
    }
}
//@ str_try_from_vec must_compile row=-
pub mod str_try_from_vec {
    use super::*;
    pub fn f() -> Option<HipStr<'static>> {
        HipStr::try_from(vec![0xffu8, 0xfe]).ok()
    }
}
//@ str_from_utf16_infallible must_fail row=-
pub mod str_from_utf16_infallible {
    use super::*;
    pub fn f() -> HipStr<'static> {
        // `from_utf16` is fallible: its result is not a HipStr
        HipStr::from_utf16(&[0xD800u16])
    }
}
//@ str_from_utf16_checked must_compile row=-
pub mod str_from_utf16_checked {
    use super::*;
    pub fn f() -> HipStr<'static> {
        HipStr::from_utf16(&[0x61u16]).unwrap()
    }
}
//@ os_from_byte_slice must_fail row=-
pub mod os_from_byte_slice {
    use super::*;
    pub fn f() -> HipOsStr<'static> {
        HipOsStr::from(b"x".as_slice())
    }
}
//@ os_from_hipbyt must_fail row=-
pub mod os_from_hipbyt {
    use super::*;
    pub fn f() -> HipOsStr<'static> {
        let b: HipByt<'static> = HipByt::from(b"x".as_slice());
        HipOsStr::from(b)
    }
}
//@ os_try_from_bytes must_fail row=-
pub mod os_try_from_bytes {
    use super::*;
    pub fn f() -> Option<HipOsStr<'static>> {
        // not even a fallible door from raw bytes
        HipOsStr::try_from(vec![b'x']).ok()
    }
}
//@ os_from_str must_compile row=-
pub mod os_from_str {
    use super::*;
    pub fn f() -> HipOsStr<'static> {
        HipOsStr::from("x")
    }
}
//@ path_from_vec must_fail row=-
pub mod path_from_vec {
    use super::*;
    pub fn f() -> HipPath<'static> {
        HipPath::from(vec![b'x'])
    }
}
//@ path_from_path must_compile row=-
pub mod path_from_path {
    use super::*;
    pub fn f() -> HipPath<'static> {
        HipPath::from(std::path::Path::new("x"))
    }
}
//@ os_into_str_unchecked must_fail row=-
pub mod os_into_str_unchecked {
    use super::*;
    pub fn f() -> HipStr<'static> {
        // OS string → HipStr is fallible: the Result is not a HipStr
        HipOsStr::from("x").into_str()
    }
}
//@ os_into_str_checked must_compile row=-
pub mod os_into_str_checked {
    use super::*;
    pub fn f() -> HipStr<'static> {
        HipOsStr::from("x").into_str().unwrap()
    }
}
