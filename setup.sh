#!/bin/sh
# MANIFEST.setup_cmd: build the framework from files on disk only (offline).
# Every check rebuilds what it needs itself; this only warms the caches.
cd /verif || exit 1
python3 ./check --setup
exit 0
