#!/bin/sh
# MANIFEST.setup_cmd: build the framework from files on disk only (offline).
set -e
cd /verif/harness && cargo build --release 2>&1 | tail -3
cd /verif/lean && lake build 2>&1 | tail -3
